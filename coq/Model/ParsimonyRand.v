(** Random resolution (randomResolve = true) of acr/parsimony.go and asr/parsimony.go.
    No proofs in this file.

    randomlyResolveNodeStates: numstates = number of states with a count >= 1; when there are
    several, [rand.Intn(numstates)] picks the one to keep (in index order).  The draws depend
    on earlier choices, so the passes thread a source [s : S] with [draw bound s]; the judge
    instantiates it with the recorded raw stream ([Model.Rand.intn]), the theorems with a list
    of choices.  Order of the draws, as coded: pre-order over the non-tip nodes; in the
    sequence variant, all the sites of a node before the next node. *)
From Coq Require Import String Ascii ZArith NArith QArith Bool Arith List.
From GT Require Import Base.Sexp Base.UTree Spec.Obs Model.Reroot Model.Rand Model.Parsimony.
Import ListNotations.
Local Close Scope Q_scope.
Local Open Scope string_scope.

(** keep the [r]-th state that has a count >= 1 *)
Fixpoint keep_nth (v : vec) (cur r : nat) : vec :=
  match v with
  | [] => []
  | c :: rest => if Nat.leb 1 c then (if Nat.eqb cur r then 1 else 0) :: keep_nth rest (S cur) r
                 else 0 :: keep_nth rest cur r
  end.
Definition count_pos (v : vec) : nat := length (filter (fun c => Nat.leb 1 c) v).

(** a stateful map, left to right *)
Definition mapS {S A B : Type} (f : A -> S -> B * S) : list A -> S -> list B * S :=
  fix go (l : list A) (s : S) : list B * S :=
    match l with
    | [] => ([], s)
    | a :: r => let '(b, s1) := f a s in
                let '(bs, s2) := go r s1 in
                (b :: bs, s2)
    end.

Section Draw.
Variable S : Type.
Variable draw : nat -> S -> nat * S.

Definition resolve (v : vec) (s : S) : vec * S :=
  let n := count_pos v in
  if Nat.ltb 1 n then let '(r, s') := draw n s in (keep_nth v 0 r, s') else (v, s).

(** ** one character *)
(** parsimonyDOWNPASS(..., randomResolve=true): the upstates of the children are computed
    from the unresolved vectors; the node is resolved; then the children, in order *)
Fixpoint downpass_r (isroot : bool) (up : vec) (k : nat) (t : vtree) (s : S) : vtree * S :=
  match t with
  | VNode v [] => (t, s)
  | VNode v ks =>
    let roots := map vroot ks in
    let base := if isroot then [] else [up] in
    let v' := if isroot then v else compute_parsimony (vsum k (base ++ roots)) in
    let '(v'', s1) := resolve v' s in
    let '(ks', s2) :=
        (fix go (i : nat) (l : list vtree) (s : S) : list vtree * S :=
           match l with
           | [] => ([], s)
           | c :: r =>
             let '(c', sa) := downpass_r false (compute_parsimony (vsum k (base ++ remove_nth i roots))) k c s in
             let '(r', sb) := go (Datatypes.S i) r sa in
             (c' :: r', sb)
           end) 0 ks s1 in
    (VNode v'' ks', s2)
  end.

(** parsimonyDELTRAN(..., randomResolve=true): intersect with the (resolved) parent, resolve, descend *)
Fixpoint deltran_r (par : option vec) (t : vtree) (s : S) : vtree * S :=
  match t with
  | VNode v [] => (t, s)
  | VNode v ks =>
    let v' := match par with Some p => refine p v | None => v end in
    let '(v'', s1) := resolve v' s in
    let '(ks', s2) := mapS (deltran_r (Some v'')) ks s1 in
    (VNode v'' ks', s2)
  end.

(** parsimonyACCTRAN(..., randomResolve=true): resolve the node, rewrite its children, descend *)
Fixpoint acctran_r (skip_tips : bool) (v' : vec) (t : vtree) (s : S) : vtree * S :=
  match t with
  | VNode _ [] => (VNode v' [], s)
  | VNode _ ks =>
    let '(v'', s1) := resolve v' s in
    let '(ks', s2) :=
        mapS (fun c => acctran_r skip_tips
                                 (if skip_tips && is_vtip c then vroot c else refine v'' (vroot c)) c) ks s1 in
    (VNode v'' ks', s2)
  end.

Definition passes_r (skip_tips : bool) (a : algo) (k : nat) (u : vtree) (s : S) : vtree * S :=
  match a with
  | Downpass => downpass_r true [] k u s
  | Deltran => deltran_r None (downpass true [] k u) s
  | Acctran => acctran_r skip_tips (vroot u) u s
  | NoPass => (u, s)
  end.

Definition parsimony_r (skip_tips : bool) (tv : string -> vec) (k : nat) (a : algo) (t : utree) (s : S)
  : vtree * nat * S :=
  if is_tip t then (fst (parsimony skip_tips tv k a t), 0, s)
  else let '(u, st) := uppass tv k t in
       let '(r, s') := passes_r skip_tips a k u s in (r, st, s').

(** ParsimonyAcr(t, tipCharacters, algo, true) *)
Definition parsimony_acr_r (t : utree) (m : list (string * string)) (a : algo) (s : S) : res (acr_result * S) :=
  let alpha := acr_alphabet m in
  match find (fun n => match lookup n m with Some _ => false | None => true end) (all_tip_names t) with
  | Some n => Err ("Tip " ++ n ++ " does not exist in the tip/state mapping file")
  | None =>
    let '(vt, st, s') := parsimony_r false (acr_tipvec m alpha) (length alpha) a t s in
    let vs := vflat vt in
    Ok (mkAcr st vs (map (fun v => [concat_with "|" (states_of alpha v)]) vs) (acr_map_of t alpha vs), s')
  end.

(** ** a sequence: every node holds one vector per site (a cell); the same passes site by
    site, but the draws of a node (all its sites, in order) come before those of the next node *)
Inductive stree : Type := SNode (cell : list vec) (kids : list stree).
Definition sroot (t : stree) : list vec := match t with SNode v _ => v end.
Definition skids (t : stree) : list stree := match t with SNode _ k => k end.
Fixpoint sflat (t : stree) : list (list vec) := match t with SNode v ks => v :: flat_map sflat ks end.
Definition is_stip (t : stree) : bool := match t with SNode _ [] => true | _ => false end.

Definition cell_nth (j : nat) (c : list vec) : vec := nth j c [].
(** for site j, the vectors of the given cells *)
Definition col (j : nat) (cells : list (list vec)) : list vec := map (cell_nth j) cells.
Definition per_site {A} (L : nat) (f : nat -> A) : list A := map f (seq 0 L).

(** the up-pass of every site (same as [uppass] site by site) *)
Fixpoint suppass (tvs : nat -> string -> vec) (L k : nat) (t : utree) : stree * list nat :=
  match t with
  | UNode n _ sl =>
    if Nat.eqb (length sl) 1 then (SNode (per_site L (fun j => tvs j n)) [], repeat 0 L)
    else
      let rs := flat_map (fun s => match s with Some (_, c) => [suppass tvs L k c] | None => [] end) sl in
      let cells := map (fun r => sroot (fst r)) rs in
      (SNode (per_site L (fun j => compute_parsimony (vsum k (col j cells)))) (map fst rs),
       per_site L (fun j =>
         let vs := col j cells in
         fold_right (fun r acc => nth j (snd r) 0 + acc) 0 rs
         + length (filter (fun v => Nat.eqb (nth (first_max (vsum k vs)) v 0) 0) vs)))
  end.

Definition sresolve (c : list vec) (s : S) : list vec * S := mapS resolve c s.
Definition srefine (parent child : list vec) : list vec :=
  map (fun p => refine (fst p) (snd p)) (combine parent child).

Fixpoint sdownpass_r (isroot : bool) (up : list vec) (L k : nat) (t : stree) (s : S) : stree * S :=
  match t with
  | SNode c [] => (t, s)
  | SNode c ks =>
    let cells := map sroot ks in
    let base := fun j => if isroot then [] else [cell_nth j up] in
    let c' := if isroot then c
              else per_site L (fun j => compute_parsimony (vsum k (base j ++ col j cells))) in
    let '(c'', s1) := sresolve c' s in
    let '(ks', s2) :=
        (fix go (i : nat) (l : list stree) (s : S) : list stree * S :=
           match l with
           | [] => ([], s)
           | ch :: r =>
             let upi := per_site L (fun j => compute_parsimony (vsum k (base j ++ remove_nth i (col j cells)))) in
             let '(ch', sa) := sdownpass_r false upi L k ch s in
             let '(r', sb) := go (Datatypes.S i) r sa in
             (ch' :: r', sb)
           end) 0 ks s1 in
    (SNode c'' ks', s2)
  end.

(** the non-random down-pass of every site (used before DELTRAN) *)
Fixpoint sdownpass (isroot : bool) (up : list vec) (L k : nat) (t : stree) : stree :=
  match t with
  | SNode c [] => t
  | SNode c ks =>
    let cells := map sroot ks in
    let base := fun j => if isroot then [] else [cell_nth j up] in
    let c' := if isroot then c
              else per_site L (fun j => compute_parsimony (vsum k (base j ++ col j cells))) in
    SNode c' ((fix go (i : nat) (l : list stree) : list stree :=
                 match l with
                 | [] => []
                 | ch :: r =>
                   sdownpass false (per_site L (fun j => compute_parsimony (vsum k (base j ++ remove_nth i (col j cells))))) L k ch
                             :: go (Datatypes.S i) r
                 end) 0 ks)
  end.

Fixpoint sdeltran_r (par : option (list vec)) (t : stree) (s : S) : stree * S :=
  match t with
  | SNode c [] => (t, s)
  | SNode c ks =>
    let c' := match par with Some p => srefine p c | None => c end in
    let '(c'', s1) := sresolve c' s in
    let '(ks', s2) := mapS (sdeltran_r (Some c'')) ks s1 in
    (SNode c'' ks', s2)
  end.

(** the sequence variant skips tip children (after the fix) *)
Fixpoint sacctran_r (c' : list vec) (t : stree) (s : S) : stree * S :=
  match t with
  | SNode _ [] => (SNode c' [], s)
  | SNode _ ks =>
    let '(c'', s1) := sresolve c' s in
    let '(ks', s2) :=
        mapS (fun ch => sacctran_r (if is_stip ch then sroot ch else srefine c'' (sroot ch)) ch) ks s1 in
    (SNode c'' ks', s2)
  end.

(** ParsimonyAsr(t, alignment, algo, true), nucleotide alphabet *)
Definition parsimony_asr_r (t : utree) (aln : list (string * string)) (a : algo) (s : S) : res (asr_result * S) :=
  match find (fun n => match lookup n aln with Some _ => false | None => true end) (all_tip_names t) with
  | Some n => Err ("sequence " ++ n ++ " does not exist in the alignment")
  | None =>
    let L := aln_length aln in
    if is_tip t then
      match a with
      | NoPass => Err "parsimony algorithm 3 unkown"
      | _ => match parsimony_asr t aln a with Ok r => Ok (r, s) | Err e => Err e end
      end
    else
      let '(u, steps) := suppass (asr_tipvec aln) L 6 t in
      let out :=
          match a with
          | Downpass => Some (sdownpass_r true [] L 6 u s)
          | Deltran => Some (sdeltran_r None (sdownpass true [] L 6 u) s)
          | Acctran => Some (sacctran_r (sroot u) u s)
          | NoPass => None
          end in
      match out with
      | None => Err "parsimony algorithm 3 unkown"
      | Some (r, s') =>
        let cells := sflat r in
        Ok (mkAsr (steps ++ [0])
                  (per_site L (fun j => col j cells))
                  (map (fun c => String.concat "" (map render_site c)) cells), s')
      end
  end.

End Draw.

(** the two sources: the recorded raw Int63 stream (judge), a list of choices (theorems) *)
Definition draw_raw (b : nat) (raw : list N) : nat * list N :=
  match intn b raw with Some (v, r) => (v, r) | None => (0, []) end.
Definition draw_list (b : nat) (cs : list nat) : nat * list nat :=
  match cs with [] => (0, []) | c :: r => (Nat.modulo c b, r) end.
