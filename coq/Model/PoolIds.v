(** Which id a result carries (tree.Compare: `stats <- BipartitionStats{treeV.Id, ...}`).
    [own_id = true] (the source): the id of the record the worker received.
    [own_id = false] (a seeded regression): an id drawn from a counter shared by the workers,
    AFTER the receive (atomically incremented).
    A job is (id, payload).  0 = producer, i+1 = worker i.  No proofs in this file. *)
From Coq Require Import Bool Arith List.
From GT Require Import Model.Pool.
Import ListNotations.

Section Ids.
  Variables (payload res : Type).
  Variable f : payload -> res.
  Variable own_id : bool.

  Definition ijob : Type := (nat * payload)%type.

  Inductive istate :=
  | IIdle
  | IGot (j : ijob)                (* received, id not yet determined *)
  | IBusy (j : ijob) (i : nat)     (* computing; [i] is the id the result will carry *)
  | IExited.

  Record ist := mkI {
    ipending : list ijob;
    iclosed : bool;
    iqueue : list ijob;
    iws : list istate;
    icounter : nat;
    iout : list (nat * res)
  }.

  Definition iproducer_step (s : ist) : ist :=
    match ipending s with
    | j :: p => mkI p (iclosed s) (iqueue s ++ [j]) (iws s) (icounter s) (iout s)
    | [] => mkI [] true (iqueue s) (iws s) (icounter s) (iout s)
    end.

  Definition iworker_step (s : ist) (i : nat) : ist :=
    match nth_error (iws s) i with
    | None | Some IExited => s
    | Some IIdle =>
      match iqueue s with
      | j :: q => mkI (ipending s) (iclosed s) q (set_nth i (IGot j) (iws s)) (icounter s) (iout s)
      | [] => if iclosed s
              then mkI (ipending s) (iclosed s) [] (set_nth i IExited (iws s)) (icounter s) (iout s)
              else s
      end
    | Some (IGot j) =>
      if own_id
      then mkI (ipending s) (iclosed s) (iqueue s) (set_nth i (IBusy j (fst j)) (iws s)) (icounter s) (iout s)
      else mkI (ipending s) (iclosed s) (iqueue s) (set_nth i (IBusy j (icounter s)) (iws s))
               (S (icounter s)) (iout s)
    | Some (IBusy j k) =>
      mkI (ipending s) (iclosed s) (iqueue s) (set_nth i IIdle (iws s)) (icounter s)
          (iout s ++ [(k, f (snd j))])
    end.

  Definition istep (s : ist) (a : nat) : ist :=
    match a with 0 => iproducer_step s | S i => iworker_step s i end.
  Definition irun (sched : list nat) (s : ist) : ist := fold_left istep sched s.
  Definition iinit (jobs : list ijob) (n : nat) : ist := mkI jobs false [] (repeat IIdle n) 0 [].
  Definition ifinished (s : ist) : bool :=
    forallb (fun w => match w with IExited => true | _ => false end) (iws s).
End Ids.

Arguments IIdle {payload}. Arguments IGot {payload}. Arguments IBusy {payload}. Arguments IExited {payload}.
