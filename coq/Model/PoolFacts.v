(** Facts extracted from every `go func(){...}()` statement (generated table: Gen/Pools.v). *)
From Coq Require Import String Bool Arith List.
Import ListNotations.
Local Open Scope string_scope.

Record gofact : Type := mkGo {
  gfile : string;
  gfunc : string;
  gidx : nat;
  gcaptured_assigned : list string;  (* variables declared outside the literal, assigned inside *)
  ghas_done : bool;                  (* calls X.Done() *)
  gdeferred_done : bool;             (* defer X.Done() *)
  greturns_without_done : nat;       (* return statements not immediately preceded by X.Done() (0 when deferred) *)
  granges_chan : bool;
  gsends : bool;
  gdigest : string
}.
