(** Go's math/rand on top of the raw Int63 stream of the (seeded) global source.
    The harness records the stream; these functions say how the library turns it into the
    bounded choices the gotree code asks for (rand.Intn, rand.Perm). *)
From Coq Require Import String ZArith NArith Bool Arith List.
Import ListNotations.
Local Open Scope N_scope.

Definition two31 : N := 2147483648.

(** r.Int31() = int32(r.Int63() >> 32) *)
Definition int31_of (x : N) : N := N.shiftr x 32.

(** r.Int31n(n): power of two -> mask; else rejection sampling then modulo *)
Fixpoint int31n_loop (fuel : nat) (n mx : N) (raw : list N) : option (N * list N) :=
  match fuel with
  | O => None
  | S f => match raw with
           | [] => None
           | x :: r => let v := int31_of x in
                       if mx <? v then int31n_loop f n mx r else Some (v mod n, r)
           end
  end.

Definition int31n (n : N) (raw : list N) : option (N * list N) :=
  if N.land n (n - 1) =? 0 then
    match raw with
    | [] => None
    | x :: r => Some (N.land (int31_of x) (n - 1), r)
    end
  else int31n_loop (length raw) n (two31 - 1 - (two31 mod n)) raw.

(** rand.Intn(n) for 0 < n <= 2^31-1 (all uses in gotree) *)
Definition intn (n : nat) (raw : list N) : option (nat * list N) :=
  match n with
  | O => None
  | _ => match int31n (N.of_nat n) raw with
         | Some (v, r) => Some (N.to_nat v, r)
         | None => None
         end
  end.

(** draw one choice per bound, in order *)
Fixpoint draws (bounds : list nat) (raw : list N) : option (list nat * list N) :=
  match bounds with
  | [] => Some ([], raw)
  | b :: bs => match intn b raw with
               | Some (v, r) => match draws bs r with
                                | Some (vs, r') => Some (v :: vs, r')
                                | None => None
                                end
               | None => None
               end
  end.

(** rand.Perm(n): m[i] = m[j]; m[j] = i with j = Intn(i+1); from the choices j_0 .. j_{n-1} *)
Definition set_nth_nat (k x : nat) (l : list nat) : list nat :=
  firstn k l ++ match skipn k l with [] => [] | _ :: r => x :: r end.
Fixpoint perm_of_choices (i : nat) (cs : list nat) (m : list nat) : list nat :=
  match cs with
  | [] => m
  | j :: r =>
    let m1 := m ++ [nth j m 0%nat] in            (* m[i] = m[j]  (m has length i; j <= i; j = i reads the fresh 0) *)
    let m2 := set_nth_nat j i m1 in
    perm_of_choices (S i) r m2
  end.
Definition perm_bounds (n : nat) : list nat := map S (seq 0 n).
Definition go_perm (cs : list nat) : list nat := perm_of_choices 0 cs [].
