(** Executable instance of the number <-> text interface of Model/Newick.v, used by the
    correspondence check.  No proofs in this file.

    [numericC] / [parse_numC]: strconv.ParseFloat(s, 64) as read in strconv/atof.go
    (special, readFloat, underscoreOK): optional sign, decimal digits with optional '.',
    optional exponent e[+-]ddd; hexadecimal mantissa 0x... with mandatory exponent p[+-]ddd;
    '_' separators accepted exactly where underscoreOK accepts them; inf / infinity / nan
    (any case) are numeric but non-finite.  The value is the exact rational denoted by the
    text, correctly rounded to binary64 (round-to-nearest-even, subnormals, overflow is an
    error of ParseFloat hence "not numeric").  What is NOT modelled: the sign of zero
    ("-0" is 0).

    [fmt_go]: strconv.FormatFloat(x, 'f', -1, 64): the digit string with the fewest
    significant digits (1..17) whose text reads back as x -- among the two neighbours of x
    with that many digits the nearer one -- laid out like fmtF ([fmt_digits]: digits, then
    zeros or the point).  Every candidate is tested with [dec_round], which is literally
    what [classify] computes on its text (Proofs/NewickFmt.v), so a found candidate reads back
    by construction; when none is found (never observed for a binary64 value) the exact
    expansion of a dyadic is printed, which reads back because the rounding leaves binary64
    values unchanged (Proofs/NewickRound64.v).  A rational that is not a binary64 value is
    outside the domain (some text is printed).  [fmt_dec] is the plain exact expansion
    (kept for reference, not used by [fmt_go]). *)
From Coq Require Import String Ascii ZArith QArith Bool Arith List.
From GT Require Import Base.UTree Model.Newick Spec.NewickSpec.
Import ListNotations.
Local Close Scope Q_scope.
Local Open Scope string_scope.
Local Open Scope Z_scope.

(** * Printing *)
Definition digit_char (d : Z) : ascii := ascii_of_nat (48 + Z.to_nat d).

Fixpoint print_uint_aux (fuel : nat) (z : Z) (acc : string) : string :=
  match fuel with
  | O => acc
  | S f => let acc' := String (digit_char (z mod 10)) acc in
           if z / 10 =? 0 then acc' else print_uint_aux f (z / 10) acc'
  end.
(** decimal digits of z >= 0 (at most log2 z + 1 of them) *)
Definition print_uint (z : Z) : string := print_uint_aux (S (Z.to_nat (Z.log2 z))) z "".

(** digits of r/d after the decimal point, 0 <= r < d *)
Fixpoint print_frac (fuel : nat) (r d : Z) : string :=
  match fuel with
  | O => ""
  | S f => if r =? 0 then ""
           else String (digit_char ((r * 10) / d)) (print_frac f ((r * 10) mod d) d)
  end.

Definition fmt_dec (q : Q) : string :=
  let q' := Qred q in
  let n := Qnum q' in
  let d := Zpos (Qden q') in
  let a := Z.abs n in
  let fp := print_frac (S (Z.to_nat (Z.log2 d))) (a mod d) d in
  let sign : string := if n <? 0 then "-" else "" in
  let frac : string := match fp with EmptyString => "" | _ => String "." fp end in
  (sign ++ print_uint (a / d) ++ frac)%string.

(** * Reading *)
Definition lower (c : ascii) : ascii :=
  let n := nat_of_ascii c in
  if Nat.leb 65 n && Nat.leb n 90 then ascii_of_nat (n + 32) else c.
Fixpoint lower_s (s : string) : string :=
  match s with EmptyString => EmptyString | String c r => String (lower c) (lower_s r) end.

Definition dec_digit (c : ascii) : option Z :=
  let n := nat_of_ascii c in
  if Nat.leb 48 n && Nat.leb n 57 then Some (Z.of_nat (n - 48)) else None.
Definition hex_digit (c : ascii) : option Z :=
  match dec_digit c with
  | Some d => Some d
  | None => let n := nat_of_ascii (lower c) in
            if Nat.leb 97 n && Nat.leb n 102 then Some (Z.of_nat (n - 87)) else None
  end.

(** special(): the whole string is [+-]inf, [+-]infinity or nan, ignoring case *)
Definition is_special (s : string) : bool :=
  let l := lower_s s in
  let unsigned := match l with
                  | String c r => if Ascii.eqb c "+" || Ascii.eqb c "-" then r else l
                  | EmptyString => l
                  end in
  String.eqb unsigned "inf" || String.eqb unsigned "infinity" || String.eqb l "nan".

(** underscoreOK(s) *)
Inductive saw : Type := SawStart | SawDigit | SawUnder | SawOther.
Fixpoint underscore_loop (hex : bool) (sw : saw) (s : string) : bool :=
  match s with
  | EmptyString => match sw with SawUnder => false | _ => true end
  | String c r =>
    let isdig := match (if hex then hex_digit c else dec_digit c) with Some _ => true | None => false end in
    if isdig then underscore_loop hex SawDigit r
    else if Ascii.eqb c "_" then
      match sw with SawDigit => underscore_loop hex SawUnder r | _ => false end
    else match sw with SawUnder => false | _ => underscore_loop hex SawOther r end
  end.
Definition underscore_ok (s : string) : bool :=
  let s1 := match s with
            | String c r => if Ascii.eqb c "+" || Ascii.eqb c "-" then r else s
            | EmptyString => s
            end in
  match s1 with
  | String z (String x r) =>
    if Ascii.eqb z "0" && (Ascii.eqb (lower x) "b" || Ascii.eqb (lower x) "o" || Ascii.eqb (lower x) "x")
    then underscore_loop (Ascii.eqb (lower x) "x") SawDigit r
    else underscore_loop false SawStart s1
  | _ => underscore_loop false SawStart s1
  end.

(** mantissa loop of readFloat: returns (mantissa, number of digits read, number of digits
    after the '.', saw a digit, saw an underscore, rest) *)
Fixpoint mant_loop (hex : bool) (s : string) (m : Z) (nd fd : Z) (sawdot sawdig under : bool)
  : Z * Z * Z * bool * bool * string :=
  match s with
  | EmptyString => (m, nd, fd, sawdig, under, s)
  | String c r =>
    if Ascii.eqb c "_" then mant_loop hex r m nd fd sawdot sawdig true
    else if Ascii.eqb c "." then
      if sawdot then (m, nd, fd, sawdig, under, s)
      else mant_loop hex r m nd fd true sawdig under
    else match (if hex then hex_digit c else dec_digit c) with
         | Some d => mant_loop hex r (m * (if hex then 16 else 10) + d) (nd + 1)
                               (if sawdot then fd + 1 else fd) sawdot true under
         | None => (m, nd, fd, sawdig, under, s)
         end
  end.

(** exponent digits: e is capped as in readFloat (if e < 10000 { e = e*10 + d }) *)
Fixpoint exp_loop (s : string) (e : Z) (under : bool) : Z * bool * string :=
  match s with
  | EmptyString => (e, under, s)
  | String c r =>
    if Ascii.eqb c "_" then exp_loop r e true
    else match dec_digit c with
         | Some d => exp_loop r (if e <? 10000 then e * 10 + d else e) under
         | None => (e, under, s)
         end
  end.

(** round a positive rational n/d to binary64 (nearest, ties to even); None = overflow *)
Definition round64_pos (n d : Z) : option Q :=
  let scaled (e : Z) : Z * Z := if 0 <=? e then (n, d * 2 ^ e) else (n * 2 ^ (- e), d) in
  let e0 := Z.log2 n - Z.log2 d - 52 in
  let e1 := let '(a, b) := scaled e0 in if a / b <? 2 ^ 52 then e0 - 1 else e0 in
  let e := Z.max e1 (-1074) in
  let '(a, b) := scaled e in
  let q := a / b in
  let r := a mod b in
  let m := if 2 * r <? b then q
           else if b <? 2 * r then q + 1
           else if Z.even q then q else q + 1 in
  if (971 <? e) || ((e =? 971) && (m =? 2 ^ 53)) then None
  else if 0 <=? e then Some (inject_Z (m * 2 ^ e))
  else Some (Qred (Qmake m (Z.to_pos (2 ^ (- e))))).

Inductive numclass : Type := NotNum | NonFinite | Fin (q : Q).

Definition neg_q (neg : bool) (q : Q) : Q := if neg then Qopp q else q.

(** the finite value  m * base^x  (base 10 or 2), m > 0; [nd] bounds the digits of m *)
Definition scaled_value (hex : bool) (neg : bool) (m nd x : Z) : numclass :=
  if m =? 0 then Fin 0%Q
  else if hex then
    if 1030 <? x then NotNum
    else if 4 * nd + x <? -1080 then Fin 0%Q
    else match (if 0 <=? x then round64_pos (m * 2 ^ x) 1 else round64_pos m (2 ^ (- x))) with
         | Some q => Fin (neg_q neg q)
         | None => NotNum
         end
  else
    if 310 <? x then NotNum
    else if nd + x <? -330 then Fin 0%Q
    else match (if 0 <=? x then round64_pos (m * 10 ^ x) 1 else round64_pos m (10 ^ (- x))) with
         | Some q => Fin (neg_q neg q)
         | None => NotNum
         end.

Definition classify (s : string) : numclass :=
  if is_special s then NonFinite
  else
    let '(neg, s1) := match s with
                      | String c r => if Ascii.eqb c "+" then (false, r)
                                      else if Ascii.eqb c "-" then (true, r) else (false, s)
                      | EmptyString => (false, s)
                      end in
    let '(hex, s2) := match s1 with
                      | String z (String x (String c r)) =>
                        if Ascii.eqb z "0" && Ascii.eqb (lower x) "x" then (true, String c r) else (false, s1)
                      | _ => (false, s1)
                      end in
    let '(m, nd, fd, sawdig, under1, s3) := mant_loop hex s2 0 0 0 false false false in
    if negb sawdig then NotNum
    else
      let fin (e : Z) (under : bool) (rest : string) : numclass :=
          match rest with
          | EmptyString =>
            if under && negb (underscore_ok s) then NotNum
            else scaled_value hex neg m nd (e - (if hex then 4 * fd else fd))
          | _ => NotNum
          end in
      match s3 with
      | String c r =>
        if Ascii.eqb (lower c) (if hex then "p" else "e")%char then
          let '(esign, r1) := match r with
                              | String sg r' => if Ascii.eqb sg "+" then (1, r')
                                                else if Ascii.eqb sg "-" then (-1, r') else (1, r)
                              | EmptyString => (1, r)
                              end in
          match r1 with
          | String d0 _ =>
            match dec_digit d0 with
            | Some _ => let '(e, under2, r2) := exp_loop r1 0 under1 in fin (e * esign) under2 r2
            | None => NotNum
            end
          | EmptyString => NotNum
          end
        else NotNum     (* trailing garbage; also a hex mantissa without exponent *)
      | EmptyString => if hex then NotNum else fin 0 under1 EmptyString
      end.

Definition numericC (s : string) : bool :=
  match classify s with NotNum => false | _ => true end.
Definition parse_numC (s : string) : option Q :=
  match classify s with Fin q => Some q | _ => None end.

(** [q] is a binary64 value: rounding does not change it *)
Definition is_b64 (q : Q) : bool :=
  let n := Qnum q in
  if n =? 0 then true
  else match round64_pos (Z.abs n) (Zpos (Qden q)) with
       | Some r => Qeq_bool r (Qmake (Z.abs n) (Qden q))
       | None => false
       end.

(** * strconv.FormatFloat(x, 'f', -1, 64): the decimal with the fewest significant digits
    that ParseFloat reads back as x; among those of that length the closest to x (ties:
    even last digit).  Stated with [round64_pos]: for p = 1, 2, ... 17 significant digits
    the two p-digit neighbours of x (truncation, and truncation + one unit) are tried. *)

(** 10^k <= n/d *)
Definition pow10_le (k n d : Z) : bool :=
  if 0 <=? k then d * 10 ^ k <=? n else d <=? n * 10 ^ (- k).

(** floor(log10(n/d)), n, d > 0: estimate from the binary logarithms, then adjust *)
Fixpoint adjust_up (fuel : nat) (k n d : Z) : Z :=
  match fuel with
  | O => k
  | S f => if pow10_le (k + 1) n d then adjust_up f (k + 1) n d else k
  end.
Fixpoint adjust_down (fuel : nat) (k n d : Z) : Z :=
  match fuel with
  | O => k
  | S f => if pow10_le k n d then k else adjust_down f (k - 1) n d
  end.
Definition log10_floor (n d : Z) : Z :=
  let k0 := ((Z.log2 n - Z.log2 d) * 30103) / 100000 in
  adjust_up 4 (adjust_down 4 k0 n d) n d.

(** the rational  l * 10^j *)
Definition dec_value (l j : Z) : Q :=
  if 0 <=? j then inject_Z (l * 10 ^ j) else Qmake l (Z.to_pos (10 ^ (- j))).

(** ** printing a digit string with a decimal exponent (strconv's %f layout, fmtF) *)

(** the k low decimal digits of z, most significant first, in front of acc *)
Fixpoint pd (k : nat) (z : Z) (acc : string) : string :=
  match k with
  | O => acc
  | S k' => pd k' (z / 10) (String (digit_char (z mod 10)) acc)
  end.

(** number of decimal digits of z > 0 *)
Fixpoint ndig_aux (fuel : nat) (z : Z) : nat :=
  match fuel with
  | O => O
  | S f => if z =? 0 then O else S (ndig_aux f (z / 10))
  end.
Definition ndig (z : Z) : nat := ndig_aux (S (Z.to_nat (Z.log2 z))) z.

(** text of  l * 10^j,  l > 0: the digits of l followed by j zeros, or with the point
    -j digits from the right ("0." and leading zeros when l has no more than -j digits) *)
Definition fmt_digits (l j : Z) : string :=
  if 0 <=? j then pd (ndig l) l (pd (Z.to_nat j) 0 "")
  else
    let f := Z.to_nat (- j) in
    let ip := l / 10 ^ Z.of_nat f in
    let tail := String "." (pd f l "") in
    if ip =? 0 then String "0" tail else pd (ndig ip) ip tail.

(** what ParseFloat makes of that text (see [classify]/[scaled_value]) *)
Definition dec_round (l j : Z) : option Q :=
  if 0 <=? j then round64_pos (l * 10 ^ j) 1 else round64_pos l (10 ^ (- j)).

Definition reads (l j n d : Z) : bool :=
  match dec_round l j with
  | Some r => Qeq_bool r (Qmake n (Z.to_pos d))
  | None => false
  end.

(** digit strings do not end in 0: 50 * 10^-2 is 5 * 10^-1 *)
Fixpoint strip10 (fuel : nat) (l j : Z) : Z * Z :=
  match fuel with
  | O => (l, j)
  | S f => if (0 <? l) && (l mod 10 =? 0) then strip10 f (l / 10) (j + 1) else (l, j)
  end.

(** shortest candidate (digits, exponent) with p..17 digits for n/d > 0,
    k = floor(log10(n/d)) *)
Fixpoint shortest_from (fuel : nat) (p : Z) (k n d : Z) : option (Z * Z) :=
  match fuel with
  | O => None
  | S f =>
    let j := k - p + 1 in                       (* weight of the last digit *)
    (* l = floor((n/d) / 10^j) *)
    let l := if 0 <=? j then n / (d * 10 ^ j) else (n * 10 ^ (- j)) / d in
    let '(l1, j1) := strip10 20 l j in
    let '(l2, j2) := strip10 20 (l + 1) j in
    let in_lo := (0 <? l1) && reads l1 j1 n d in
    let in_hi := (0 <? l2) && reads l2 j2 n d in
    if in_lo && in_hi then
      (* both read back: the nearer one *)
      let x := Qmake n (Z.to_pos d) in
      let dlo := Qminus x (dec_value l j) in
      let dhi := Qminus (dec_value (l + 1) j) x in
      match Qcompare dlo dhi with
      | Lt => Some (l1, j1)
      | Gt => Some (l2, j2)
      | Eq => if Z.even l then Some (l1, j1) else Some (l2, j2)
      end
    else if in_lo then Some (l1, j1)
    else if in_hi then Some (l2, j2)
    else shortest_from f (p + 1) k n d
  end.

(** when no candidate reads back (never for a binary64 value, as far as the tests go): the
    exact expansion of a dyadic n/2^t, else 20 decimals *)
Definition exact_pair (n d : Z) : Z * Z :=
  let t := Z.log2 d in
  if d =? 2 ^ t then (n * 5 ^ t, - t) else ((n * 10 ^ 20) / d, -20).

Definition fmt_go (q : Q) : string :=
  let q' := Qred q in
  let n := Qnum q' in
  let d := Zpos (Qden q') in
  if n =? 0 then "0"
  else
    let a := Z.abs n in
    let '(l, j) := match shortest_from 17 1 (log10_floor a d) a d with
                   | Some p => p
                   | None => exact_pair a d
                   end in
    let sign : string := if n <? 0 then "-" else "" in
    (sign ++ fmt_digits l j)%string.

(** x is a number of this model of strconv: its text is a clean token (non-empty, no
    metacharacter, blank or '/') that reads back as x *)
Definition numokC (x : Q) : bool :=
  let s := fmt_go x in
  negb (String.eqb s "") && forall_chars num_char s && numericC s &&
  match parse_numC s with Some y => Qeq_bool y x | None => false end.

(** the writer and the reader with this model of strconv (what C01, C02, C13 run) *)
Definition write_go : utree -> string := write fmt_go.
Definition parse_go : string -> pres := parse numericC parse_numC.
