(** Bitsets of the branches (Edge.bitset), as a layer on top of ANY store that designates
    branches by ids: [bits] maps a branch id to its bitset ([None] = nil).  tree.go
    clearBitSetsRecur / ClearBitSets and UpdateBitSet / fillRightBitSet write the bitsets of
    the branches of the tree they are called on and nothing else; the functions below take
    that list of branches, so the frame statements do not depend on the store (Model/Heap.v
    and Model/HeapClone.v can both be paired with [bits]).  The end of the file instantiates
    the layer on the store of Model/Heap.v, for a tree given by its root. *)
From Coq Require Import String ZArith QArith Bool Arith Lia List.
From GT Require Import Base.UTree Model.Reroot Model.Heap Model.HeapSpec.
Import ListNotations.
Local Close Scope Q_scope.

Definition bitset := list bool.
Definition bits := nat -> option bitset.
Definition bset (b : bits) (e : nat) (v : bitset) : bits := fun x => if Nat.eqb x e then Some v else b x.

(** clearBitSetsRecur(nil, nil, length) over the branches [es] of the tree: a nil bitset is
    allocated with [len] bits, another one is cleared (ClearAll keeps its length) *)
Definition clear_one (len : nat) (b : bits) (e : nat) : bits :=
  bset b e (match b e with Some v => map (fun _ => false) v | None => repeat false len end).
Definition clear_bits (len : nat) (es : list nat) (b : bits) : bits := fold_left (clear_one len) es b.

Fixpoint set_bit (i : nat) (v : bitset) : bitset :=
  match v, i with
  | [], _ => []
  | _ :: r, O => true :: r
  | x :: r, S j => x :: set_bit j r
  end.

(** UpdateBitSet: [rows] = for every branch of the tree, in Edges() order, the indexes of the
    tips below it; every bitset is cleared and gets these bits; a nil bitset is the error
    "BitSets has not been initialized" ([None]) *)
Definition update_one (ob : option bits) (row : nat * list nat) : option bits :=
  match ob with
  | None => None
  | Some b =>
    match b (fst row) with
    | None => None
    | Some v => Some (bset b (fst row) (fold_right set_bit (map (fun _ => false) v) (snd row)))
    end
  end.
Definition update_bits (rows : list (nat * list nat)) (b : bits) : option bits := fold_left update_one rows (Some b).

(** * on the store of Model/Heap.v: the tree hanging from the node [r] *)
Definition dump_at (h : heap) (r : nat) : option ltree := dump (set_root h r).

Definition bheap : Type := heap * bits.

(** Tree.ClearBitSets() of the tree rooted at [r], [len] = len(t.tipIndex) *)
Definition clear_bitsets_at (r len : nat) (bh : bheap) : hres bheap :=
  match dump_at (fst bh) r with
  | Some lt => if Nat.eqb len 0 then HErr "No tips in the index, tip name index is not initialized"%string
               else HOk (fst bh, clear_bits len (leids lt) (snd bh))
  | None => HPanic
  end.

(** names of the tips below a node (Tips() order) *)
Fixpoint ltip_names (t : ltree) : list string :=
  match t with
  | LNode _ n _ sl =>
    (if Nat.eqb (length sl) 1 then [n] else []) ++
    flat_map (fun s : lslot => match s with Some (_, _, c) => ltip_names c | None => [] end) sl
  end.

Fixpoint index_in (nm : string) (idx : list string) : option nat :=
  match idx with
  | [] => None
  | x :: r => if String.eqb x nm then Some 0 else option_map S (index_in nm r)
  end.

Definition row_of (idx : list string) (p : nat * einfo * ltree) : option (nat * list nat) :=
  let names := ltip_names (snd p) in
  let is := map (fun nm => index_in nm idx) names in
  if forallb (fun o : option nat => match o with Some _ => true | None => false end) is
  then Some (fst (fst p), flat_map (fun o : option nat => match o with Some i => [i] | None => [] end) is)
  else None.

(** Tree.UpdateBitSet() of the tree rooted at [r], [idx] = the tip index (position = index) *)
Definition update_bitsets_at (r : nat) (idx : list string) (bh : bheap) : hres bheap :=
  match dump_at (fst bh) r with
  | Some lt =>
    let rows := map (row_of idx) (ledges lt) in
    if forallb (fun o : option (nat * list nat) => match o with Some _ => true | None => false end) rows
    then match update_bits (flat_map (fun o : option (nat * list nat) => match o with Some x => [x] | None => [] end) rows) (snd bh) with
         | Some b' => HOk (fst bh, b')
         | None => HErr "BitSets has not been initialized with tree.clearBitSetsRecur(nil, nil, uint(len(tree.tipIndex)))"%string
         end
    else HErr "The tip is not in the tip index"%string
  | None => HPanic
  end.
