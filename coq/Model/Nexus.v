(** Model of the Nexus reader and writers.
      io/nexus/nexus_token.go   [isWhitespace/isIdent/isEndOfLine]
      io/nexus/nexus_lexer.go   [Scanner.Scan/scanWhitespace/scanIdent]
      io/nexus/nexus_parser.go  [Parse, parseTaxa, parseTrees, parseTranslationTable, parseData,
                                 parseUnsupportedCommand/Key/Block, consumeComment]
                                (state of /repo after the fixes fcf4ced, 4b7059e and fd2e4c0)
      io/nexus/nexus.go         [WriteNexus, FirstTree, IterateTrees]
      tree/tree.go              [Tree.Nexus, Tree.Rename (+ NewNodeIndex, UpdateTipIndex)]
      io/utils/readtrees.go     [ReadTreeReader / ReadMultiTrees, case FORMAT_NEXUS]
    No proofs in this file.

    Strings are byte strings.  The Go scanner reads runes ([bufio.ReadRune]) and writes them
    back unchanged; every Nexus metacharacter is ASCII and every byte >= 0x80 belongs to an
    identifier rune, so the byte-level model is exact on valid UTF-8 (invalid bytes are
    turned into U+FFFD by ReadRune, which only changes literals).  Rune 0 is the scanner's
    [eof] value: a NUL byte in the input yields an EOF token too, and is swallowed by
    scanWhitespace / scanIdent; this is modelled.  At the end of the input [read] returns
    [eof] forever: [scan ""] = (EOF, "", "").  [Parser.unscan] is never called, so the
    parser's state is the remaining input.

    Error messages are prefixes of the messages of the Go code (its %q arguments are left
    out), so that the judge can compare which check failed.

    Every loop of the parser is a [Fixpoint] on explicit fuel; results are
    [Ret values err rest] (the Go function returned; [err] is its error result),
    [Panic] (an index out of range) and [OutOfFuel].  The single-tree Newick parser
    ([newick.Parser.Parse]) and writer ([Tree.Newick]) are parameters. *)
From Coq Require Import String Ascii ZArith Bool Arith List.
From GT Require Import Base.Sexp Base.UTree Spec.Obs.
Import ListNotations.
Local Open Scope string_scope.

(** * Tokens (nexus_token.go) *)
Inductive tok : Type :=
| ILLEGAL | EOF | WS | IDENT | NUMERIC | OPENBRACK | CLOSEBRACK | ENDOFCOMMAND | ENDOFLINE | COMMA
| NEXUS | EQUAL | BEGIN | DATA | TAXA | TAXLABELS | TREES | TREE | TRANSLATE
| DIMENSIONS | NTAX | NCHAR | FORMAT | DATATYPE | MISSING | GAP | MATRIX | END.

Definition tok_id (t : tok) : nat :=
  match t with
  | ILLEGAL => 0 | EOF => 1 | WS => 2 | IDENT => 3 | NUMERIC => 4 | OPENBRACK => 5
  | CLOSEBRACK => 6 | ENDOFCOMMAND => 7 | ENDOFLINE => 8 | COMMA => 9 | NEXUS => 10
  | EQUAL => 11 | BEGIN => 12 | DATA => 13 | TAXA => 14 | TAXLABELS => 15 | TREES => 16
  | TREE => 17 | TRANSLATE => 18 | DIMENSIONS => 19 | NTAX => 20 | NCHAR => 21
  | FORMAT => 22 | DATATYPE => 23 | MISSING => 24 | GAP => 25 | MATRIX => 26 | END => 27
  end.
Definition tok_eqb (a b : tok) : bool := Nat.eqb (tok_id a) (tok_id b).

Definition is_nul (c : ascii) : bool := Ascii.eqb c "000".
Definition is_ws (c : ascii) : bool := Ascii.eqb c " " || Ascii.eqb c "009".
Definition is_nl (c : ascii) : bool := Ascii.eqb c "010".
Definition is_cr (c : ascii) : bool := Ascii.eqb c "013".
Definition is_ident (c : ascii) : bool :=
  negb (Ascii.eqb c "[" || Ascii.eqb c "]" || Ascii.eqb c ";" || Ascii.eqb c "=" ||
        is_cr c || is_nl c || Ascii.eqb c "," || is_ws c).

(** the loops of scanWhitespace / scanIdent after the first rune: a NUL is read and the
    loop breaks without unread (so it is swallowed); a rune outside the class is unread *)
Fixpoint span0 (p : ascii -> bool) (s : string) : string * string :=
  match s with
  | EmptyString => (EmptyString, EmptyString)
  | String c r =>
    if is_nul c then (EmptyString, r)
    else if p c then let '(a, b) := span0 p r in (String c a, b)
    else (EmptyString, s)
  end.

(** * strconv.ParseInt(s, 10, 64): optional sign, at least one digit, digits only, value in
    [-2^63, 2^63-1] *)
Definition digit_val (c : ascii) : option Z :=
  let n := Z.of_nat (nat_of_ascii c) in
  if (48 <=? n)%Z && (n <=? 57)%Z then Some (n - 48)%Z else None.
Fixpoint digits_val (s : string) (acc : Z) : option Z :=
  match s with
  | EmptyString => Some acc
  | String c r => match digit_val c with Some d => digits_val r (acc * 10 + d)%Z | None => None end
  end.
Definition two63 : Z := 9223372036854775808%Z.
Definition parse_int (s : string) : option Z :=
  let '(neg, body) :=
      match s with
      | String "+" r => (false, r)
      | String "-" r => (true, r)
      | _ => (false, s)
      end in
  match body with
  | EmptyString => None
  | _ => match digits_val body 0%Z with
         | None => None
         | Some u => if neg then (if (u <=? two63)%Z then Some (- u)%Z else None)
                     else (if (u <? two63)%Z then Some u else None)
         end
  end.

(** * strings.ToUpper / ToLower as far as the comparisons with ASCII keywords can see: ASCII
    letters, and the three non-ASCII runes whose image is an ASCII letter: U+0131 -> "I",
    U+017F -> "S" (ToUpper), U+0130 -> "i" (ToLower); other runes >= 0x80 are kept (their
    image is not ASCII either). *)
Definition byte_is (c : ascii) (n : nat) : bool := Nat.eqb (nat_of_ascii c) n.
Definition up1 (c : ascii) : ascii :=
  let n := nat_of_ascii c in
  if Nat.leb 97 n && Nat.leb n 122 then ascii_of_nat (n - 32) else c.
Definition low1 (c : ascii) : ascii :=
  let n := nat_of_ascii c in
  if Nat.leb 65 n && Nat.leb n 90 then ascii_of_nat (n + 32) else c.
Fixpoint upper (s : string) : string :=
  match s with
  | EmptyString => EmptyString
  | String a r =>
    match r with
    | String b r2 =>
      if byte_is a 196 && byte_is b 177 then String "I" (upper r2)
      else if byte_is a 197 && byte_is b 191 then String "S" (upper r2)
      else String (up1 a) (upper r)
    | EmptyString => String (up1 a) EmptyString
    end
  end.
Fixpoint lower (s : string) : string :=
  match s with
  | EmptyString => EmptyString
  | String a r =>
    match r with
    | String b r2 =>
      if byte_is a 196 && byte_is b 176 then String "i" (lower r2)
      else String (low1 a) (lower r)
    | EmptyString => String (low1 a) EmptyString
    end
  end.

(** scanIdent's classification of the literal *)
Definition keyword (lit : string) : tok :=
  let u := upper lit in
  if String.eqb u "#NEXUS" then NEXUS
  else if String.eqb u "BEGIN" then BEGIN
  else if String.eqb u "DATA" || String.eqb u "CHARACTERS" then DATA
  else if String.eqb u "TAXA" then TAXA
  else if String.eqb u "TAXLABELS" then TAXLABELS
  else if String.eqb u "TREES" then TREES
  else if String.eqb u "TREE" then TREE
  else if String.eqb u "TRANSLATE" then TRANSLATE
  else if String.eqb u "DIMENSIONS" then DIMENSIONS
  else if String.eqb u "NTAX" then NTAX
  else if String.eqb u "NCHAR" then NCHAR
  else if String.eqb u "FORMAT" then FORMAT
  else if String.eqb u "DATATYPE" then DATATYPE
  else if String.eqb u "MISSING" then MISSING
  else if String.eqb u "GAP" then GAP
  else if String.eqb u "MATRIX" then MATRIX
  else if String.eqb u "END" || String.eqb u "ENDBLOCK" then END   (* ENDBLOCK: after the fix d0ed28a *)
  else IDENT.
Definition classify (lit : string) : tok :=
  match parse_int lit with Some _ => NUMERIC | None => keyword lit end.

(** scanIdent: the first rune is written to the buffer whatever it is (at the end of the
    input [read] gives rune 0, which is written too), then the ident runes that follow *)
Definition scan_ident (s : string) : tok * string * string :=
  let '(c0, r0) := match s with
                   | EmptyString => ("000"%char, EmptyString)
                   | String c r => (c, r)
                   end in
  let '(w, r') := span0 is_ident r0 in
  let lit := String c0 w in
  (classify lit, lit, r').

(** Scanner.Scan: (token, literal, remaining input) *)
Definition scan (s : string) : tok * string * string :=
  match s with
  | EmptyString => (EOF, "", "")
  | String c r =>
    if is_ws c then let '(w, r') := span0 is_ws r in (WS, String c w, r')
    else if is_nl c then (ENDOFLINE, "", r)
    else if is_cr c then
      match r with
      | String c2 r2 =>
        if is_nl c2 then (ENDOFLINE, "", r2)
        else scan_ident r         (* "\r without \n": c2 is unread, scanIdent starts at it *)
      | EmptyString => scan_ident EmptyString   (* the unread fails; scanIdent reads eof *)
      end
    else if is_nul c then (EOF, "", r)
    else if Ascii.eqb c "[" then (OPENBRACK, "[", r)
    else if Ascii.eqb c "]" then (CLOSEBRACK, "]", r)
    else if Ascii.eqb c ";" then (ENDOFCOMMAND, ";", r)
    else if Ascii.eqb c "=" then (EQUAL, "=", r)
    else if Ascii.eqb c "," then (COMMA, ",", r)
    else scan_ident s
  end.

(** Parser.scanIgnoreWhitespace: one WS token is skipped *)
Definition scan_iw (s : string) : tok * string * string :=
  let '(t, l, r) := scan s in
  if tok_eqb t WS then scan r else (t, l, r).

(** * Results *)
Inductive run (A : Type) : Type :=
| Ret (a : A) (err : option string) (rest : string)
| Panic
| OutOfFuel.
Arguments Ret {A}. Arguments Panic {A}. Arguments OutOfFuel {A}.

Definition is_err (e : option string) : bool := match e with Some _ => true | None => false end.

(** Parser.scanIgnoreWhitespaceAndEOL *)
Fixpoint scan_iw_eol (fuel : nat) (s : string) : run (tok * string) :=
  match fuel with
  | O => OutOfFuel
  | S f =>
    let '(t, l, r) := scan s in
    if tok_eqb t WS || tok_eqb t ENDOFLINE then scan_iw_eol f r else Ret (t, l) None r
  end.

(** consumeComment after the "[" (curtoken == OPENBRACK): scans up to the matching "]";
    returns with an error at an EOF / ILLEGAL token (fix fcf4ced; before it the loop went on,
    and never ended at the end of the input).  The value is the last token. *)
Fixpoint consume_comment (fuel : nat) (s : string) : run tok :=
  match fuel with
  | O => OutOfFuel
  | S f =>
    let '(t, _, r) := scan_iw s in
    if tok_eqb t EOF || tok_eqb t ILLEGAL then Ret t (Some "Unmatched bracket") r
    else if tok_eqb t CLOSEBRACK then Ret t None r
    else consume_comment f r
  end.

(** parseUnsupportedKey *)
Definition unsupported_key (s : string) : option string * string :=
  let '(t, _, r) := scan_iw s in
  if negb (tok_eqb t EQUAL) then (Some "Expecting '=' after", r)
  else let '(t2, _, r2) := scan_iw r in
       if negb (tok_eqb t2 IDENT) && negb (tok_eqb t2 NUMERIC)
       then (Some "Expecting an identifier after", r2) else (None, r2).

(** parseUnsupportedCommand *)
Fixpoint unsupported_command (fuel : nat) (s : string) : run unit :=
  match fuel with
  | O => OutOfFuel
  | S f =>
    let '(t, _, r) := scan_iw s in
    if tok_eqb t ILLEGAL then Ret tt (Some "found illegal token") r
    else if tok_eqb t EOF then Ret tt (Some "End of file within a command (no;)") r
    else if tok_eqb t ENDOFCOMMAND then Ret tt None r
    else unsupported_command f r
  end.

(** parseUnsupportedBlock *)
Fixpoint unsupported_block (fuel : nat) (s : string) : run unit :=
  match fuel with
  | O => OutOfFuel
  | S f =>
    let '(t, _, r) := scan_iw s in
    if tok_eqb t ILLEGAL then Ret tt (Some "found illegal token") r
    else if tok_eqb t EOF then Ret tt (Some "End of file within a block (no END;)") r
    else if tok_eqb t END then
      let '(t2, _, r2) := scan_iw r in
      Ret tt (if negb (tok_eqb t2 ENDOFCOMMAND) then Some "End token without ;" else None) r2
    else unsupported_block f r
  end.

(** * Maps: insertion-ordered association lists ([m[k] = v]) and sets *)
Fixpoint set_add (k : string) (l : list string) : list string :=
  match l with
  | [] => [k]
  | x :: r => if String.eqb x k then l else x :: set_add k r
  end.
Definition mem (k : string) (l : list string) : bool := existsb (String.eqb k) l.
Fixpoint assoc_set (k v : string) (l : list (string * string)) : list (string * string) :=
  match l with
  | [] => [(k, v)]
  | (x, y) :: r => if String.eqb x k then (k, v) :: r else (x, y) :: assoc_set k v r
  end.
Fixpoint assoc_get (k : string) (l : list (string * string)) : option string :=
  match l with
  | [] => None
  | (x, y) :: r => if String.eqb x k then Some y else assoc_get k r
  end.

(** * DIMENSIONS of the TAXA block (the loop "for !stopdimensions").  [stop] is the outer
    flag (stoptaxa), set whenever err != nil at the end of an iteration.
    NTAX: the two "expecting" errors set err and stopdimensions, then
    [ntax, err = strconv.ParseInt(lit4, 10, 64)] overwrites err. *)
Fixpoint taxa_dims (fuel : nat) (ntax : Z) (err : option string) (stop : bool) (s : string)
  : run (Z * bool) :=
  match fuel with
  | O => OutOfFuel
  | S f =>
    let '(t2, _, r) := scan_iw s in
    if tok_eqb t2 ENDOFCOMMAND then Ret (ntax, stop || is_err err) err r
    else if tok_eqb t2 NTAX then
      let '(t3, _, r3) := scan_iw r in
      let stop1 := negb (tok_eqb t3 EQUAL) in
      let '(t4, l4, r4) := scan_iw r3 in
      let stop2 := stop1 || negb (tok_eqb t4 NUMERIC) in
      match parse_int l4 with
      | Some z => if stop2 then Ret (z, stop) None r4 else taxa_dims f z None stop r4
      | None => Ret (0%Z, true) (Some "strconv.ParseInt: parsing") r4
      end
    else
      let '(e, r') := unsupported_key r in
      if is_err e then Ret (ntax, true) e r' else taxa_dims f ntax None stop r'
  end.

(** TAXLABELS: "for !stoplabels" *)
Fixpoint taxa_labels (fuel : nat) (labels : list string) (err : option string) (s : string)
  : run (list string) :=
  match fuel with
  | O => OutOfFuel
  | S f =>
    let '(t2, l2, r) := scan_iw s in
    if tok_eqb t2 ENDOFLINE then taxa_labels f labels err r
    else if tok_eqb t2 ENDOFCOMMAND then Ret labels err r
    else if tok_eqb t2 IDENT || tok_eqb t2 NUMERIC then taxa_labels f (set_add l2 labels) err r
    else Ret labels (Some "Unknown token ") r
  end.

(** parseTaxa: "for !stoptaxa" *)
Fixpoint parse_taxa (fuel : nat) (ntax : Z) (labels : list string) (err : option string) (s : string)
  : run (Z * list string) :=
  match fuel with
  | O => OutOfFuel
  | S f =>
    let '(t, _, r) := scan_iw s in
    if tok_eqb t ENDOFLINE then parse_taxa f ntax labels err r
    else if tok_eqb t ILLEGAL then Ret (ntax, labels) (Some "found illegal token") r
    else if tok_eqb t EOF then Ret (ntax, labels) (Some "End of file within a TAXA block (no END;)") r
    else if tok_eqb t END then
      let '(t2, _, r2) := scan_iw r in
      Ret (ntax, labels) (if negb (tok_eqb t2 ENDOFCOMMAND) then Some "End token without ;" else err) r2
    else if tok_eqb t DIMENSIONS then
      match taxa_dims f ntax err false r with
      | Ret (ntax', stop) err' r' =>
        if stop then Ret (ntax', labels) err' r' else parse_taxa f ntax' labels err' r'
      | Panic => Panic
      | OutOfFuel => OutOfFuel
      end
    else if tok_eqb t TAXLABELS then
      match taxa_labels f labels err r with
      | Ret labels' err' r' =>
        if is_err err' then Ret (ntax, labels') err' r' else parse_taxa f ntax labels' err' r'
      | Panic => Panic
      | OutOfFuel => OutOfFuel
      end
    else if tok_eqb t OPENBRACK then
      match consume_comment f r with
      | Ret _ err' r' =>
        if is_err err' then Ret (ntax, labels) err' r' else parse_taxa f ntax labels err' r'
      | Panic => Panic
      | OutOfFuel => OutOfFuel
      end
    else
      match unsupported_command f r with
      | Ret _ err' r' =>
        if is_err err' then Ret (ntax, labels) err' r' else parse_taxa f ntax labels err' r'
      | Panic => Panic
      | OutOfFuel => OutOfFuel
      end
  end.

(** * parseTranslationTable: "for !stop" *)
Fixpoint parse_translate (fuel : nat) (tbl : list (string * string)) (s : string)
  : run (list (string * string)) :=
  match fuel with
  | O => OutOfFuel
  | S f =>
    let '(t, key, r) := scan_iw s in
    if tok_eqb t IDENT || tok_eqb t NUMERIC then
      let '(t2, value, r2) := scan_iw r in
      if negb (tok_eqb t2 IDENT) && negb (tok_eqb t2 NUMERIC)
      then Ret tbl (Some "TRANSLATE block: Expecting value name here") r2
      else
        let '(t3, e, r3) := scan_iw r2 in
        if negb (tok_eqb t3 COMMA) && negb (tok_eqb t3 ENDOFCOMMAND) && negb (tok_eqb t3 ENDOFLINE)
        then Ret tbl (Some "TRANSLATE block: Expecting , or ; after key value") r3
        else
          let tbl' := assoc_set key value tbl in
          if String.eqb e ";" then Ret tbl' None r3 else parse_translate f tbl' r3
    else if tok_eqb t ENDOFLINE || tok_eqb t COMMA then parse_translate f tbl r
    else if tok_eqb t ILLEGAL then Ret tbl (Some "found illegal token") r
    else if tok_eqb t EOF then Ret tbl (Some "End of file within a TRANSLATE block (no END;)") r
    else if tok_eqb t ENDOFCOMMAND then Ret tbl None r
    else if tok_eqb t OPENBRACK then
      match consume_comment f r with
      | Ret _ err' r' => if is_err err' then Ret tbl err' r' else parse_translate f tbl r'
      | Panic => Panic
      | OutOfFuel => OutOfFuel
      end
    else Ret tbl (Some "Unsupported token ") r
  end.

(** the tokens accepted inside "TREE name = ...;" *)
Definition tree_tok (t : tok) : bool :=
  tok_eqb t IDENT || tok_eqb t OPENBRACK || tok_eqb t CLOSEBRACK || tok_eqb t COMMA ||
  tok_eqb t EQUAL || tok_eqb t NUMERIC.

(** "for tok4 != ENDOFCOMMAND { if not a tree token: break; tree += lit4; scan }":
    [inl tree] when the ";" was reached ([tree] = the literals concatenated in order),
    [inr tt] when another token stopped the loop *)
Fixpoint tree_tokens (fuel : nat) (t : tok) (l : string) (s : string) : run (string + unit) :=
  match fuel with
  | O => OutOfFuel
  | S f =>
    if tok_eqb t ENDOFCOMMAND then Ret (inl "") None s
    else if negb (tree_tok t) then Ret (inr tt) None s
    else let '(t', l', r) := scan_iw s in
         match tree_tokens f t' l' r with
         | Ret (inl tr) e r' => Ret (inl (l ++ tr)) e r'
         | x => x
         end
  end.

(** state of parseTrees: tree names and strings (in order), the parser's translation table
    ([None] = nil map) *)
Record trees_st : Type := mkTS { tnames : list string; tstrings : list string;
                                 ttable : option (list (string * string)) }.

(** parseTrees: "for !stoptrees" *)
Fixpoint parse_trees (fuel : nat) (st : trees_st) (err : option string) (s : string) : run trees_st :=
  match fuel with
  | O => OutOfFuel
  | S f =>
    let '(t, _, r) := scan_iw s in
    if tok_eqb t ENDOFLINE then parse_trees f st err r
    else if tok_eqb t ILLEGAL then Ret st (Some "found illegal token") r
    else if tok_eqb t EOF then Ret st (Some "End of file within a TREES block (no END;)") r
    else if tok_eqb t END then
      let '(t2, _, r2) := scan_iw r in
      Ret st (if negb (tok_eqb t2 ENDOFCOMMAND) then Some "End token without ;" else err) r2
    else if tok_eqb t TRANSLATE then
      match parse_translate f [] r with
      | Ret tbl err' r' =>
        let st' := mkTS (tnames st) (tstrings st) (Some tbl) in
        if is_err err' then Ret st' err' r' else parse_trees f st' err' r'
      | Panic => Panic
      | OutOfFuel => OutOfFuel
      end
    else if tok_eqb t TREE then
      let '(t2, l2, r2) := scan_iw r in
      if negb (tok_eqb t2 IDENT) && negb (tok_eqb t2 NUMERIC)
      then Ret st (Some "Expecting a tree name after TREE") r2
      else
        let '(t3, _, r3) := scan_iw r2 in
        if negb (tok_eqb t3 EQUAL) then Ret st (Some "Expecting '=' after tree name") r3
        else
          let '(t4, l4, r4) := scan_iw r3 in
          let start : run (tok * string) :=
              if tok_eqb t4 OPENBRACK then
                match consume_comment f r4 with
                | Ret _ (Some e) r5 => Ret (t4, l4) (Some e) r5
                | Ret _ None r5 => scan_iw_eol f r5
                | Panic => Panic
                | OutOfFuel => OutOfFuel
                end
              else Ret (t4, l4) None r4 in
          match start with
          | Ret _ (Some e) r5 => Ret st (Some e) r5
          | Ret (t5, l5) None r5 =>
            match tree_tokens f t5 l5 r5 with
            | Ret (inl tr) _ r6 =>
              parse_trees f (mkTS (tnames st ++ [l2]) (tstrings st ++ [tr]) (ttable st)) err r6
            | Ret (inr _) _ r6 => Ret st (Some "Expecting ';' after 'TREE name = tree'") r6
            | Panic => Panic
            | OutOfFuel => OutOfFuel
            end
          | Panic => Panic
          | OutOfFuel => OutOfFuel
          end
    else if tok_eqb t OPENBRACK then
      match consume_comment f r with
      | Ret _ err' r' => if is_err err' then Ret st err' r' else parse_trees f st err' r'
      | Panic => Panic
      | OutOfFuel => OutOfFuel
      end
    else
      match unsupported_command f r with
      | Ret _ err' r' => if is_err err' then Ret st err' r' else parse_trees f st err' r'
      | Panic => Panic
      | OutOfFuel => OutOfFuel
      end
  end.

(** * parseData *)
Record data_st : Type := mkDS {
  dnames : list string;                    (* names, in order of first occurrence *)
  dseqs : list (string * string);          (* sequences[name] *)
  dnchar : Z; dntax : Z;
  dtype : string;
  dmissing : ascii; dgap : ascii           (* first byte of the rune: only compared with '*' / '-' *)
}.
Definition data0 : data_st := mkDS [] [] (-1)%Z (-1)%Z "dna" "*"%char "-"%char.

(** addseq *)
Definition addseq (st : data_st) (name sequence : string) : data_st :=
  match assoc_get name (dseqs st) with
  | None => mkDS (dnames st ++ [name]) (assoc_set name sequence (dseqs st))
                 (dnchar st) (dntax st) (dtype st) (dmissing st) (dgap st)
  | Some old => mkDS (dnames st) (assoc_set name (old ++ sequence) (dseqs st))
                     (dnchar st) (dntax st) (dtype st) (dmissing st) (dgap st)
  end.

(** DIMENSIONS of the DATA block: NTAX and NCHAR ([which] = true: NCHAR) *)
Fixpoint data_dims (fuel : nat) (nchar ntax : Z) (err : option string) (stop : bool) (s : string)
  : run (Z * Z * bool) :=
  match fuel with
  | O => OutOfFuel
  | S f =>
    let '(t2, _, r) := scan_iw s in
    if tok_eqb t2 ENDOFCOMMAND then Ret (nchar, ntax, stop || is_err err) err r
    else if tok_eqb t2 NTAX || tok_eqb t2 NCHAR then
      let '(t3, _, r3) := scan_iw r in
      let stop1 := negb (tok_eqb t3 EQUAL) in
      let '(t4, l4, r4) := scan_iw r3 in
      let stop2 := stop1 || negb (tok_eqb t4 NUMERIC) in
      match parse_int l4 with
      | Some z =>
        let nchar' := if tok_eqb t2 NCHAR then z else nchar in
        let ntax' := if tok_eqb t2 NTAX then z else ntax in
        if stop2 then Ret (nchar', ntax', stop) None r4 else data_dims f nchar' ntax' None stop r4
      | None => Ret (nchar, ntax, true) (Some "strconv.ParseInt: parsing") r4
      end
    else
      let '(e, r') := unsupported_key r in
      if is_err e then Ret (nchar, ntax, true) e r' else data_dims f nchar ntax None stop r'
  end.

(** FORMAT: "for !stopformat".  MISSING / GAP: after the fix 4b7059e the character is only
    taken when len(lit4) == 1 (before it, []rune(lit4)[0] was evaluated unconditionally and
    panicked on the empty literal of an EOF / end-of-line token). *)
Fixpoint data_format (fuel : nat) (dt : string) (mis gp : ascii) (err : option string) (stop : bool) (s : string)
  : run (string * ascii * ascii * bool) :=
  match fuel with
  | O => OutOfFuel
  | S f =>
    let '(t2, _, r) := scan_iw s in
    if tok_eqb t2 ENDOFCOMMAND then Ret (dt, mis, gp, stop || is_err err) err r
    else if tok_eqb t2 DATATYPE then
      let '(t3, _, r3) := scan_iw r in
      let e1 := if negb (tok_eqb t3 EQUAL) then Some "Expecting '=' after DATATYPE" else err in
      let '(t4, l4, r4) := scan_iw r3 in
      if tok_eqb t4 IDENT then
        if negb (tok_eqb t3 EQUAL) then Ret (l4, mis, gp, true) e1 r4
        else data_format f l4 mis gp e1 (stop || is_err e1) r4
      else Ret (dt, mis, gp, true) (Some "Expecting identifier after 'DATATYPE='") r4
    else if tok_eqb t2 MISSING || tok_eqb t2 GAP then
      let '(t3, _, r3) := scan_iw r in
      let e1 := if negb (tok_eqb t3 EQUAL)
                then Some (if tok_eqb t2 MISSING then "Expecting '=' after MISSING" else "Expecting '=' after GAP")
                else err in
      let '(t4, l4, r4) := scan_iw r3 in
      let e2 := if negb (tok_eqb t4 IDENT)
                then Some (if tok_eqb t2 MISSING then "Expecting Integer value after 'MISSING='"
                           else "Expecting an identifier after 'GAP='")
                else e1 in
      let sf := negb (tok_eqb t3 EQUAL) || negb (tok_eqb t4 IDENT) in
      match l4 with
      | String c EmptyString =>
        let mis' := if tok_eqb t2 MISSING then c else mis in
        let gp' := if tok_eqb t2 GAP then c else gp in
        if sf then Ret (dt, mis', gp', true) e2 r4
        else data_format f dt mis' gp' e2 (stop || is_err e2) r4
      | _ => Ret (dt, mis, gp, true) (Some (if tok_eqb t2 MISSING then "Expecting a single character after MISSING='"
                                           else "Expecting a single character after GAP='")) r4
      end
    else
      let '(e, r') := unsupported_key r in
      if is_err e then Ret (dt, mis, gp, true) e r' else data_format f dt mis gp None stop r'
  end.

(** one sequence line of MATRIX: "for !stopseq" *)
Fixpoint matrix_seq (fuel : nat) (acc : string) (s : string) : run string :=
  match fuel with
  | O => OutOfFuel
  | S f =>
    let '(t3, l3, r) := scan_iw s in
    if tok_eqb t3 IDENT then matrix_seq f (acc ++ l3) r
    else if tok_eqb t3 ENDOFLINE then Ret acc None r
    else Ret acc (Some "Expecting sequence after sequence identifier (") r
  end.

(** MATRIX: "for !stopmatrix" *)
Fixpoint data_matrix (fuel : nat) (st : data_st) (err : option string) (s : string) : run data_st :=
  match fuel with
  | O => OutOfFuel
  | S f =>
    let '(t2, l2, r) := scan_iw s in
    if tok_eqb t2 IDENT then
      match matrix_seq f "" r with
      | Ret sq (Some e) r' => Ret st (Some e) r'
      | Ret sq None r' =>
        if is_err err then Ret st err r' else data_matrix f (addseq st l2 sq) err r'
      | Panic => Panic
      | OutOfFuel => OutOfFuel
      end
    else if tok_eqb t2 ENDOFLINE then data_matrix f st err r
    else if tok_eqb t2 ENDOFCOMMAND then Ret st err r
    else Ret st (Some "Expecting sequence identifier in Matrix block") r
  end.

(** parseData: "for !stopdata" *)
Fixpoint parse_data (fuel : nat) (st : data_st) (err : option string) (s : string) : run data_st :=
  match fuel with
  | O => OutOfFuel
  | S f =>
    let '(t, _, r) := scan_iw s in
    if tok_eqb t ENDOFLINE then parse_data f st err r
    else if tok_eqb t ILLEGAL then Ret st (Some "found illegal token") r
    else if tok_eqb t EOF then Ret st (Some "End of file within a TAXA block (no END;)") r
    else if tok_eqb t END then
      let '(t2, _, r2) := scan_iw r in
      Ret st (if negb (tok_eqb t2 ENDOFCOMMAND) then Some "End token without ;" else err) r2
    else if tok_eqb t DIMENSIONS then
      match data_dims f (dnchar st) (dntax st) err false r with
      | Ret (nchar', ntax', stop) err' r' =>
        let st' := mkDS (dnames st) (dseqs st) nchar' ntax' (dtype st) (dmissing st) (dgap st) in
        if stop then Ret st' err' r' else parse_data f st' err' r'
      | Panic => Panic
      | OutOfFuel => OutOfFuel
      end
    else if tok_eqb t FORMAT then
      match data_format f (dtype st) (dmissing st) (dgap st) err false r with
      | Ret (dt, mis, gp, stop) err' r' =>
        let st' := mkDS (dnames st) (dseqs st) (dnchar st) (dntax st) dt mis gp in
        if stop then Ret st' err' r' else parse_data f st' err' r'
      | Panic => Panic
      | OutOfFuel => OutOfFuel
      end
    else if tok_eqb t MATRIX then
      match data_matrix f st err r with
      | Ret st' err' r' => if is_err err' then Ret st' err' r' else parse_data f st' err' r'
      | Panic => Panic
      | OutOfFuel => OutOfFuel
      end
    else if tok_eqb t OPENBRACK then
      match consume_comment f r with
      | Ret _ err' r' => if is_err err' then Ret st err' r' else parse_data f st err' r'
      | Panic => Panic
      | OutOfFuel => OutOfFuel
      end
    else
      match unsupported_command f r with
      | Ret _ err' r' => if is_err err' then Ret st err' r' else parse_data f st err' r'
      | Panic => Panic
      | OutOfFuel => OutOfFuel
      end
  end.

(** * Tree.Rename(namemap) on the model tree.
    NewNodeIndex: error when two nodes have the same non-empty name; then every node whose
    name is a key gets the value (the index is built before any renaming, so the renaming is
    simultaneous); then UpdateTipIndex: error when two tips have the same name. *)
Fixpoint has_dup (l : list string) : bool :=
  match l with
  | [] => false
  | x :: r => mem x r || has_dup r
  end.

Fixpoint rename_nodes (tbl : list (string * string)) (t : utree) : utree :=
  match t with
  | UNode n c sl =>
    UNode (if String.eqb n "" then n else match assoc_get n tbl with Some v => v | None => n end) c
          (map (fun s => match s with Some (e, ch) => Some (e, rename_nodes tbl ch) | None => None end) sl)
  end.

Definition rename_tree (tbl : list (string * string)) (t : utree) : utree + string :=
  if has_dup (filter (fun n => negb (String.eqb n "")) (map uname (nodes t)))
  then inr "NewNodeIndex error: Tree contains several node with the same name"
  else
    let t' := rename_nodes tbl t in
    if has_dup (tip_names t')
    then inr "Cannot create a tip index when several tips have the same name"
    else inl t'.

(** * Parse *)
Record nexus_st : Type := mkNS {
  ns_taxantax : Z;                                   (* 0 before any TAXA block *)
  ns_taxlabels : option (list string);               (* nil map before any TAXA block *)
  ns_trees : option (list string * list string);     (* treenames, treestrings: of all TREES blocks so far, in file order *)
  ns_table : option (list (string * string));        (* p.translationTable *)
  ns_data : option data_st;                          (* names/sequences != nil *)
  ns_missing : ascii; ns_gap : ascii;
  ns_tabs : list (option (list (string * string)))   (* treetables: per tree, p.translationTable at the end of its block *)
}.
Definition nexus0 : nexus_st := mkNS 0%Z None None None None "*"%char "-"%char [].

(** treenames, treestrings before a TREES block (nil slices before the first one) *)
Definition prev_trees (st : nexus_st) : list string * list string :=
  match ns_trees st with Some x => x | None => ([], []) end.

(** the content of a parsed file as far as trees are concerned *)
Record nexus_doc : Type := mkDoc { doc_trees : list (string * utree); doc_has_align : bool }.

Inductive pres : Type :=
| POk (d : nexus_doc)
| PErr (msg : string)
| PPanic
| POutOfFuel.

Definition alphabet_known (dt : string) : bool :=
  let l := lower dt in
  String.eqb l "dna" || String.eqb l "rna" || String.eqb l "nucleotide" || String.eqb l "protein".

Section Parse.
  (** newick.NewParser(strings.NewReader(text)).Parse() *)
  Variable nparse : string -> utree + string.

  Definition zlength {A} (l : list A) : Z := Z.of_nat (length l).
  Definition zslen (s : string) : Z := Z.of_nat (String.length s).

  (** the alignment part of Parse: [None] = no error *)
  Definition check_align (st : nexus_st) (d : data_st) : option string :=
    if negb (alphabet_known (dtype d)) then Some "Unknown datatype"
    else if negb (zlength (dnames d) =? dntax d)%Z && negb (dntax d =? -1)%Z
    then Some "Number of taxa in alignment ("
    else
      let seq_of (n : string) : string := match assoc_get n (dseqs d) with Some x => x | None => "" end in
      (* for i, name := range names: length against nchar, then AddSequence (same length as
         the first sequence) *)
      match (fix go (l : list string) (alen : option Z) : option string :=
               match l with
               | [] => None
               | n :: r =>
                 let k := zslen (seq_of n) in
                 if negb (k =? dnchar d)%Z && negb (dnchar d =? -1)%Z
                 then Some "Number of character in sequence #"
                 else match alen with
                      | Some a => if (a =? k)%Z then go r alen
                                  else Some "Sequence "
                      | None => go r (Some k)
                      end
               end) (dnames d) None with
      | Some e => Some e
      | None =>
        match ns_taxlabels st with
        | None => None
        | Some labels =>
          if negb (forallb (fun n => mem n labels) (dnames d))
          then Some "Sequence name "
          else if negb (Nat.eqb (length (dnames d)) (length labels))
          then Some "Some taxa names defined in TAXLABELS are not present in the alignment"
          else None
        end
      end.

  (** the tree part of Parse (after the fix fd2e4c0: tree i is renamed with treetables[i], the table in force at the end
      of the TREES block it was read in) *)
  Fixpoint build_trees (st : nexus_st) (names strs : list string) (tabs : list (option (list (string * string))))
    : list (string * utree) + string :=
    match names, strs, tabs with
    | n :: nr, s :: sr, tb :: tr =>
      match nparse (s ++ ";") with
      | inr e => inr e
      | inl t =>
        match (match tb with Some tbl => rename_tree tbl t | None => inl t end) with
        | inr e => inr e
        | inl t' =>
          let bad : option string :=
              match ns_taxlabels st with
              | None => None
              | Some labels =>
                if negb (forallb (fun n => mem n labels) (tip_names t'))
                then Some "Taxa name "
                else if negb (Nat.eqb (length (tips t')) (length labels))
                then Some "Some tax names defined in TAXLABELS are not present in the tree"
                else None
              end in
          match bad with
          | Some e => inr e
          | None => match build_trees st nr sr tr with
                    | inl l => inl ((n, t') :: l)
                    | inr e => inr e
                    end
          end
        end
      end
    | _, _, _ => inl []
    end.

  (** the code of Parse after its main loop *)
  Definition finish (st : nexus_st) : pres :=
    let nlabels := match ns_taxlabels st with Some l => zlength l | None => 0%Z end in
    if negb (ns_taxantax st =? -1)%Z && negb (ns_taxantax st =? nlabels)%Z
    then PErr "Number of defined taxa in TAXLABELS/DIMENSIONS ("
    else if negb (Ascii.eqb (ns_gap st) "-") || negb (Ascii.eqb (ns_missing st) "*")
    then PErr "We only accept - gaps (not "
    else
      match (match ns_data st with Some d => check_align st d | None => None end) with
      | Some e => PErr e
      | None =>
        match ns_trees st with
        | None => POk (mkDoc [] (match ns_data st with Some _ => true | None => false end))
        | Some (names, strs) =>
          match build_trees st names strs (ns_tabs st) with
          | inr e => PErr e
          | inl l => POk (mkDoc l (match ns_data st with Some _ => true | None => false end))
          end
        end
      end.

  (** the main loop of Parse: "for { ... }" *)
  Fixpoint main_loop (fuel : nat) (st : nexus_st) (s : string) : pres :=
    match fuel with
    | O => POutOfFuel
    | S f =>
      let '(t, _, r) := scan_iw s in
      if tok_eqb t ILLEGAL then PErr "found illegal token"
      else if tok_eqb t EOF then finish st
      else if tok_eqb t ENDOFLINE then main_loop f st r
      else
        let after_comment : run tok :=
            if tok_eqb t OPENBRACK then
              match consume_comment f r with
              | Ret _ (Some e) r' => Ret t (Some e) r'
              | Ret _ None r' => let '(t', _, r'') := scan_iw r' in Ret t' None r''
              | Panic => Panic
              | OutOfFuel => OutOfFuel
              end
            else Ret t None r in
        match after_comment with
        | Panic => PPanic
        | OutOfFuel => POutOfFuel
        | Ret _ (Some e) _ => PErr e
        | Ret t1 None r1 =>
          if negb (tok_eqb t1 BEGIN) then main_loop f st r1
          else
            let '(t2, _, r2) := scan_iw r1 in
            let '(t3, _, r3) := scan_iw r2 in
            if negb (tok_eqb t3 ENDOFCOMMAND) then PErr "found "
            else if tok_eqb t2 TAXA then
              match parse_taxa f (-1)%Z [] None r3 with
              | Ret (ntax, labels) err r4 =>
                match err with
                | Some e => PErr e
                | None => main_loop f (mkNS ntax (Some labels) (ns_trees st) (ns_table st) (ns_data st)
                                            (ns_missing st) (ns_gap st) (ns_tabs st)) r4
                end
              | Panic => PPanic
              | OutOfFuel => POutOfFuel
              end
            else if tok_eqb t2 TREES then
              match parse_trees f (mkTS [] [] (ns_table st)) None r3 with
              | Ret ts err r4 =>
                match err with
                | Some e => PErr e
                | None =>
                  (* the trees of this block are appended to those of the earlier TREES blocks; each of them is
                     recorded with p.translationTable as it is now (a block without TRANSLATE keeps the table of an
                     earlier block) *)
                  main_loop f (mkNS (ns_taxantax st) (ns_taxlabels st)
                                    (Some (fst (prev_trees st) ++ tnames ts, snd (prev_trees st) ++ tstrings ts)%list)
                                    (ttable ts) (ns_data st)
                                    (ns_missing st) (ns_gap st)
                                    (ns_tabs st ++ map (fun _ => ttable ts) (tnames ts))%list) r4
                end
              | Panic => PPanic
              | OutOfFuel => POutOfFuel
              end
            else if tok_eqb t2 DATA then
              match parse_data f data0 None r3 with
              | Ret d err r4 =>
                match err with
                | Some e => PErr e
                | None => main_loop f (mkNS (ns_taxantax st) (ns_taxlabels st) (ns_trees st) (ns_table st)
                                            (Some d) (dmissing d) (dgap d) (ns_tabs st)) r4
                end
              | Panic => PPanic
              | OutOfFuel => POutOfFuel
              end
            else
              match unsupported_block f r3 with
              | Ret _ (Some e) _ => PErr e
              | Ret _ None r4 => main_loop f st r4
              | Panic => PPanic
              | OutOfFuel => POutOfFuel
              end
        end
    end.

  (** Parser.Parse *)
  Definition nexus_parse_fuel (fuel : nat) (s : string) : pres :=
    let '(t, _, r) := scan_iw s in
    if negb (tok_eqb t NEXUS) then PErr "found "
    else main_loop fuel nexus0 r.

  (** every loop iteration consumes at least one byte or stops: this fuel is enough
      (Proofs/NexusTotal.v) *)
  Definition nexus_fuel (s : string) : nat := String.length s + 2.
  Definition nexus_parse (s : string) : pres := nexus_parse_fuel (nexus_fuel s) s.

  (** * Reader entry points (io/utils/readtrees.go, FORMAT_NEXUS) *)
  (** ReadTreeReader: n.HasTrees ? n.FirstTree() : error *)
  Definition first_tree_nexus (s : string) : option (utree + string) :=
    match nexus_parse s with
    | POk d => match doc_trees d with
               | (_, t) :: _ => Some (inl t)
               | [] => Some (inr "No tree in the input Nexus file")
               end
    | PErr e => Some (inr e)
    | PPanic | POutOfFuel => None
    end.

  (** ReadMultiTrees: the parse error with id 0, or every tree with ids 0, 1, ... *)
  Definition iterate_nexus (s : string) : option (list (nat * (utree + string))) :=
    match nexus_parse s with
    | POk d => Some (combine (seq 0 (length (doc_trees d))) (map (fun p => inl (snd p)) (doc_trees d)))
    | PErr e => Some [(0, inr e)]
    | PPanic | POutOfFuel => None
    end.
End Parse.

(** * Writers *)
Section Write.
  (** Tree.Newick() *)
  Variable wnewick : utree -> string.

  Definition itoa (n : nat) : string := string_of_nat n.

  (** Tree.Nexus() *)
  Definition tree_nexus (t : utree) : string :=
    "#NEXUS" ++ String "010" "" ++
    "BEGIN TAXA;" ++ String "010" "" ++
    " DIMENSIONS NTAX=" ++ itoa (length (tips t)) ++ ";" ++ String "010" "" ++
    " TAXLABELS" ++ concat_with "" (map (fun n => " " ++ n) (tip_names t)) ++ ";" ++ String "010" "" ++
    "END;" ++ String "010" "" ++
    "BEGIN TREES;" ++ String "010" "" ++
    "  TREE tree1 = " ++ wnewick t ++ String "010" "" ++
    "END;" ++ String "010" "".

  (** WriteNexus(tchan, translate) on the records (id, tree) of the channel (an error record
      ends it with that error): the map tip -> index string in order of first appearance,
      the slice sorted (sort.Strings: byte order) after each tree, each tree printed -- after
      Clone + Rename(map) when [translate] (the error of Rename is ignored: the clone then
      keeps its names) -- as "  TREE tree<id> = <newick>". *)
  Definition add_tips (names : list string) (m : list (string * string)) : list (string * string) :=
    fold_left (fun m n => match assoc_get n m with
                          | Some _ => m
                          | None => (m ++ [(n, itoa (length m))])%list
                          end) names m.

  Definition renamed (translate : bool) (m : list (string * string)) (t : utree) : utree :=
    if translate then match rename_tree m t with inl t' => t' | inr _ => t end else t.

  Fixpoint write_trees (translate : bool) (m : list (string * string)) (l : list (nat * utree))
    : list (string * string) * string :=
    match l with
    | [] => (m, "")
    | (id, t) :: r =>
      let m' := add_tips (all_tip_names t) m in
      let line := "  TREE tree" ++ itoa id ++ " = " ++ wnewick (renamed translate m' t) ++ String "010" "" in
      let '(m'', rest) := write_trees translate m' r in
      (m'', line ++ rest)
    end.

  Definition write_nexus (translate : bool) (l : list (nat * utree)) : string :=
    let '(m, body) := write_trees translate [] l in
    let labels := ssort (map fst m) in
    "#NEXUS" ++ String "010" "" ++
    "BEGIN TAXA;" ++ String "010" "" ++
    " DIMENSIONS NTAX=" ++ itoa (length m) ++ ";" ++ String "010" "" ++
    " TAXLABELS" ++ concat_with "" (map (fun n => " " ++ n) labels) ++ ";" ++ String "010" "" ++
    "END;" ++ String "010" "" ++
    "BEGIN TREES;" ++ String "010" "" ++
    (if translate then
       "  TRANSLATE" ++ String "010" "" ++
       concat_with "" (map (fun n => "   " ++ match assoc_get n m with Some i => i | None => "" end
                                       ++ " " ++ n ++ String "010" "") labels) ++
       "  ;" ++ String "010" ""
     else "") ++
    body ++
    "END;" ++ String "010" "".
End Write.
