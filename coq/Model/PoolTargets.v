(** Which goroutines of the source are the worker pools that property C11 speaks about, and
    the decidable conditions on the facts the translator extracts (Gen/Pools.v) under which the
    pool theorems (Proofs/Pool.v) apply to them. *)
From Coq Require Import String Bool Arith List.
From GT Require Import Model.PoolFacts.
Import ListNotations.
Local Open Scope string_scope.

(** the worker literal of each threaded computation: (file, function, index of the `go` statement) *)
Definition targets : list (string * string * nat) :=
  [("tree/algo.go", "Compare", 0); ("tree/algo.go", "CompareWeighted", 0);
   ("support/fbp.go", "FBP", 0); ("support/tbe.go", "TBE", 1)].

Definition is_target (g : gofact) : bool :=
  existsb (fun t => match t with (fl, fn, i) =>
     String.eqb (gfile g) fl && String.eqb (gfunc g) fn && Nat.eqb (gidx g) i end) targets.

(** hypotheses of the pool model, as checked on the source:
    - no variable declared outside the worker literal is assigned inside it (outside a
      mutex-protected statement): the job body is a function of the job;
    - the worker ranges over a channel and signals completion, and no return path skips it. *)
Definition worker_ok (g : gofact) : bool :=
  match gcaptured_assigned g with [] => true | _ => false end &&
  granges_chan g && ghas_done g && Nat.eqb (greturns_without_done g) 0.

Definition target_facts (gs : list gofact) : list gofact := filter is_target gs.
Definition all_targets_found (gs : list gofact) : bool :=
  Nat.eqb (length (target_facts gs)) (length targets).
Definition all_targets_ok (gs : list gofact) : bool := forallb worker_ok (target_facts gs).
