(** C03: a history may KEEP the handle of a rearrangement (the object NNIRearranger hands to its
    callback), apply it, run other operations that keep every node alive (SortNeighborsByTips,
    RotateInternalNodes, ReinitIndexes, Reroot), and undo it later.

    Go's nni object remembers NODE POINTERS (n1, n2, n1_2 and the moved child of n2) and Undo
    looks their positions up again in the current neighbour arrays; the positional record of
    Model/NNI.v is only valid on the tree it was made for.  Node identity is carried here by
    marker comments put on the four nodes right after Apply: the models of sort / rotate
    permute slots, the model of reroot moves parent slots, and none reads comments, so the markers travel with the nodes; the judge
    compares the tree with the markers stripped.  Undo finds the marked nodes, recomputes the
    four indexes and performs the same exchange ([NNI.swap_local]) as Model/NNI.v's [undo].
    No proofs in this file. *)
From Coq Require Import String Ascii ZArith QArith Bool Arith List.
From GT Require Import Base.UTree Model.Reroot Model.History.
From GT Require Model.NNI.
Import ListNotations.
Local Close Scope Q_scope.
Local Open Scope string_scope.

Definition mk_n1 : string := String "001" "n1".
Definition mk_n2 : string := String "001" "n2".
Definition mk_m1 : string := String "001" "m1".   (* n1_2, when it is a child of n1 *)
Definition mk_m2 : string := String "001" "m2".   (* the moved child of n2 *)
Definition is_mark (c : string) : bool :=
  String.eqb c mk_n1 || String.eqb c mk_n2 || String.eqb c mk_m1 || String.eqb c mk_m2.

Fixpoint strip_marks (t : utree) : utree :=
  match t with
  | UNode n c sl =>
    UNode n (filter (fun x => negb (is_mark x)) c)
          (map (fun s => match s with Some (e, ch) => Some (e, strip_marks ch) | None => None end) sl)
  end.

Definition add_mark (m : string) (t : utree) : option utree :=
  match t with UNode n c sl => Some (UNode n (m :: c) sl) end.
Definition mark_at (p : list nat) (m : string) (t : utree) : option utree := NNI.at_path (add_mark m) p t.

Definition has_mark (m : string) (t : utree) : bool := existsb (String.eqb m) (ucom t).

(** path of the first node (pre-order) carrying the marker *)
Definition find_mark (m : string) (t : utree) : option (list nat) :=
  match find (fun pn => has_mark m (snd pn)) (combine (paths t) (nodes t)) with
  | Some (p, _) => Some p
  | None => None
  end.

(** Apply of the k-th proposal, the four nodes marked; [None]: there is no proposal *)
Definition hold_apply (k : nat) (t : utree) : res (option utree) :=
  match nni_pick k t with
  | None => Ok None
  | Some r =>
    match NNI.apply r t with
    | None => Err err_nni
    | Some t1 =>
      let p := NNI.r_path r in
      let marked :=
          if NNI.r_flip r then
            (* the node at [p] is n2, n1 hangs in its slot r_j, the moved child of n2 is now in
               n1's slot n12_index; n1_2 is n2's parent *)
            let p1 := (p ++ [NNI.r_j r])%list in
            match mark_at p mk_n2 t1 with
            | Some a => match mark_at p1 mk_n1 a with
                        | Some b => match mark_at (p1 ++ [NNI.n12_index r])%list mk_m2 b with
                                    | Some c => mark_at (removelast p) mk_m1 c
                                    | None => None end
                        | None => None end
            | None => None end
          else
            let p2 := (p ++ [NNI.r_k r])%list in
            match mark_at p mk_n1 t1 with
            | Some a => match mark_at p2 mk_n2 a with
                        | Some b => match mark_at (p ++ [NNI.n12_index r])%list mk_m2 b with
                                    | Some c => mark_at (p2 ++ [NNI.n22_index r])%list mk_m1 c
                                    | None => None end
                        | None => None end
            | None => None end in
      match marked with Some tm => Ok (Some tm) | None => Err "model: cannot mark" end
    end
  end.

Fixpoint up_idx (sl : list slot) : nat :=
  match sl with
  | [] => 0
  | None :: _ => 0
  | _ :: r => S (up_idx r)
  end.

(** nni.Undo on the marked tree, wherever the root is now.  Go looks the four positions up by
    pointer, exchanges n1_2 (next to n2) and the moved child m2 (next to n1) in place, each branch
    keeping its direction, and inverts the central branch iff n1_2 is the parent of n2.
      n1 above n2, m2 and n1_2 children           : plain exchange seen from n1;
      n2 above n1, n1_2 the parent of n2          : exchange with inversion ([swap_local] at n2);
      n2 above n1, n1_2 a child of n2             : plain exchange seen from n2;
      n1 above n2 and m2 the PARENT of n1 (the root is in the clade that Apply moved): exchange
        with inversion seen from n1 -- n2 takes n1's place below m2 (since the fix "NNI Undo left the
        central branch wrongly oriented when the tree had been re-rooted into the clade moved by
        Apply": the branch is inverted when e2.Right() == n2 || e1.Right() == n1).
    [Ok None] (a step left to the oracle alone) is no longer produced. *)
Definition hold_undo (tm : utree) : res (option utree) :=
  match find_mark mk_n1 tm, find_mark mk_n2 tm, find_mark mk_m1 tm, find_mark mk_m2 tm with
  | Some p1, Some p2, Some pm1, Some pm2 =>
    match node_at tm p1, node_at tm p2 with
    | Some n1, Some n2 =>
      let child_of (p q : list nat) := Nat.eqb (length p) (S (length q)) in
      if child_of p2 p1 then
        (* n1 above n2; n1_2 is then a child of n2 *)
        if child_of pm2 p1 then
          match NNI.at_path (NNI.swap_local (last p2 0) (up_idx (uslots n2)) (last pm2 0) (last pm1 0)) p1 tm with
          | Some t' => Ok (Some (strip_marks t'))
          | None => Err err_nni
          end
        else
          match NNI.at_path (NNI.swap_local (last p2 0) (up_idx (uslots n2)) (up_idx (uslots n1)) (last pm1 0)) p1 tm with
          | Some t' => Ok (Some (strip_marks t'))
          | None => Err err_nni
          end
      else if child_of p1 p2 then
        (* n2 above n1; m2 is then a child of n1 *)
        let ia := if child_of pm1 p2 then last pm1 0 else up_idx (uslots n2) in
        match NNI.at_path (NNI.swap_local (last p1 0) (up_idx (uslots n1)) ia (last pm2 0)) p2 tm with
        | Some t' => Ok (Some (strip_marks t'))
        | None => Err err_nni
        end
      else Err err_nni
    | _, _ => Err err_nni
    end
  | _, _, _, _ => Err err_nni
  end.
