(** C03: a history may KEEP the handle of a rearrangement (the object NNIRearranger hands to its
    callback), apply it, run other operations that keep every node alive (SortNeighborsByTips,
    RotateInternalNodes, ReinitIndexes, Reroot), and undo it later.

    Go's nni object remembers NODE POINTERS (n1, n2, n1_2 and the moved child of n2) and Undo
    looks their positions up again in the current neighbour arrays; the positional record of
    Model/NNI.v is only valid on the tree it was made for.  Node identity is carried here by
    marker comments put on the four nodes right after Apply: the models of sort / rotate
    permute slots, the model of reroot moves parent slots, and none reads comments, so the markers travel with the nodes; the judge
    compares the tree with the markers stripped.  Undo finds the marked nodes, recomputes the
    four indexes and performs the same exchange ([NNI.swap_local]) as Model/NNI.v's [undo].
    No proofs in this file. *)
From Coq Require Import String Ascii ZArith QArith Bool Arith List.
From GT Require Import Base.UTree Model.Reroot Model.History.
From GT Require Model.NNI.
Import ListNotations.
Local Close Scope Q_scope.
Local Open Scope string_scope.

Definition mk_n1 : string := String "001" "n1".
Definition mk_n2 : string := String "001" "n2".
Definition mk_m1 : string := String "001" "m1".   (* n1_2, when it is a child of n1 *)
Definition mk_m2 : string := String "001" "m2".   (* the moved child of n2 *)
Definition is_mark (c : string) : bool :=
  String.eqb c mk_n1 || String.eqb c mk_n2 || String.eqb c mk_m1 || String.eqb c mk_m2.

Fixpoint strip_marks (t : utree) : utree :=
  match t with
  | UNode n c sl =>
    UNode n (filter (fun x => negb (is_mark x)) c)
          (map (fun s => match s with Some (e, ch) => Some (e, strip_marks ch) | None => None end) sl)
  end.

Definition add_mark (m : string) (t : utree) : option utree :=
  match t with UNode n c sl => Some (UNode n (m :: c) sl) end.
Definition mark_at (p : list nat) (m : string) (t : utree) : option utree := NNI.at_path (add_mark m) p t.

Definition has_mark (m : string) (t : utree) : bool := existsb (String.eqb m) (ucom t).

(** path of the first node (pre-order) carrying the marker *)
Definition find_mark (m : string) (t : utree) : option (list nat) :=
  match find (fun pn => has_mark m (snd pn)) (combine (paths t) (nodes t)) with
  | Some (p, _) => Some p
  | None => None
  end.

(** the k-th proposal COLLECTED (kept, not applied): the four nodes marked in the tree as it
    is; [None]: there is no proposal.  n1 is at [r_path], n2 in its slot [r_k], the child of n2
    that will move in n2's slot [n22_index], n1_2 in n1's slot [n12_index] or, when that slot is
    n1's parent slot ([r_flip]), the node above n1 *)
Definition hold_collect (k : nat) (t : utree) : res (option utree) :=
  match nni_pick k t with
  | None => Ok None
  | Some r =>
    let p := NNI.r_path r in
    let p2 := (p ++ [NNI.r_k r])%list in
    let pm1 := if NNI.r_flip r then removelast p else (p ++ [NNI.n12_index r])%list in
    match mark_at p mk_n1 t with
    | Some a => match mark_at p2 mk_n2 a with
                | Some b => match mark_at (p2 ++ [NNI.n22_index r])%list mk_m2 b with
                            | Some c => match mark_at pm1 mk_m1 c with
                                        | Some d => Ok (Some d)
                                        | None => Err "model: cannot mark" end
                            | None => Err "model: cannot mark" end
                | None => Err "model: cannot mark" end
    | None => Err "model: cannot mark"
    end
  end.

Fixpoint up_idx (sl : list slot) : nat :=
  match sl with
  | [] => 0
  | None :: _ => 0
  | _ :: r => S (up_idx r)
  end.

(** the exchange both Apply and Undo perform, wherever the root is now: X and Y are the two ends
    of the central branch, mX a neighbour of X and mY a neighbour of Y; mX and mY are exchanged in
    place, each branch keeping its direction, and the central branch is inverted iff the root is
    behind mX or behind mY (tree/rearrange.go since the fixes "NNI Undo / NNI Apply left the
    central branch wrongly oriented when the tree had been re-rooted into the clade ..."):
      X above Y (mY is then a child of Y): [swap_local] at X, with mX's slot or X's parent slot;
      Y above X (mX is then a child of X): [swap_local] at Y, with mY's slot or Y's parent slot.
    The markers stay. *)
Definition exchange (tm : utree) (pX pY pmX pmY : list nat) : res utree :=
  match node_at tm pX, node_at tm pY with
  | Some X, Some Y =>
    let child_of (p q : list nat) := Nat.eqb (length p) (S (length q)) in
    let r :=
        if child_of pY pX then
          let ia := if child_of pmX pX then last pmX 0 else up_idx (uslots X) in
          NNI.at_path (NNI.swap_local (last pY 0) (up_idx (uslots Y)) ia (last pmY 0)) pX tm
        else if child_of pX pY then
          let ia := if child_of pmY pY then last pmY 0 else up_idx (uslots Y) in
          NNI.at_path (NNI.swap_local (last pX 0) (up_idx (uslots X)) ia (last pmX 0)) pY tm
        else None in
    match r with Some t' => Ok t' | None => Err err_nni end
  | _, _ => Err err_nni
  end.

Definition with_marks (tm : utree) (f : list nat -> list nat -> list nat -> list nat -> res utree) : res utree :=
  match find_mark mk_n1 tm, find_mark mk_n2 tm, find_mark mk_m1 tm, find_mark mk_m2 tm with
  | Some p1, Some p2, Some pm1, Some pm2 => f p1 p2 pm1 pm2
  | _, _, _, _ => Err err_nni
  end.

(** nni.Apply of the collected handle: n1_2 (next to n1) and the child of n2 are exchanged *)
Definition held_apply (tm : utree) : res utree :=
  with_marks tm (fun p1 p2 pm1 pm2 => exchange tm p1 p2 pm1 pm2).

(** nni.Undo of the applied handle: n1_2 is now next to n2, the moved child next to n1 *)
Definition hold_undo (tm : utree) : res (option utree) :=
  match with_marks tm (fun p1 p2 pm1 pm2 => exchange tm p2 p1 pm1 pm2) with
  | Ok t' => Ok (Some (strip_marks t'))
  | Err m => Err m
  end.

(** Apply right away (nni_hold) *)
Definition hold_apply (k : nat) (t : utree) : res (option utree) :=
  match hold_collect k t with
  | Ok (Some tm) => match held_apply tm with Ok t1 => Ok (Some t1) | Err m => Err m end
  | Ok None => Ok None
  | Err m => Err m
  end.
