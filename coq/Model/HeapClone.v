(** A heap-level model of tree/tree.go Clone (l.1772), copyTreeRecur (l.1786), CopyNode,
    CopyEdge, NewNode, NewEdge, ConnectNodes, addChild: nodes, branches and comment slices
    live in a store and are designated by ids; a record holds the ids of its neighbours, of
    its branches and of the cell that stores its comments.  Every allocation takes the next
    free id ([hnext]).  No proofs in this file.

    This is the only place where sharing can be expressed: two records may hold the same
    comment-cell id (what a Go slice header copied without its backing array amounts to).
    The walk needs fuel because the store is not structurally a tree. *)
From Coq Require Import String ZArith QArith Bool Arith List.
Import ListNotations.
Local Close Scope Q_scope.

Record hnode : Type :=
  mkHN { hn_name : string; hn_com : nat; hn_neigh : list nat; hn_br : list nat }.

Record hedge : Type :=
  mkHE { he_left : nat; he_right : nat; he_len : Q; he_sup : Q; he_pv : Q; he_com : nat }.

Record heap : Type :=
  mkH { hnodes : nat -> option hnode;
        hedges : nat -> option hedge;
        hcells : nat -> option (list string);
        hnext : nat }.

Definition upd {A} (f : nat -> option A) (i : nat) (v : A) : nat -> option A :=
  fun j => if Nat.eqb j i then Some v else f j.

Definition nilq : Q := (-1)%Q.

(** make([]string, n) + copy: a new cell *)
Definition alloc_cell (h : heap) (l : list string) : heap * nat :=
  (mkH (hnodes h) (hedges h) (upd (hcells h) (hnext h) l) (S (hnext h)), hnext h).

Definition cell_of (h : heap) (c : nat) : list string :=
  match hcells h c with Some l => l | None => [] end.

(** CopyNode: a new node with the name and a new comment slice holding the same comments *)
Definition copy_node_h (h : heap) (n : hnode) : heap * nat :=
  let '(h1, c) := alloc_cell h (cell_of h (hn_com n)) in
  let id := hnext h1 in
  (mkH (upd (hnodes h1) id (mkHN (hn_name n) c [] [])) (hedges h1) (hcells h1) (S id), id).

(** addChild *)
Definition add_child (h : heap) (p c e : nat) : heap :=
  match hnodes h p with
  | Some n => mkH (upd (hnodes h) p (mkHN (hn_name n) (hn_com n) (hn_neigh n ++ [c]) (hn_br n ++ [e])))
                  (hedges h) (hcells h) (hnext h)
  | None => h
  end.

(** ConnectNodes(parent, child): NewEdge (empty comment slice, no length, support, p-value),
    setLeft, setRight, parent.addChild(child), child.addChild(parent) *)
Definition connect (h : heap) (p c : nat) : heap * nat :=
  let '(h1, cc) := alloc_cell h [] in
  let e := hnext h1 in
  let h2 := mkH (hnodes h1) (upd (hedges h1) e (mkHE p c nilq nilq nilq cc)) (hcells h1) (S e) in
  (add_child (add_child h2 p c e) c p e, e).

(** CopyEdge(e, copy): numbers, and a new comment slice with the same comments *)
Definition copy_edge_h (h : heap) (src : hedge) (dst : nat) : heap :=
  match hedges h dst with
  | Some d =>
    let '(h1, c) := alloc_cell h (cell_of h (he_com src)) in
    mkH (hnodes h1)
        (upd (hedges h1) dst (mkHE (he_left d) (he_right d) (he_len src) (he_sup src) (he_pv src) c))
        (hcells h1) (hnext h1)
  | None => h
  end.

(** copyTreeRecur(copytree, copynode, node, edge) *)
Fixpoint copy_rec (fuel : nat) (h : heap) (copynode edge : nat) : heap :=
  match fuel with
  | O => h
  | S f =>
    match hedges h edge with
    | None => h
    | Some he =>
      let child := he_right he in
      match hnodes h child with
      | None => h
      | Some hc =>
        let '(h1, cc) := copy_node_h h hc in
        let '(h2, ce) := connect h1 copynode cc in
        let h3 := copy_edge_h h2 he ce in
        fold_left (fun hh e => if Nat.eqb e edge then hh else copy_rec f hh cc e) (hn_br hc) h3
      end
    end
  end.

(** Clone: the copy of the root, then one copyTreeRecur per branch of the root; returns the
    new store and the id of the root of the copy *)
Definition clone_h (fuel : nat) (h : heap) (root : nat) : heap * nat :=
  match hnodes h root with
  | None => (h, root)
  | Some hr =>
    let '(h1, r') := copy_node_h h hr in
    (fold_left (fun hh e => copy_rec fuel hh r' e) (hn_br hr) h1, r')
  end.
