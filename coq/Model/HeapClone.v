(** A heap-level model of tree/tree.go Clone (l.1772), copyTreeRecur (l.1786), CopyNode,
    CopyEdge, NewNode, NewEdge, ConnectNodes, addChild: nodes, branches and comment slices
    live in a store and are designated by ids; a record holds the ids of its neighbours, of
    its branches and of the cell that stores its comments.  Every allocation takes the next
    free id ([hnext]).  No proofs in this file.

    This is the only place where sharing can be expressed: two records may hold the same
    comment-cell id (what a Go slice header copied without its backing array amounts to).
    The walk needs fuel because the store is not structurally a tree. *)
From Coq Require Import String ZArith QArith Bool Arith List.
Import ListNotations.
Local Close Scope Q_scope.

Record hnode : Type :=
  mkHN { hn_name : string; hn_com : nat; hn_neigh : list nat; hn_br : list nat }.

Record hedge : Type :=
  mkHE { he_left : nat; he_right : nat; he_len : Q; he_sup : Q; he_pv : Q; he_com : nat }.

Record heap : Type :=
  mkH { hnodes : nat -> option hnode;
        hedges : nat -> option hedge;
        hcells : nat -> option (list string);
        hnext : nat }.

Definition upd {A} (f : nat -> option A) (i : nat) (v : A) : nat -> option A :=
  fun j => if Nat.eqb j i then Some v else f j.

Definition nilq : Q := (-1)%Q.

(** make([]string, n) + copy: a new cell *)
Definition alloc_cell (h : heap) (l : list string) : heap * nat :=
  (mkH (hnodes h) (hedges h) (upd (hcells h) (hnext h) l) (S (hnext h)), hnext h).

Definition cell_of (h : heap) (c : nat) : list string :=
  match hcells h c with Some l => l | None => [] end.

(** CopyNode: a new node with the name and a new comment slice holding the same comments *)
Definition copy_node_h (h : heap) (n : hnode) : heap * nat :=
  let '(h1, c) := alloc_cell h (cell_of h (hn_com n)) in
  let id := hnext h1 in
  (mkH (upd (hnodes h1) id (mkHN (hn_name n) c [] [])) (hedges h1) (hcells h1) (S id), id).

(** addChild *)
Definition add_child (h : heap) (p c e : nat) : heap :=
  match hnodes h p with
  | Some n => mkH (upd (hnodes h) p (mkHN (hn_name n) (hn_com n) (hn_neigh n ++ [c]) (hn_br n ++ [e])))
                  (hedges h) (hcells h) (hnext h)
  | None => h
  end.

(** ConnectNodes(parent, child): NewEdge (empty comment slice, no length, support, p-value),
    setLeft, setRight, parent.addChild(child), child.addChild(parent) *)
Definition connect (h : heap) (p c : nat) : heap * nat :=
  let '(h1, cc) := alloc_cell h [] in
  let e := hnext h1 in
  let h2 := mkH (hnodes h1) (upd (hedges h1) e (mkHE p c nilq nilq nilq cc)) (hcells h1) (S e) in
  (add_child (add_child h2 p c e) c p e, e).

(** CopyEdge(e, copy): numbers, and a new comment slice with the same comments *)
Definition copy_edge_h (h : heap) (src : hedge) (dst : nat) : heap :=
  match hedges h dst with
  | Some d =>
    let '(h1, c) := alloc_cell h (cell_of h (he_com src)) in
    mkH (hnodes h1)
        (upd (hedges h1) dst (mkHE (he_left d) (he_right d) (he_len src) (he_sup src) (he_pv src) c))
        (hcells h1) (hnext h1)
  | None => h
  end.

(** copyTreeRecur(copytree, copynode, node, edge) *)
Fixpoint copy_rec (fuel : nat) (h : heap) (copynode edge : nat) : heap :=
  match fuel with
  | O => h
  | S f =>
    match hedges h edge with
    | None => h
    | Some he =>
      let child := he_right he in
      match hnodes h child with
      | None => h
      | Some hc =>
        let '(h1, cc) := copy_node_h h hc in
        let '(h2, ce) := connect h1 copynode cc in
        let h3 := copy_edge_h h2 he ce in
        fold_left (fun hh e => if Nat.eqb e edge then hh else copy_rec f hh cc e) (hn_br hc) h3
      end
    end
  end.

(** Clone: the copy of the root, then one copyTreeRecur per branch of the root; returns the
    new store and the id of the root of the copy *)
Definition clone_h (fuel : nat) (h : heap) (root : nat) : heap * nat :=
  match hnodes h root with
  | None => (h, root)
  | Some hr =>
    let '(h1, r') := copy_node_h h hr in
    (fold_left (fun hh e => copy_rec fuel hh r' e) (hn_br hr) h1, r')
  end.

(** SubTree(n): the copy of n, then one copyTreeRecur per branch of n whose left end is n (the
    branch to the parent is skipped).  The test reads the branches of the source, which the
    copy never writes. *)
Definition subtree_h (fuel : nat) (h : heap) (nid : nat) : heap * nat :=
  match hnodes h nid with
  | None => (h, nid)
  | Some hr =>
    let '(h1, r') := copy_node_h h hr in
    let brs := filter (fun e => match hedges h e with
                                | Some he => Nat.eqb (he_left he) nid
                                | None => false
                                end) (hn_br hr) in
    (fold_left (fun hh e => copy_rec fuel hh r' e) brs h1, r')
  end.

(** * field writes (Node.SetName, Edge.SetLength / SetSupport / SetPValue, AddComment and
    ClearComments on nodes and branches): store updates at the id of the record and, for
    comments, at the id of its comment cell *)
Inductive hwrite : Type :=
| WName (nid : nat) (s : string)
| WLen (eid : nat) (q : Q)
| WSup (eid : nat) (q : Q)
| WPv (eid : nat) (q : Q)
| WNodeAddCom (nid : nat) (s : string)
| WNodeClearCom (nid : nat)
| WEdgeAddCom (eid : nat) (s : string)
| WEdgeClearCom (eid : nat).

Definition set_cell (h : heap) (c : nat) (l : list string) : heap :=
  mkH (hnodes h) (hedges h) (upd (hcells h) c l) (hnext h).

Definition apply_write (h : heap) (w : hwrite) : heap :=
  match w with
  | WName nid s =>
    match hnodes h nid with
    | Some n => mkH (upd (hnodes h) nid (mkHN s (hn_com n) (hn_neigh n) (hn_br n))) (hedges h) (hcells h) (hnext h)
    | None => h
    end
  | WLen eid q =>
    match hedges h eid with
    | Some e => mkH (hnodes h) (upd (hedges h) eid (mkHE (he_left e) (he_right e) q (he_sup e) (he_pv e) (he_com e)))
                    (hcells h) (hnext h)
    | None => h
    end
  | WSup eid q =>
    match hedges h eid with
    | Some e => mkH (hnodes h) (upd (hedges h) eid (mkHE (he_left e) (he_right e) (he_len e) q (he_pv e) (he_com e)))
                    (hcells h) (hnext h)
    | None => h
    end
  | WPv eid q =>
    match hedges h eid with
    | Some e => mkH (hnodes h) (upd (hedges h) eid (mkHE (he_left e) (he_right e) (he_len e) (he_sup e) q (he_com e)))
                    (hcells h) (hnext h)
    | None => h
    end
  | WNodeAddCom nid s =>
    match hnodes h nid with
    | Some n => set_cell h (hn_com n) (cell_of h (hn_com n) ++ [s])
    | None => h
    end
  | WNodeClearCom nid =>
    match hnodes h nid with
    | Some n => set_cell h (hn_com n) []
    | None => h
    end
  | WEdgeAddCom eid s =>
    match hedges h eid with
    | Some e => set_cell h (he_com e) (cell_of h (he_com e) ++ [s])
    | None => h
    end
  | WEdgeClearCom eid =>
    match hedges h eid with
    | Some e => set_cell h (he_com e) []
    | None => h
    end
  end.

(** the ids a write touches in the store [h] *)
Definition touched (h : heap) (w : hwrite) : list nat :=
  match w with
  | WName nid _ => [nid]
  | WLen eid _ | WSup eid _ | WPv eid _ => [eid]
  | WNodeAddCom nid _ | WNodeClearCom nid =>
    match hnodes h nid with Some n => [nid; hn_com n] | None => [nid] end
  | WEdgeAddCom eid _ | WEdgeClearCom eid =>
    match hedges h eid with Some e => [eid; he_com e] | None => [eid] end
  end.

Definition apply_writes (h : heap) (ws : list hwrite) : heap := fold_left apply_write ws h.

(** * GraftTreeOnTip on the store: the tip node [tn] of the host is replaced, in the branch that
    leads to it and in the neighbours of its parent, by the root [tr] of the graft, which
    gets the parent as a new last neighbour.  Nothing is copied. *)
Fixpoint index_of_nat (x : nat) (l : list nat) : option nat :=
  match l with
  | [] => None
  | y :: r => if Nat.eqb y x then Some 0
              else match index_of_nat x r with Some i => Some (S i) | None => None end
  end.

Fixpoint set_nth_nat (k : nat) (x : nat) (l : list nat) : list nat :=
  match l, k with
  | [], _ => []
  | _ :: r, 0 => x :: r
  | y :: r, S k' => y :: set_nth_nat k' x r
  end.

Definition graft_h (h : heap) (tn tr : nat) : option heap :=
  match hnodes h tn with
  | Some tip =>
    (* ParentEdge: the branch of tn whose right end is tn *)
    match find (fun e => match hedges h e with Some he => Nat.eqb (he_right he) tn | None => false end)
               (hn_br tip) with
    | Some pe =>
      match hedges h pe with
      | Some hpe =>
        let pn := he_left hpe in
        match hnodes h pn, hnodes h tr with
        | Some par, Some root =>
          match index_of_nat tn (hn_neigh par) with
          | Some idx =>
            Some (mkH (upd (upd (hnodes h) pn (mkHN (hn_name par) (hn_com par)
                                                    (set_nth_nat idx tr (hn_neigh par)) (hn_br par)))
                           tr (mkHN (hn_name root) (hn_com root) (hn_neigh root ++ [pn]) (hn_br root ++ [pe])))
                      (upd (hedges h) pe (mkHE (he_left hpe) tr (he_len hpe) (he_sup hpe) (he_pv hpe) (he_com hpe)))
                      (hcells h) (hnext h))
          | None => None
          end
        | _, _ => None
        end
      | None => None
      end
    | None => None
    end
  | None => None
  end.
