(** The worker pool of Model/Pool.v with the channels as they are in Go:

    - the job channel has a capacity [cj] (0 = unbuffered: the producer's send and a worker's
      receive are one rendez-vous step; the producer blocks while the buffer is full);
    - the result channel has a capacity [cr] (tree.Compare's `stats` is unbuffered, FBP's
      `foundEdges` has capacity 100); a worker that cannot send stays Busy (blocked);
    - a closer goroutine does `wg.Wait(); close(out)`: it fires when every worker has signalled
      Done (all Exited);
    - the caller ranges over the result channel: receives while there is something, finishes
      when the channel is closed and empty.

    Agents of a schedule: 0 producer, 1 closer, 2 caller, i+3 worker i.  A blocked agent
    stutters.  A rendez-vous is attributed to the worker (its unique counterpart — the
    producer for jobs, the caller for results — is always willing).
    No proofs in this file. *)
From Coq Require Import Bool Arith List.
From GT Require Import Model.Pool.
Import ListNotations.

Section Pool2.
  Variables (job res err : Type).
  Variable f : job -> res.
  Variable fails : job -> bool.
  Variable e_of : job -> err.
  Variable on_fail : fail_mode.
  Variable done_on_exit : bool.
  Variable cj : nat.     (* capacity of the job channel *)
  Variable cr : nat.     (* capacity of the result channel *)

  Record st2 := mkSt2 {
    pending2 : list job;          (* not yet sent by the producer *)
    closed2 : bool;               (* the producer has closed the job channel *)
    queue2 : list job;            (* buffer of the job channel *)
    ws2 : list (wstate job);      (* the workers *)
    rchan : list res;             (* buffer of the result channel *)
    closed_out : bool;            (* the closer has closed the result channel (wg.Wait returned) *)
    recvd : list res;             (* received by the caller, in arrival order *)
    caller_done : bool;           (* the caller's range loop has ended *)
    errs2 : list err              (* errors recorded (in the result record / the shared err variable) *)
  }.

  Definition producer_step2 (s : st2) : st2 :=
    match pending2 s with
    | j :: p =>
      if length (queue2 s) <? cj
      then mkSt2 p (closed2 s) (queue2 s ++ [j]) (ws2 s) (rchan s) (closed_out s) (recvd s)
                 (caller_done s) (errs2 s)
      else s                                    (* blocked: buffer full / nobody receives *)
    | [] => mkSt2 [] true (queue2 s) (ws2 s) (rchan s) (closed_out s) (recvd s)
                  (caller_done s) (errs2 s)
    end.

  Definition closer_step (s : st2) : st2 :=
    if forallb (is_exited job) (ws2 s)
    then mkSt2 (pending2 s) (closed2 s) (queue2 s) (ws2 s) (rchan s) true (recvd s)
               (caller_done s) (errs2 s)
    else s.                                      (* wg.Wait() still blocks *)

  Definition caller_step (s : st2) : st2 :=
    if caller_done s then s else
    match rchan s with
    | r :: rc => mkSt2 (pending2 s) (closed2 s) (queue2 s) (ws2 s) rc (closed_out s)
                       (recvd s ++ [r]) false (errs2 s)
    | [] => if closed_out s
            then mkSt2 (pending2 s) (closed2 s) (queue2 s) (ws2 s) [] true (recvd s) true (errs2 s)
            else s                               (* blocked on an empty open channel *)
    end.

  (** worker [i], holding job [j], sends its result; [e'] is the error list afterwards *)
  Definition send_result (s : st2) (i : nat) (j : job) (e' : list err) : st2 :=
    if length (rchan s) <? cr
    then mkSt2 (pending2 s) (closed2 s) (queue2 s) (set_nth i Idle (ws2 s)) (rchan s ++ [f j])
               (closed_out s) (recvd s) (caller_done s) e'
    else match cr, rchan s with
         | 0, [] =>                               (* unbuffered: rendez-vous with the caller *)
           if caller_done s then s
           else mkSt2 (pending2 s) (closed2 s) (queue2 s) (set_nth i Idle (ws2 s)) []
                      (closed_out s) (recvd s ++ [f j]) false e'
         | _, _ => s                              (* blocked: buffer full *)
         end.

  Definition worker_step2 (s : st2) (i : nat) : st2 :=
    match nth_error (ws2 s) i with
    | None => s
    | Some Idle =>
      match queue2 s with
      | j :: q => mkSt2 (pending2 s) (closed2 s) q (set_nth i (Busy j) (ws2 s)) (rchan s)
                        (closed_out s) (recvd s) (caller_done s) (errs2 s)
      | [] =>
        match cj, pending2 s with
        | 0, j :: p =>                            (* unbuffered: rendez-vous with the producer *)
          mkSt2 p (closed2 s) [] (set_nth i (Busy j) (ws2 s)) (rchan s)
                (closed_out s) (recvd s) (caller_done s) (errs2 s)
        | _, _ =>
          if closed2 s
          then mkSt2 (pending2 s) (closed2 s) [] (set_nth i Exited (ws2 s)) (rchan s)
                     (closed_out s) (recvd s) (caller_done s) (errs2 s)
          else s                                  (* blocked on an empty open channel *)
        end
      end
    | Some (Busy j) =>
      if fails j then
        match on_fail with
        | Continue => send_result s i j (errs2 s ++ [e_of j])
        | Stop => mkSt2 (pending2 s) (closed2 s) (queue2 s)
                        (set_nth i (if done_on_exit then Exited else Dead) (ws2 s)) (rchan s)
                        (closed_out s) (recvd s) (caller_done s) (errs2 s ++ [e_of j])
        end
      else send_result s i j (errs2 s)
    | Some Exited => s
    | Some Dead => s
    end.

  Definition step2 (s : st2) (a : nat) : st2 :=
    match a with
    | 0 => producer_step2 s
    | 1 => closer_step s
    | 2 => caller_step s
    | S (S (S i)) => worker_step2 s i
    end.

  Definition run2 (sched : list nat) (s : st2) : st2 := fold_left step2 sched s.

  Definition init2 (jobs : list job) (n : nat) : st2 :=
    mkSt2 jobs false [] (repeat Idle n) [] false [] false [].

  (** forgetting the result channel and the two extra agents gives a state of Model/Pool.v *)
  Definition abs (s : st2) : st job res err :=
    mkSt job res err (pending2 s) (closed2 s) (queue2 s) (ws2 s) (recvd s ++ rchan s) (errs2 s).
End Pool2.
