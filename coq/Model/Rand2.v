(** Go's math/rand (go1.23, package math/rand v1), second part: rand.Float64 and mixed draw
    plans (rand.Intn interleaved with rand.Float64 on the same stream).

      func (r *Rand) Float64() float64 {
      again:
          f := float64(r.Int63()) / (1 << 63)
          if f == 1 { goto again }
          return f
      }

    [float64(x)] for a 63-bit integer is the IEEE-754 round-to-nearest-even conversion to a
    53-bit significand; the division by 2^63 is exact.  One Float64 therefore consumes one raw
    value, unless the conversion rounds up to 2^63 (x >= 2^63 - 512), in which case it retries.

    github.com/fredericlemoine/gostats.Exp(lambda) = -math.Log(1 - rand.Float64()) / lambda:
    exactly one Float64 draw; the value stays opaque in the model (math.Log is not transcribed). *)
From Coq Require Import String ZArith NArith QArith Bool Arith List.
From GT Require Import Model.Rand.
Import ListNotations.
Local Close Scope Q_scope.
Local Open Scope N_scope.

Definition two53 : N := 9007199254740992.
Definition two63 : N := 9223372036854775808.

(** float64(x) as an integer value, x < 2^63: keep 53 significant bits, round half to even *)
Definition round53 (x : N) : N :=
  if x <? two53 then x
  else
    let k := N.log2 x - 52 in                 (* number of dropped bits, 1..10 *)
    let q := N.shiftr x k in
    let r := x - N.shiftl q k in
    let half := N.shiftl 1 (k - 1) in
    let q' := if half <? r then q + 1
              else if (r =? half) && N.odd q then q + 1
              else q in
    N.shiftl q' k.

(** the value of float64(x) / (1<<63) *)
Definition f64_of_int63 (x : N) : Q := Qmake (Z.of_N (round53 x)) 9223372036854775808%positive.

(** rand.Float64(): returns the value and the rest of the stream *)
Fixpoint float64_loop (fuel : nat) (raw : list N) : option (Q * list N) :=
  match fuel with
  | O => None
  | S f => match raw with
           | [] => None
           | x :: r => if round53 x =? two63 then float64_loop f r else Some (f64_of_int63 x, r)
           end
  end.
Definition float64 (raw : list N) : option (Q * list N) := float64_loop (length raw) raw.

(** ** draw plans *)
Inductive draw : Type :=
| DInt (bound : nat)      (* rand.Intn(bound) *)
| DFloat.                 (* rand.Float64(), e.g. inside gostats.Exp *)

(** one Float64 draw as seen by the judge: the position in the raw stream of the value that
    was finally used, and the float it became *)
Record fdraw : Type := mkF { fpos : nat; fval : Q }.

(** run a plan on the raw stream: the Intn results (the choice vector), the Float64 draws,
    the rest of the stream.  [pos] is the number of raw values consumed so far. *)
Fixpoint run_plan (plan : list draw) (pos : nat) (raw : list N)
  : option (list nat * list fdraw * list N) :=
  match plan with
  | [] => Some ([], [], raw)
  | DInt b :: ps =>
    match intn b raw with
    | Some (v, r) =>
      match run_plan ps (pos + (length raw - length r))%nat r with
      | Some (cs, fs, r') => Some (v :: cs, fs, r')
      | None => None
      end
    | None => None
    end
  | DFloat :: ps =>
    match float64 raw with
    | Some (u, r) =>
      let pos' := (pos + (length raw - length r))%nat in
      match run_plan ps pos' r with
      | Some (cs, fs, r') => Some (cs, mkF (pos' - 1) u :: fs, r')
      | None => None
      end
    | None => None
    end
  end.

Definition plan_bounds (plan : list draw) : list nat :=
  flat_map (fun d => match d with DInt b => [b] | DFloat => [] end) plan.
Definition plan_floats (plan : list draw) : nat :=
  length (filter (fun d => match d with DFloat => true | _ => false end) plan).
