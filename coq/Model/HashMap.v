(** Model of hashmap/hashmap.go: an array of buckets with open hashing and rehash on load.

    Keys are abstract: any type [K] with [hash : K -> N] (Hasher.HashCode, a uint64) and
    [eqb : K -> K -> bool] ([eqb q s] = q.HashEquals(s): the receiver is the key given to the
    operation, the argument the key stored in the bucket).  The load test
    "float64(total) >= float64(capacity)*loadfactor" is an arbitrary policy
    [need : nat -> N -> bool] (total, capacity).

    mapArray is a [list] of buckets whose length is the capacity; a nil bucket and an empty
    bucket are the same (the Go code never leaves a non-nil empty bucket).  An index outside the
    array is a Go run-time panic: every operation returns [option], [None] = panic.
    The RWMutex is not modelled (sequential histories).  No proofs in this file. *)
From Coq Require Import NArith Bool Arith List.
From GT Require Import Model.Index.
Import ListNotations.

(** in-place update of one array cell *)
Fixpoint upd_nth {A} (i : nat) (x : A) (l : list A) : list A :=
  match l, i with
  | [], _ => []
  | _ :: r, O => x :: r
  | y :: r, S i' => y :: upd_nth i' x r
  end.

(** mapArray[index]: [None] when the index is outside the array (Go panics).  Extensionally
    [nth_error l (N.to_nat i)]; the bound is tested on [N] first so that the extracted judge never
    builds a unary number of the size of a 64-bit hash. *)
Definition nthN {A} (l : list A) (i : N) : option A :=
  if (i <? N.of_nat (length l))%N then nth_error l (N.to_nat i) else None.

(** indexFor(hashcode, capacity) = hashcode & (capacity - 1)   (uint64: 0 - 1 wraps) *)
Definition index_for (h cap : N) : N := N.land h (w64 (cap + W64 - 1)).

Section HashMap.
  Variables K V : Type.
  Variable hash : K -> N.
  Variable eqb : K -> K -> bool.
  Variable need : nat -> N -> bool.

  Local Notation bucket := (list (K * V)) (only parsing).
  Record hmap : Type := mkHM { hm_arr : list bucket; hm_cap : N; hm_total : nat }.

  (** NewHashMap(size, loadfactor): if size == 0 { size = 1 }; make([]Bucket, size) *)
  Definition new_hashmap (size : N) : hmap :=
    let size := if N.eqb size 0 then 1%N else size in
    mkHM (repeat [] (N.to_nat size)) size 0.

  Definition slot_of (m : hmap) (k : K) : N := index_for (hash k) (hm_cap m).

  (** for _, kv := range bucket { if h.HashEquals(kv.Key) { return kv.Value, true } } *)
  Definition bucket_find (k : K) (b : bucket) : option (K * V) := find (fun kv => eqb k (fst kv)) b.

  (** HashMap.Value *)
  Definition value (m : hmap) (k : K) : option (option V) :=
    match nthN (hm_arr m) (slot_of m k) with
    | None => None
    | Some b => Some (match bucket_find k b with Some kv => Some (snd kv) | None => None end)
    end.

  (** the loop of PutValue: the first stored key equal to [k] gets the new value (the stored
      key object is kept); [None] when no stored key is equal *)
  Fixpoint bucket_set (k : K) (v : V) (b : bucket) : option bucket :=
    match b with
    | [] => None
    | (k', v') :: r =>
      if eqb k k' then Some ((k', v) :: r)
      else match bucket_set k v r with Some r' => Some ((k', v') :: r') | None => None end
    end.

  (** the loop of rehash: every entry, in bucket order, is appended to its new bucket *)
  Definition reinsert (newcap : N) (acc : option (list bucket)) (kv : K * V) : option (list bucket) :=
    match acc with
    | None => None
    | Some a =>
      let i := index_for (hash (fst kv)) newcap in
      match nthN a i with
      | None => None
      | Some b => Some (upd_nth (N.to_nat i) (b ++ [kv]) a)
      end
    end.

  (** HashMap.rehash: newcapacity := capacity * 2 (uint64) *)
  Definition rehash (m : hmap) : option hmap :=
    if need (hm_total m) (hm_cap m) then
      let newcap := w64 (hm_cap m * 2) in
      match fold_left (reinsert newcap) (concat (hm_arr m)) (Some (repeat [] (N.to_nat newcap))) with
      | None => None
      | Some a => Some (mkHM a newcap (hm_total m))
      end
    else Some m.

  (** HashMap.PutValue: overwrite without rehash, or append, total++ and rehash *)
  Definition put (m : hmap) (k : K) (v : V) : option hmap :=
    let i := slot_of m k in
    match nthN (hm_arr m) i with
    | None => None
    | Some b =>
      match bucket_set k v b with
      | Some b' => Some (mkHM (upd_nth (N.to_nat i) b' (hm_arr m)) (hm_cap m) (hm_total m))
      | None => rehash (mkHM (upd_nth (N.to_nat i) (b ++ [(k, v)]) (hm_arr m)) (hm_cap m) (S (hm_total m)))
      end
    end.

  (** HashMap.KeyValues / Keys: array order, bucket order *)
  Definition key_values (m : hmap) : list (K * V) := concat (hm_arr m).
  Definition keys (m : hmap) : list K := map fst (key_values m).

  (** * histories *)
  Inductive op : Type := OPut (k : K) (v : V) | OValue (k : K).
  Inductive ores : Type := RPut | RValue (r : option V).

  Fixpoint run (m : hmap) (ops : list op) : option (list ores * hmap) :=
    match ops with
    | [] => Some ([], m)
    | OPut k v :: r =>
      match put m k v with
      | None => None
      | Some m' => match run m' r with Some (rs, mf) => Some (RPut :: rs, mf) | None => None end
      end
    | OValue k :: r =>
      match value m k with
      | None => None
      | Some x => match run m r with Some (rs, mf) => Some (RValue x :: rs, mf) | None => None end
      end
    end.

  (** * the plain association list the map is meant to behave like *)
  Definition assoc : Type := list (K * V).
  Definition assoc_value (a : assoc) (k : K) : option V :=
    match bucket_find k a with Some kv => Some (snd kv) | None => None end.
  Definition assoc_put (a : assoc) (k : K) (v : V) : assoc :=
    match bucket_set k v a with Some a' => a' | None => a ++ [(k, v)] end.
  Fixpoint run_assoc (a : assoc) (ops : list op) : list ores * assoc :=
    match ops with
    | [] => ([], a)
    | OPut k v :: r => let '(rs, af) := run_assoc (assoc_put a k v) r in (RPut :: rs, af)
    | OValue k :: r => let '(rs, af) := run_assoc a r in (RValue (assoc_value a k) :: rs, af)
    end.
End HashMap.

Arguments mkHM {K V}.
Arguments hm_arr {K V}.
Arguments hm_cap {K V}.
Arguments hm_total {K V}.
Arguments OPut {K V}.
Arguments OValue {K V}.
Arguments RPut {V}.
Arguments RValue {V}.
