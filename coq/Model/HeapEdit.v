(** Heap-level models of further editing operations of /repo/tree (continuation of
    Model/Heap.v; same conventions: [HErr] = the Go error, [HPanic] = nil / out of range /
    unbounded recursion).  No proofs. *)
From Coq Require Import String ZArith QArith Bool Arith List.
From GT Require Import Base.UTree Model.Reroot Model.Heap.
Import ListNotations.
Local Close Scope Q_scope.
Local Open Scope string_scope.

(** ** node.go RotateNeighbors: for i := range n.neigh { j := rand.Intn(i+1);
       swap neigh[i],neigh[j]; swap br[i],br[j] }   ([cs] = the successive j) *)
Definition rotate_neighbors_heap (n : nat) (cs : list nat) (h : heap) : hres heap :=
  do hn <- get_node h n;
  if Nat.ltb (length (hbr hn)) (length (hneigh hn)) then HPanic        (* n.br[i] out of range *)
  else
    let k := length (hneigh hn) in
    HOk (set_node h n (mkHN (hname hn) (hcom hn) (fst (rotate_slots 0 k cs (hneigh hn)))
                            (fst (rotate_slots 0 k cs (hbr hn))))).

(** Tree.RotateInternalNodes: for _, n := range t.Nodes() { n.RotateNeighbors() }
    (the node list is taken before any rotation; each node consumes len(neigh) choices) *)
Fixpoint rotate_nodes_heap (ns : list nat) (cs : list nat) (h : heap) : hres heap :=
  match ns with
  | [] => HOk h
  | n :: r =>
    do hn <- get_node h n;
    let k := length (hneigh hn) in
    do h1 <- rotate_neighbors_heap n (firstn k cs) h;
    rotate_nodes_heap r (skipn k cs) h1
  end.
Definition rotate_internal_nodes_heap (cs : list nat) (h : heap) : hres heap :=
  do ns <- tree_nodes h; rotate_nodes_heap ns cs h.

(** what a buggy rotation would do: only the neigh array is permuted *)
Definition rotate_neigh_only (n : nat) (cs : list nat) (h : heap) : hres heap :=
  do hn <- get_node h n;
  let k := length (hneigh hn) in
  HOk (set_node h n (mkHN (hname hn) (hcom hn) (fst (rotate_slots 0 k cs (hneigh hn))) (hbr hn))).

(** ** Tree.RemoveEdges(removeRoot, removeTips, edges...): the branches are those of a list
    computed before the first contraction *)
Fixpoint remove_edges_heap (rr rt : bool) (es : list nat) (h : heap) : hres heap :=
  match es with
  | [] => HOk h
  | e :: r => do h1 <- remove_edge rr rt e h; remove_edges_heap rr rt r h1
  end.

(** ** the loop of Tree.RemoveTips over the tip snapshot: [tips] = (name, node id) of the tips
    to remove, in Tips() order (the selection by name is done by the caller) *)
Fixpoint remove_tips_heap (tips : list (string * nat)) (h : heap) : hres heap :=
  match tips with
  | [] => HOk h
  | (nm, t) :: r => do h1 <- remove_tip_heap nm t h; remove_tips_heap r h1
  end.

(** ** tree/rearrange.go: newNNI, nni.Apply, nni.Undo *)
Record hnni : Type := mkHNNI {
  q_n1 : nat; q_n2 : nat; q_n11 : nat; q_n12 : nat; q_n21 : nat; q_n22 : nat; q_cross : bool }.

(** NodeIndex with the error dropped (-1): (idx+1)%3 and (idx+2)%3 *)
Definition idx_plus (o : option nat) (d : nat) : nat :=
  match o with Some i => Nat.modulo (i + d) 3 | None => Nat.modulo (d - 1) 3 end.

Definition new_nni_heap (h : heap) (n1 n2 : nat) (cross : bool) : hres hnni :=
  do h1 <- get_node h n1;
  do h2 <- get_node h n2;
  let n2index := index_of n2 (hneigh h1) in
  do n11 <- nth_res (hneigh h1) (idx_plus n2index 1);
  do n12 <- nth_res (hneigh h1) (idx_plus n2index 2);
  let n1index := index_of n1 (hneigh h2) in
  do n21 <- nth_res (hneigh h2) (idx_plus n1index 1);
  do n22 <- nth_res (hneigh h2) (idx_plus n1index 2);
  HOk (mkHNNI n1 n2 n11 n12 n21 n22 cross).

Definition node_index_msg (h : heap) (n next : nat) (msg : string) : hres nat :=
  do hn <- get_node h n;
  match index_of next (hneigh hn) with Some i => HOk i | None => HErr msg end.

(** the common body of Apply (x = n1, y = n2, moved neighbours xm = n1_2, ym = n22node) and
    Undo (the same statements with x-side index looked up for the node now attached there):
      ixm = x.NodeIndex(xm)  imx = xm.NodeIndex(x)  iym = y.NodeIndex(ym)  imy = ym.NodeIndex(y)
      e1 = x.br[ixm]; e2 = y.br[iym]
      if <flip test> { n1.br[n1n2index].Inverse() }
      x.br[ixm] = e2; y.br[iym] = e1; x.neigh[ixm] = ym; ym.neigh[imy] = x; y.neigh[iym] = xm; xm.neigh[imx] = y
      if e1.left == n1 { e1.left = n2 } else { e1.right = n2 }
      if e2.left == n2 { e2.left = n1 } else { e2.right = n1 } *)
Definition set_end (h : heap) (e old new : nat) : hres heap :=
  do ed <- get_edge h e;
  HOk (set_edge h e (if Nat.eqb (hleft ed) old then mkHE new (hright ed) (hinfo ed)
                     else mkHE (hleft ed) new (hinfo ed))).

Definition nni_apply_heap (q : hnni) (h : heap) : hres heap :=
  let n1 := q_n1 q in let n2 := q_n2 q in
  do hn1 <- get_node h n1;
  let n1n2index := index_of n2 (hneigh hn1) in     (* the error is overwritten, execution goes on *)
  do n12index <- node_index_msg h n1 (q_n12 q) "Cannot apply NNI with unconnected nodes n1 n1_2";
  do n1index <- node_index_msg h (q_n12 q) n1 "Cannot apply NNI with unconnected nodes n1_2 n1";
  let n22node := if q_cross q then q_n21 q else q_n22 q in
  do n22index <- node_index_msg h n2 n22node "Cannot apply NNI with unconnected nodes n1 n2_1";
  do n2index <- node_index_msg h n22node n2 "Cannot apply NNI with unconnected nodes n2_1 n2";
  do e1 <- br_at h n1 n12index;
  do e2 <- br_at h n2 n22index;
  do ed1 <- get_edge h e1;
  do ed2 <- get_edge h e2;
  (* since the fix "NNI Apply left the central branch wrongly oriented when the tree had been
     re-rooted into the clade that moves to n1": e1.Right() == n1 || e2.Right() == n2 *)
  do h <- (if Nat.eqb (hright ed1) n1 || Nat.eqb (hright ed2) n2 then
             match n1n2index with
             | Some i => do ec <- br_at h n1 i; do edc <- get_edge h ec; HOk (set_edge h ec (flip edc))
             | None => HPanic
             end
           else HOk h);
  do h <- set_br_at h n1 n12index e2;
  do h <- set_br_at h n2 n22index e1;
  do h <- set_neigh_at h n1 n12index n22node;
  do h <- set_neigh_at h n22node n2index n1;
  do h <- set_neigh_at h n2 n22index (q_n12 q);
  do h <- set_neigh_at h (q_n12 q) n1index n2;
  do h <- set_end h e1 n1 n2;
  set_end h e2 n2 n1.

Definition nni_undo_heap (q : hnni) (h : heap) : hres heap :=
  let n1 := q_n1 q in let n2 := q_n2 q in
  do hn1 <- get_node h n1;
  let n1n2index := index_of n2 (hneigh hn1) in
  do n12index <- node_index_msg h n2 (q_n12 q) "Cannot apply NNI with unconnected nodes n2 n1_2";
  do n2index <- node_index_msg h (q_n12 q) n2 "Cannot apply NNI with unconnected nodes n1_2 n2";
  let n11node := if q_cross q then q_n21 q else q_n22 q in
  do n11index <- node_index_msg h n1 n11node "Cannot apply NNI with unconnected nodes n1 n2_1";
  do n1index <- node_index_msg h n11node n1 "Cannot apply NNI with unconnected nodes n2_1 n1";
  do e1 <- br_at h n1 n11index;
  do e2 <- br_at h n2 n12index;
  do ed1 <- get_edge h e1;
  do ed2 <- get_edge h e2;
  (* since the fix "NNI Undo left the central branch wrongly oriented when the tree had been
     re-rooted into the clade moved by Apply": e2.Right() == n2 || e1.Right() == n1 *)
  do h <- (if Nat.eqb (hright ed2) n2 || Nat.eqb (hright ed1) n1 then
             match n1n2index with
             | Some i => do ec <- br_at h n1 i; do edc <- get_edge h ec; HOk (set_edge h ec (flip edc))
             | None => HPanic
             end
           else HOk h);
  do h <- set_br_at h n1 n11index e2;
  do h <- set_br_at h n2 n12index e1;
  do h <- set_neigh_at h n1 n11index (q_n12 q);
  do h <- set_neigh_at h (q_n12 q) n2index n1;
  do h <- set_neigh_at h n2 n12index n11node;
  do h <- set_neigh_at h n11node n1index n2;
  do h <- set_end h e1 n1 n2;
  set_end h e2 n2 n1.
