(** A seeded variant of FBP's `seterr` (Model/PoolErr.v, mutex hand-over) written with a guard
    clause:   errmux.Lock(); if err != nil { return }; err = e; errmux.Unlock()
    — the early return leaves errmux LOCKED (the worker itself still runs its deferred
    wg.Done()).  Everything else is the mutex hand-over of Model/PoolErr.v.
    No proofs in this file. *)
From Coq Require Import Bool Arith List.
From GT Require Import Model.Pool Model.PoolErr.
Import ListNotations.

Section Guard.
  Variables (job err : Type).
  Variable fails : job -> bool.
  Variable e_of : job -> err.

  Definition gworker_step (s : est job err) (i : nat) : est job err :=
    match nth_error (ews job err s) i, efirst job err s with
    | Some (ECrit j), Some _ =>
      (* err != nil: return without Unlock; the deferred Done runs *)
      mkE job err (epending job err s) (eclosed job err s) (equeue job err s)
          (set_nth i EExited (ews job err s)) (emutex job err s) (efirst job err s) (echan job err s)
    | _, _ => eworker_step job err fails e_of ByMutex s i
    end.

  Definition gstep (s : est job err) (a : nat) : est job err :=
    match a with 0 => eproducer_step job err s | S i => gworker_step s i end.
  Definition grun (sched : list nat) (s : est job err) : est job err := fold_left gstep sched s.
End Guard.
