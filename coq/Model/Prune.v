(** Model of tree/tree.go: Tree.RemoveTips (l.259) and Tree.removeTip (l.294).  No proofs here.

    Go walks the tip list computed BEFORE the first removal ([tips t], pre-order) and, for
    every tip whose name is selected, calls removeTip, which
      - detaches the tip from its neighbour [internal] (delNeighbor: the slot disappears);
      - Case 1: [internal] is left with one neighbour: while it is not the root it is deleted
        in turn (its parent becomes [internal]); if the root is left with one neighbour
        (Case 1b) that neighbour becomes the root and loses its parent slot;
      - Case 2: [internal] is left with two neighbours n1,n2: it is suppressed, ConnectNodes
        appends the new branch at the END of both neighbour arrays; length
        max(0,l1)+max(0,l2) when one of them is present, support max(s1,s2) only when both
        ends are inner nodes; when [internal] is the root (both branches point away from it)
        the first of n1,n2 that is not a tip becomes the root; errors otherwise;
      - Case 3: nothing.
    Orientation tests ([b1.left == n1], [b2.right == n2]) are structural here: the parent is
    the [None] slot.  Tips are addressed by name (tip names are unique whenever
    Tree.ReinitIndexes succeeded: UpdateTipIndex refuses duplicates). *)
From Coq Require Import String ZArith QArith Bool Arith List.
From GT Require Import Base.UTree Model.Reroot.
Import ListNotations.
Local Close Scope Q_scope.
Local Open Scope string_scope.

(** delNeighbor(child in slot k) *)
Definition remove_nth {A} (k : nat) (l : list A) : list A := firstn k l ++ skipn (S k) l.

(** child.delNeighbor(old parent); ConnectNodes(newparent, child): the parent slot moves to
    the end of neigh *)
Definition reparent (t : utree) : utree :=
  match t with UNode n c sl => UNode n c (drop_up sl ++ [None]) end.

(** the branch made by Case 2 from the two branches b1,b2 of the suppressed node;
    [inner1],[inner2]: len(n1.neigh) > 1, len(n2.neigh) > 1 after reconnection. *)
Definition merge_edge (e1 e2 : einfo) (inner1 inner2 : bool) : einfo :=
  mkE (if negb (qeqb (elen e1) nilv) || negb (qeqb (elen e2) nilv)
       then (qmax 0%Q (elen e1) + qmax 0%Q (elen e2))%Q else nilv)
      (if (negb (qeqb (esup e1) nilv) || negb (qeqb (esup e2) nilv)) && inner1 && inner2
       then qmax (esup e1) (esup e2) else nilv)
      nilv [].

(** what happened to a (non-root) subtree in which the tip was searched *)
Inductive outcome : Type :=
| ONotFound                        (* the tip is not below this node *)
| OKeep (t : utree)                (* the surgery ended below: the node stays in its slot *)
| OGone                            (* the node itself was deleted (the tip, or a Case 1 chain node) *)
| OSplice (e : einfo) (c : utree)  (* Case 2: the node was suppressed; c (through e) must be connected to the parent *)
| OFail (msg : string).

Definition err_not_root (tip : string) : string :=
  "The tree root is not the internal node, but it should be, while removing tip " ++ tip.
Definition err_orient (tip : string) : string :=
  "Branches of internal node are not oriented as they should be while removing tip " ++ tip.
Definition err_no_root (tip : string) : string :=
  "After removing the tip " ++ tip ++ " connected to the root, RemoveTip could not find a new node to set as a root (the children of the root are either tips or single nodes). You can run gotree collapse single or call RemoveSingleNodes.".
Definition err_two_tips (tip : string) : string :=
  "The tree after tip removal is only made of two tips after removing tip " ++ tip.
Definition err_not_neighbor : string := "The Node is not in the neighbors of node".
Definition err_not_tip (nm : string) : string := "The node named " ++ nm ++ " is not a tip".
Definition err_malformed : string := "model: malformed tree".

(** a non-root node after one of its slots was deleted: Case 1 loop / Case 2 / Case 3 *)
Definition after_del_sub (tip n : string) (c : list string) (sl : list slot) : outcome :=
  match sl with
  | [_] => OGone
  | [None; Some (e, ch)] => OSplice e ch
  | [Some (e, ch); None] => OSplice e ch
  | [Some _; Some _] => OFail (err_not_root tip)
  | [None; None] => OFail (err_orient tip)
  | _ => OKeep (UNode n c sl)
  end.

(** the root after one of its slots was deleted: Case 1b / Case 2 sub-case 3 / Case 3 *)
Definition after_del_root (tip n : string) (c : list string) (sl : list slot) : res utree :=
  match sl with
  | [Some (_, UNode n' c' sl')] => Ok (UNode n' c' (drop_up sl'))
  | [Some (e1, c1); Some (e2, c2)] =>
    let d1 := degree c1 - 1 in          (* len(n1.neigh) after n1.delNeighbor(internal) *)
    let d2 := degree c2 - 1 in
    let e' := merge_edge e1 e2 (Nat.ltb 1 (degree c1)) (Nat.ltb 1 (degree c2)) in
    if Nat.ltb 1 d1 then Ok (UNode (uname c1) (ucom c1) (drop_up (uslots c1) ++ [Some (e', reparent c2)]))
    else if Nat.ltb 1 d2 then Ok (UNode (uname c2) (ucom c2) (drop_up (uslots c2) ++ [Some (e', reparent c1)]))
    else if Nat.eqb d2 1 || Nat.eqb d1 1 then Err (err_no_root tip)
    else Err (err_two_tips tip)
  | [None] | [None; _] | [_; None] => Err err_malformed
  | _ => Ok (UNode n c sl)
  end.

(** first slot (pre-order) below which [f] finds something *)
Definition first_hit (f : utree -> outcome) : nat -> list slot -> option (nat * einfo * outcome) :=
  fix go (i : nat) (l : list slot) : option (nat * einfo * outcome) :=
    match l with
    | [] => None
    | None :: r => go (S i) r
    | Some (e, ch) :: r =>
      match f ch with
      | ONotFound => go (S i) r
      | o => Some (i, e, o)
      end
    end.

(** the node [ch] seen from its parent: the tip itself, or search below *)
Definition hit (nm : string) (below : utree -> outcome) (ch : utree) : outcome :=
  if is_tip ch && String.eqb (uname ch) nm then OGone else below ch.

(** the parent's side of Case 2 (dir1 && dir2, or neither): delNeighbor(internal) then
    ConnectNodes(parent, child) *)
Definition splice (sl : list slot) (i : nat) (e ec : einfo) (cc : utree) : list slot :=
  remove_nth i sl ++ [Some (merge_edge e ec (Nat.ltb 1 (length sl)) (Nat.ltb 1 (degree cc)), reparent cc)].

Fixpoint rm_sub (nm : string) (t : utree) : outcome :=
  match t with
  | UNode n c sl =>
    match first_hit (hit nm (fun ch => rm_sub nm ch)) 0 sl with
    | None => ONotFound
    | Some (i, e, o) =>
      match o with
      | ONotFound => ONotFound
      | OKeep ch' => OKeep (UNode n c (set_nth i (Some (e, ch')) sl))
      | OGone => after_del_sub nm n c (remove_nth i sl)
      | OSplice ec cc => OKeep (UNode n c (splice sl i e ec cc))
      | OFail m => OFail m
      end
    end
  end.

(** Tree.removeTip(tip), tip = the first node of Tips() with that name *)
Definition remove_tip (nm : string) (t : utree) : res utree :=
  match t with
  | UNode n c sl =>
    if is_tip t && String.eqb n nm then Err err_not_neighbor   (* internal = tip.br[0].left = tip *)
    else
    match first_hit (hit nm (rm_sub nm)) 0 sl with
    | None => Err (err_not_tip nm)
    | Some (i, e, o) =>
      match o with
      | ONotFound => Err (err_not_tip nm)
      | OKeep ch' => Ok (UNode n c (set_nth i (Some (e, ch')) sl))
      | OGone => after_del_root nm n c (remove_nth i sl)
      | OSplice ec cc => Ok (UNode n c (splice sl i e ec cc))
      | OFail m => Err m
      end
    end
  end.

Definition name_in (nm : string) (names : list string) : bool := existsb (String.eqb nm) names.

(** (!revert && ok) || (revert && !ok) *)
Definition selected (revert : bool) (names : list string) (nm : string) : bool :=
  if revert then negb (name_in nm names) else name_in nm names.

(** len(tip.neigh) == 1 for the listed tip *)
Definition has_tip (nm : string) (t : utree) : bool :=
  existsb (fun x => is_tip x && String.eqb (uname x) nm) (nodes t).

Fixpoint remove_loop (revert : bool) (names : list string) (todo : list string) (t : utree) : res utree :=
  match todo with
  | [] => Ok t
  | nm :: r =>
    if negb (has_tip nm t) then Err (err_not_tip nm)
    else if selected revert names nm then
      match remove_tip nm t with
      | Ok t' => remove_loop revert names r t'
      | Err m => Err m
      end
    else remove_loop revert names r t
  end.

Fixpoint has_dup (l : list string) : bool :=
  match l with
  | [] => false
  | x :: r => name_in x r || has_dup r
  end.

Definition err_dup_tips : string := "Cannot create a tip index when several tips have the same name".

(** Tree.UpdateTipIndex(): the table is rebuilt from Tips(); refused when two tips share a name *)
Definition update_tip_index (t : utree) : res (list string) :=
  if has_dup (tip_names t) then Err err_dup_tips else Ok (tip_names t).

(** Tree.RemoveTips(revert, names...): the loop, then UpdateTipIndex (since the fix "RemoveTips
    left the tip name index stale"), whose error is returned, then ReinitInternalIndexes *)
Definition remove_tips (revert : bool) (names : list string) (t : utree) : res utree :=
  match remove_loop revert names (tip_names t) t with
  | Ok t' => match update_tip_index t' with Ok _ => Ok t' | Err m => Err m end
  | Err m => Err m
  end.

(** Tree.tipIndex after a successful RemoveTips: the names of the tips of the pruned tree.
    (Before the fix the table was the one computed before the call: [orig].) *)
Definition tip_index_after (orig : list string) (t' : utree) : list string := tip_names t'.
