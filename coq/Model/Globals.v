(** Package-level variables of the library packages (generated table: Gen/Globals.v) and the model of
    threads that run operations on their own trees.

    Go has no ambient mutable state other than package-level variables (and what the runtime and the
    standard library keep: the global math/rand source is modelled separately, Model/Rand.v).  A
    function that refers to no shared package-level variable can only reach storage through its
    arguments, which is what the purely functional models of the tree operations assume. *)
From Coq Require Import String Bool Arith List.
Import ListNotations.
Local Open Scope string_scope.

Record gvar : Type := mkG {
  gpkg : string;            (* package directory relative to /repo *)
  gname : string;
  gtyp : string;
  grefish : bool;           (* the type can alias storage: slice, map, pointer, channel, func, interface, aggregate of those *)
  grefs : list string;      (* functions (file:name) that refer to it, init and initialisers excluded *)
  gwrites : list string     (* functions that assign it, ++/--, range into it, or take its address *)
}.

Definition nonempty {A} (l : list A) : bool := match l with [] => false | _ => true end.

(** state that outlives a call and that two callers can reach: written after initialisation, or of an
    aliasing type and handed out to some function *)
Definition shared (g : gvar) : bool := nonempty (gwrites g) || (grefish g && nonempty (grefs g)).

(** reviewed shared variables: (package, name).  None at the pinned commit: the only package-level
    variables of the library packages are the two lexers' [eof] runes, never written. *)
Definition reviewed_globals : list (string * string) := [].

Definition is_reviewed (g : gvar) : bool :=
  existsb (fun r => String.eqb (fst r) (gpkg g) && String.eqb (snd r) (gname g)) reviewed_globals.

Definition in_pkgs (pk : list string) (g : gvar) : bool := existsb (String.eqb (gpkg g)) pk.

Definition unreviewed_shared (pk : list string) (gs : list gvar) : list gvar :=
  filter (fun g => in_pkgs pk g && shared g && negb (is_reviewed g)) gs.

(** * threads working on their own data
    [L]: what a thread owns (its trees, its result).  [G]: the shared store (the package-level
    variables).  A thread's step sees and may change both. *)
Section Threads.
  Variables L G : Type.
  Variable step : nat -> L -> G -> L * G.

  Definition upd (f : nat -> L) (i : nat) (l : L) : nat -> L := fun j => if Nat.eqb j i then l else f j.

  (** one scheduling decision: thread i runs one step *)
  Definition sched1 (st : (nat -> L) * G) (i : nat) : (nat -> L) * G :=
    let '(l', g') := step i (fst st i) (snd st) in (upd (fst st) i l', g').

  Definition run (sch : list nat) (st : (nat -> L) * G) : (nat -> L) * G := fold_left sched1 sch st.

  (** thread i alone, k steps, the shared store never changing *)
  Fixpoint alone (i : nat) (k : nat) (l : L) (g : G) : L :=
    match k with 0 => l | S k' => alone i k' (fst (step i l g)) g end.

  (** the step of every thread neither writes the shared store nor depends on it *)
  Definition local_only : Prop :=
    forall i l g, snd (step i l g) = g /\ forall g', fst (step i l g) = fst (step i l g').
End Threads.
