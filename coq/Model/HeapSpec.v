(** Tree-level readings of heap operations that have no general model elsewhere.
    GraftTipOnEdge(n, e) (tree/tree.go:854): the branch l -e-> c becomes
    l -e/2-> [TreeGen.graft_node] (tip through a branch of length 1, c through a branch of
    length e/2).  [ugrafts tip t] lists the results for every branch of [t] in Edges() order,
    exactly as [TreeGen.grafts] does for AllTopologies (there with NIL lengths).  No proofs. *)
From Coq Require Import String ZArith QArith Bool Arith List.
From GT Require Import Base.UTree Model.Reroot Model.TreeGen Model.Heap.
Import ListNotations.
Local Close Scope Q_scope.

Definition halve_e (e : einfo) : einfo := mkE (half (elen e)) (esup e) (epv e) (ecom e).
Definition graft_slot (tip : utree) (e : einfo) (ch : utree) : slot :=
  Some (halve_e e, graft_node (mkE 1%Q nilv nilv []) (mkE (half (elen e)) nilv nilv []) tip ch).

Definition ugrafts_slots (ugrafts : utree -> list utree) (tip : utree) (n : string) (c : list string) :
  list slot -> list slot -> list utree :=
  fix go (pre : list slot) (l : list slot) : list utree :=
    match l with
    | [] => []
    | None :: r => go (pre ++ [None]) r
    | Some (e, ch) :: r =>
      UNode n c (pre ++ graft_slot tip e ch :: r)
      :: map (fun ch' => UNode n c (pre ++ Some (e, ch') :: r)) (ugrafts ch)
      ++ go (pre ++ [Some (e, ch)]) r
    end.

Fixpoint ugrafts (tip : utree) (t : utree) : list utree :=
  match t with
  | UNode n c sl =>
    (fix go (pre : list slot) (l : list slot) : list utree :=
       match l with
       | [] => []
       | None :: r => go (pre ++ [None]) r
       | Some (e, ch) :: r =>
         UNode n c (pre ++ graft_slot tip e ch :: r)
         :: map (fun ch' => UNode n c (pre ++ Some (e, ch') :: r)) (ugrafts tip ch)
         ++ go (pre ++ [Some (e, ch)]) r
       end) [] sl
  end.

(** graft a new tip named [name] on the k-th branch (Edges() order) *)
Definition ugraft (name : string) (k : nat) (t : utree) : option utree :=
  nth_error (ugrafts (UNode name [] [None]) t) k.
