(** Tree-level readings of heap operations that have no general model elsewhere.
    GraftTipOnEdge(n, e) (tree/tree.go:854): the branch l -e-> c becomes
    l -e/2-> [TreeGen.graft_node] (tip through a branch of length 1, c through a branch of
    length e/2).  [ugrafts tip t] lists the results for every branch of [t] in Edges() order,
    exactly as [TreeGen.grafts] does for AllTopologies (there with NIL lengths).  No proofs. *)
From Coq Require Import String ZArith QArith Bool Arith List.
From GT Require Import Base.UTree Model.Reroot Model.Prune Model.Collapse Model.TreeGen Model.NNI Model.Heap Model.HeapEdit Model.HeapEdit2.
From GT Require Model.LocalEdit Model.History.
Import ListNotations.
Local Close Scope Q_scope.

Definition halve_e (e : einfo) : einfo := mkE (half (elen e)) (esup e) (epv e) (ecom e).
Definition graft_slot (tip : utree) (e : einfo) (ch : utree) : slot :=
  Some (halve_e e, graft_node (mkE 1%Q nilv nilv []) (mkE (half (elen e)) nilv nilv []) tip ch).

Definition ugrafts_slots (ugrafts : utree -> list utree) (tip : utree) (n : string) (c : list string) :
  list slot -> list slot -> list utree :=
  fix go (pre : list slot) (l : list slot) : list utree :=
    match l with
    | [] => []
    | None :: r => go (pre ++ [None]) r
    | Some (e, ch) :: r =>
      UNode n c (pre ++ graft_slot tip e ch :: r)
      :: map (fun ch' => UNode n c (pre ++ Some (e, ch') :: r)) (ugrafts ch)
      ++ go (pre ++ [Some (e, ch)]) r
    end.

Fixpoint ugrafts (tip : utree) (t : utree) : list utree :=
  match t with
  | UNode n c sl =>
    (fix go (pre : list slot) (l : list slot) : list utree :=
       match l with
       | [] => []
       | None :: r => go (pre ++ [None]) r
       | Some (e, ch) :: r =>
         UNode n c (pre ++ graft_slot tip e ch :: r)
         :: map (fun ch' => UNode n c (pre ++ Some (e, ch') :: r)) (ugrafts tip ch)
         ++ go (pre ++ [Some (e, ch)]) r
       end) [] sl
  end.

(** graft a new tip named [name] on the k-th branch (Edges() order) *)
Definition ugraft (name : string) (k : nat) (t : utree) : option utree :=
  nth_error (ugrafts (UNode name [] [None]) t) k.

(** * a history alphabet at heap level: the operations whose refinement square is proved
    (Proofs/HeapHistory.v).  [HReroot] and [HUnroot] are History.OReroot / History.OUnroot;
    the branch-indexed operations address the k-th branch of Tree.Edges() (= the k-th edge id
    of the dump). *)
Inductive hop : Type :=
| HReroot (i : nat)                         (* Tree.Reroot(Nodes()[i]) *)
| HRerootNocheck (i : nat)                  (* reroot_nocheck(Nodes()[i]) *)
| HUnroot                                   (* Tree.UnRoot() *)
| HGraftTip (name : string) (k : nat)       (* GraftTipOnEdge(new tip "name", Edges()[k]) *)
| HRemoveEdge (rr rt : bool) (k : nat)      (* RemoveEdges(rr, rt, Edges()[k]) *)
| HNniApply (r : nni)                       (* newNNI(t, n1, n2, cross).Apply() for the positional proposal r *)
| HRemoveTip (nm : string)                  (* removeTip(the first tip of Tips() named nm) *)
| HRotate (cs : list nat)                   (* Tree.RotateInternalNodes() with the random choices cs *)
| HSort                                     (* Tree.SortNeighborsByTips() *)
| HRmSingle                                 (* Tree.RemoveSingleNodes() *)
| HNni (k : nat) (undo : bool)              (* the k-th proposal of NNIRearranger: Apply (, Undo)  (History.ONni) *)
| HRemoveEdges (rr rt : bool) (idx : list nat)   (* RemoveEdges(rr, rt, the branches of Edges() at the positions idx, in Edges() order) *)
| HCollapseLen (l : Q) (rr rt : bool)       (* Tree.CollapseShortBranches(l, rr, rt) *)
| HCollapseSup (s : Q) (rr : bool).         (* Tree.CollapseLowSupport(s, rr) *)

Local Open Scope string_scope.
Definition err_no_node : string := "The node is not part of the tree".
Definition err_no_branch : string := "model: no such branch".

Definition err_nni_heap : string := "model: the rearrangement is not applicable".


(** path of the first node (pre-order, below the root) that is a tip named [nm] *)
Definition find_go (f : utree -> option (list nat)) (nm : string) : nat -> list slot -> option (list nat) :=
  fix go (i : nat) (l : list slot) : option (list nat) :=
    match l with
    | [] => None
    | None :: r => go (S i) r
    | Some (e, ch) :: r =>
      if is_tip ch && String.eqb (uname ch) nm then Some [i]
      else match f ch with Some p => Some (i :: p) | None => go (S i) r end
    end.

Fixpoint find_sub (nm : string) (t : utree) : option (list nat) :=
  match t with UNode n c sl => find_go (fun ch => find_sub nm ch) nm 0 sl end.

(** the first tip of Tips() named [nm]: the root itself when it has a single neighbour *)
Definition find_tip (nm : string) (t : utree) : option (list nat) :=
  if is_tip t && String.eqb (uname t) nm then Some [] else find_sub nm t.

(** follow slot indexes from a node; the parent slot is not a way down *)
Fixpoint walk (h : heap) (prev : option nat) (cur : nat) (p : list nat) : hres nat :=
  match p with
  | [] => HOk cur
  | k :: q =>
    do hn <- get_node h cur;
    match nth_error (hneigh hn) k with
    | Some m => if opt_nat_eqb (Some m) prev then HErr err_nni_heap else walk h (Some cur) m q
    | None => HErr err_nni_heap
    end
  end.

(** the proposal [r] (path to n1, r_k = n1.NodeIndex(n2), r_j = n2.NodeIndex(n1), cross) made
    concrete on the heap, with the guard of NNIRearranger.Rearrange (both ends have 3
    neighbours, n1 = e.Left()), then Apply *)
Definition nni_apply_at (r : nni) (h : heap) : hres heap :=
  do n1 <- walk h None (hroot h) (r_path r);
  do hn1 <- get_node h n1;
  match nth_error (hneigh hn1) (r_k r), nth_error (hbr hn1) (r_k r) with
  | Some n2, Some ec =>
    do hn2 <- get_node h n2;
    do edc <- get_edge h ec;
    if Nat.eqb (length (hneigh hn1)) 3 && Nat.eqb (length (hneigh hn2)) 3 && Nat.eqb (hleft edc) n1 &&
       opt_nat_eqb (nth_error (hneigh hn2) (r_j r)) (Some n1)
    then do q <- new_nni_heap h n1 n2 (r_cross r); nni_apply_heap q h
    else HErr err_nni_heap
  | _, _ => HErr err_nni_heap
  end.

(** the nni object of the proposal [r], with the guard of Rearrange, as in [nni_apply_at] *)
Definition nni_pre (r : nni) (h : heap) : hres hnni :=
  do n1 <- walk h None (hroot h) (r_path r);
  do hn1 <- get_node h n1;
  match nth_error (hneigh hn1) (r_k r), nth_error (hbr hn1) (r_k r) with
  | Some n2, Some ec =>
    do hn2 <- get_node h n2;
    do edc <- get_edge h ec;
    if Nat.eqb (length (hneigh hn1)) 3 && Nat.eqb (length (hneigh hn2)) 3 && Nat.eqb (hleft edc) n1 &&
       opt_nat_eqb (nth_error (hneigh hn2) (r_j r)) (Some n1)
    then new_nni_heap h n1 n2 (r_cross r)
    else HErr err_nni_heap
  | _, _ => HErr err_nni_heap
  end.

(** Apply, then Undo on the same nni object when [undo] *)
Definition nni_apply_undo_at (r : nni) (undo : bool) (h : heap) : hres heap :=
  do q <- nni_pre r h;
  do h1 <- nni_apply_heap q h;
  if undo then nni_undo_heap q h1 else HOk h1.

(** the branches at the positions [idx] of Edges(), in Edges() order (what the Collapse*
    functions pass to RemoveEdges: a selection made while ranging over Edges()) *)
Definition ids_from (k : nat) (idx : list nat) (L : list nat) : list nat :=
  map snd (filter (fun p => existsb (Nat.eqb (fst p)) idx) (combine (seq k (length L)) L)).
Definition ids_at (idx : list nat) (L : list nat) : list nat := ids_from 0 idx L.

(** the branches in Edges() order, with their data and lower node *)
Fixpoint ledges (t : ltree) : list (nat * einfo * ltree) :=
  match t with
  | LNode _ _ _ sl => flat_map (fun s : lslot => match s with Some (x, xi, c) => (x, xi, c) :: ledges c | None => [] end) sl
  end.
Definition sledges (sl : list lslot) : list (nat * einfo * ltree) :=
  flat_map (fun s : lslot => match s with Some (x, xi, c) => (x, xi, c) :: ledges c | None => [] end) sl.
(** for _, e := range t.Edges() { if g(e) { selected = append(selected, e) } } *)
Definition ids_where (g : einfo -> bool) (lt : ltree) : list nat :=
  map (fun p => fst (fst p)) (filter (fun p : nat * einfo * ltree => g (snd (fst p))) (ledges lt)).

Definition run_hop_tree (o : hop) (t : utree) : res utree :=
  match o with
  | HReroot i => reroot t i
  | HRerootNocheck i => reroot t i
  | HUnroot => Ok (unroot t)
  | HGraftTip name k => match ugraft name k t with Some t' => Ok t' | None => Err err_no_branch end
  | HRemoveEdge rr rt k =>
    if Nat.ltb k (length (edges t)) then Ok (Collapse.remove_edges_idx rr rt [k] t) else Err err_no_branch
  | HNniApply r => match NNI.apply r t with Some t' => Ok t' | None => Err err_nni_heap end
  | HRemoveTip nm => Prune.remove_tip nm t
  | HRotate cs => Ok (fst (rotate_all t cs))
  | HSort => Ok (sort_by_tips t)
  | HRmSingle => Ok (LocalEdit.remove_single t)
  | HNni k undo => History.nni_step k undo t
  | HRemoveEdges rr rt idx => Ok (Collapse.remove_edges_idx rr rt idx t)
  | HCollapseLen l rr rt => Ok (Collapse.collapse_len l rr rt t)
  | HCollapseSup s rr => Ok (Collapse.collapse_sup s rr t)
  end.

Fixpoint run_tree (ops : list hop) (t : utree) : res utree :=
  match ops with
  | [] => Ok t
  | o :: r => match run_hop_tree o t with Ok t' => run_tree r t' | Err m => Err m end
  end.

Definition kth_edge (h : heap) (k : nat) : hres nat :=
  match dump h with
  | Some lt => match nth_error (leids lt) k with Some e => HOk e | None => HErr err_no_branch end
  | None => HPanic
  end.

Definition run_hop_heap (o : hop) (h : heap) : hres heap :=
  match o with
  | HReroot i =>
    do ns <- tree_nodes h;
    match nth_error ns i with Some n => reroot_heap n h | None => HErr err_no_node end
  | HRerootNocheck i =>
    do ns <- tree_nodes h;
    match nth_error ns i with Some n => reroot_nocheck_heap n h | None => HErr err_no_node end
  | HUnroot => unroot_heap h
  | HGraftTip name k =>
    do e <- kth_edge h k;
    do r <- graft_new_tip name e h;
    HOk (snd r)
  | HRemoveEdge rr rt k => do e <- kth_edge h k; remove_edge rr rt e h
  | HNniApply r => nni_apply_at r h
  | HRemoveTip nm =>
    match abs h with
    | Some t =>
      match find_tip nm t with
      | Some P => do x <- walk h None (hroot h) P; remove_tip_heap nm x h
      | None => HErr (Prune.err_not_tip nm)
      end
    | None => HPanic
    end
  | HRotate cs => rotate_internal_nodes_heap cs h
  | HSort => sort_neighbors_by_tips_heap h
  | HRmSingle => remove_single_nodes_heap h
  | HNni k undo =>
    match abs h with
    | Some t =>
      match History.nni_pick k t with
      | Some r => nni_apply_undo_at r undo h
      | None => HOk h
      end
    | None => HPanic
    end
  | HRemoveEdges rr rt idx =>
    match dump h with
    | Some lt => remove_edges_heap rr rt (ids_at idx (leids lt)) h
    | None => HPanic
    end
  | HCollapseLen l rr rt =>
    match dump h with
    | Some lt => remove_edges_heap rr rt (ids_where (Collapse.sel_len l) lt) h
    | None => HPanic
    end
  | HCollapseSup s rr =>
    match dump h with
    | Some lt => remove_edges_heap rr false (ids_where (Collapse.sel_sup s) lt) h
    | None => HPanic
    end
  end.

Fixpoint run_heap (ops : list hop) (h : heap) : hres heap :=
  match ops with
  | [] => HOk h
  | o :: r => do h1 <- run_hop_heap o h; run_heap r h1
  end.
