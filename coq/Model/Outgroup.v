(** Model of tree/algo.go: RerootOutGroup (+ LeastCommonAncestorUnrooted,
    LeastCommonAncestorRecur, NewNodeIndex) and RerootMidPoint (+ MaxLengthPath).
    No proofs in this file.

    Device used by both models.  Both Go functions start a recursion "from a tip": the LCA
    search starts at [temproot.neigh[0]] with [prev = nil] (so it visits every neighbour of
    that node, the temporary root tip included), MaxLengthPath starts at a tip [a] and
    immediately moves to [a.neigh[0]].  A recursion over (current, prev) that follows
    [neigh] in order is the plain top-down recursion over the model tree re-rooted at the
    start node, because re-rooting ([reroot_path]) moves no entry of any neigh[] array: it only
    changes which slot of each node is the parent slot.  So the model
      1. unroots ([unroot], as t.UnRoot()),
      2. looks at the tree from the node A next to the chosen tip ([view_from]: the tree
         rooted at A, the slot of the tip in A, and the path from A to the root that Go's
         tree still has -- Edge.Left()/Right() are relative to that root),
      3. runs the recursion top-down, does the surgery at the branch that is found,
      4. re-roots at the inserted node (t.Reroot / reroot_nocheck).
    The final structure (ordered neighbour arrays + root) does not depend on the rooting
    used in between.  Domain: well-formed trees whose root has at least two neighbours. *)
From Coq Require Import String ZArith QArith Bool Arith List.
From GT Require Import Base.UTree Spec.Obs Model.Reroot.
Import ListNotations.
Local Close Scope Q_scope.
Local Open Scope string_scope.

(** ** list and path helpers *)
Definition remove_nth {A} (k : nat) (l : list A) : list A := (firstn k l ++ skipn (S k) l)%list.

(** index of the parent slot *)
Fixpoint up_index (sl : list slot) : nat :=
  match sl with
  | [] => 0
  | None :: _ => 0
  | _ :: r => S (up_index r)
  end.

Fixpoint is_prefix (a b : list nat) : bool :=
  match a, b with
  | [], _ => true
  | x :: a', y :: b' => Nat.eqb x y && is_prefix a' b'
  | _, _ => false
  end.

(** apply [f] to the node at path [p] *)
Fixpoint update_at (p : list nat) (f : utree -> option utree) (t : utree) : option utree :=
  match p with
  | [] => f t
  | k :: r =>
    match t with
    | UNode n c sl =>
      match nth_error sl k with
      | Some (Some (e, ch)) =>
        match update_at r f ch with
        | Some ch' => Some (UNode n c (set_nth k (Some (e, ch')) sl))
        | None => None
        end
      | _ => None
      end
    end
  end.

(** the branch stored in slot [k] *)
Definition edge_at (t : utree) (k : nat) : option einfo :=
  match nth_error (uslots t) k with Some (Some (e, _)) => Some e | _ => None end.

(** parent-slot indexes of the nodes at depth 1, 2, ... along [q] *)
Fixpoint ups (t : utree) (q : list nat) : list nat :=
  match q with
  | [] => []
  | k :: r => match nth_error (uslots t) k with
              | Some (Some (_, c)) => up_index (uslots c) :: ups c r
              | _ => []
              end
  end.

(** ** the tree seen from the neighbour of a tip *)
Record tipview : Type := mkView {
  tv_tree : utree;        (* the tree rooted at A = tip.neigh[0] *)
  tv_slot : nat;          (* index of the tip in A.neigh *)
  tv_root : list nat      (* path from A to the node that is Go's t.root: the branches on this
                             path are the ones whose Left() is their lower end in [tv_tree] *)
}.

Definition view_from (t1 : utree) (q : list nat) : option tipview :=
  match q with
  | [] => None             (* the tip is the root itself: outside the domain *)
  | _ :: _ =>
    let q' := removelast q in
    match reroot_path t1 q' with
    | Some t2 => Some (mkView t2 (last q 0) (rev (ups t1 q')))
    | None => None
    end
  end.

(** Tree.Tips() with the path of every tip *)
Definition tip_paths (t : utree) : list (list nat * utree) :=
  filter (fun pn => is_tip (snd pn)) (combine (paths t) (nodes t)).

(** ** insertion of a new node in the middle of a branch
    Go:  lnode.delNeighbor(rnode); rnode.delNeighbor(lnode);
         ConnectNodes(new, first); ConnectNodes(new, second)
    seen from the upper end P of the branch (slot k leads to the lower end c): P loses slot k
    and gets the new node appended; c loses its parent slot and gets the new node appended;
    new.neigh = [c; P] when [child_first], else [P; c].  [eP]/[eC]: data of the new branches
    towards P / towards c. *)
Definition cut_slot (k : nat) (child_first : bool) (eP eC : einfo) (P : utree) : option utree :=
  match P with
  | UNode n c sl =>
    match nth_error sl k with
    | Some (Some (_, UNode nc cc slc)) =>
      let c' := UNode nc cc (drop_up slc ++ [None])%list in
      let X := UNode "" [] (if child_first then [Some (eC, c'); None] else [None; Some (eC, c')]) in
      Some (UNode n c (remove_nth k sl ++ [Some (eP, X)])%list)
    | _ => None
    end
  end.

(** insert on the branch (node at [pp], slot [k]) and re-root at the inserted node *)
Definition cut_and_root (t2 : utree) (pp : list nat) (k : nat) (child_first : bool) (eP eC : einfo)
  : option utree :=
  match node_at t2 pp with
  | None => None
  | Some P =>
    match update_at pp (cut_slot k child_first eP eC) t2 with
    | None => None
    | Some t3 => reroot_path t3 (pp ++ [degree P - 1])%list
    end
  end.

(** ** NewNodeIndex: non-empty node names must be unique *)
Fixpoint has_dup (l : list string) : bool :=
  match l with
  | [] => false
  | x :: r => smem x r || has_dup r
  end.
Definition node_names (t : utree) : list string :=
  filter (fun s => negb (String.eqb s "")) (map uname (nodes t)).

Fixpoint dedup (l : list string) : list string :=
  match l with
  | [] => []
  | x :: r => if smem x r then dedup r else x :: dedup r
  end.

(** the keys of [tipindex]: requested names that are the name of a tip *)
Definition group (t1 : utree) (names : list string) : list string :=
  dedup (filter (fun x => negb (String.eqb x "") && smem x (map uname (tips t1))) names).

(** ** LeastCommonAncestorRecur(current, prev, tipIndex), top-down: [prev] is the parent slot.
    Result: found (path to the node, indexes in node.br of the returned edges, different)
    or not found (common, different). *)
Inductive lca_res : Type :=
| LFound (p : list nat) (es : list nat) (diff : nat)
| LNot (com diff : nat).

Fixpoint lca_rec (grp : list string) (k : nat) (t : utree) : lca_res :=
  match t with
  | UNode n _ sl =>
    let tip := Nat.eqb (length sl) 1 in
    let ing := tip && smem n grp in
    (fix go (i : nat) (l : list slot) (common : nat) (es : list nat) (different tmpdiff : nat) : lca_res :=
       match l with
       | [] => if Nat.eqb common k then LFound [] es different
               else LNot common (different + tmpdiff)
       | None :: r => go (S i) r common es different tmpdiff
       | Some (_, c) :: r =>
         match lca_rec grp k c with
         | LFound p es' d => LFound (i :: p) es' d
         | LNot com d =>
           if Nat.ltb 0 com then go (S i) r (common + com) (es ++ [i])%list (different + d) tmpdiff
           else go (S i) r common es different (tmpdiff + d)
         end
       end) 0 sl (if ing then 1 else 0) (if ing then [up_index sl] else [])
              (if tip && negb ing then 1 else 0) 0
  end.

(** first index of n.br that is not in [es] *)
Fixpoint first_not_in (es : list nat) (i n : nat) : option nat :=
  match n with
  | O => None
  | S n' => if existsb (Nat.eqb i) es then first_not_in es (S i) n' else Some i
  end.

(** the branch chosen by RerootOutGroup, as (path of the upper end, slot, "n is the lower end") *)
Definition root_edge (t2 : utree) (p : list nat) (es : list nat) : res (list nat * nat * bool) :=
  match node_at t2 p with
  | None => Err "model: bad path"
  | Some n =>
    let parent_edge : res (list nat * nat * bool) :=
        match p with
        | [] => Err "model: the root has no parent branch"
        | _ :: _ => Ok (removelast p, last p 0, true)
        end in
    if Nat.eqb (degree n) 1 then parent_edge
    else if negb (Nat.eqb (degree n - length es) 1)
         then Err "Reroot error: Several possible branches for root placement (multifurcated node)"
    else match first_not_in es 0 (degree n) with
         | None => Err "model: no free branch"
         | Some i =>
           match nth_error (uslots n) i with
           | Some None => parent_edge
           | Some (Some _) => Ok (p, i, false)
           | None => Err "model: no free branch"
           end
         end
  end.

Definition qhalf (x : Q) : Q := (x * (1 # 2))%Q.
Definition qltb (a b : Q) : bool := negb (Qle_bool b a).

(** Tree.RerootOutGroup(removeoutgroup, strict, tips...) *)
Definition reroot_outgroup (remove strict : bool) (t : utree) (names : list string) : res utree :=
  (* if len(t.Tips()) < 3 *)
  if Nat.ltb (length (tips t)) 3
  then Err "cannot reroot on an outgroup a tree with less than 3 tips" else
  let t1 := unroot t in
  if has_dup (node_names t1)
  then Err "NewNodeIndex error: Tree contains several node with the same name" else
  let grp := group t1 names in
  let k := length grp in
  if Nat.eqb k 0 then Err "none of the given tips are present in the tree" else
  match find (fun pn => negb (smem (uname (snd pn)) grp)) (tip_paths t1) with
  | None => Err "all tips of the tree given : Nothing to do"
  | Some (q, _) =>
    match view_from t1 q with
    | None => Err "model: tree rooted at a tip"
    | Some v =>
      let t2 := tv_tree v in
      if is_tip t2 then Err "model: two-node tree" else
      match lca_rec grp k t2 with
      | LNot _ _ => Err "model: no common ancestor"
      | LFound p es diff =>
        if negb (Nat.eqb diff 0) && strict
        then Err "the given outgroup is not monophyletic, cannot reroot" else
        match root_edge t2 p es with
        | Err m => Err m
        | Ok (pp, ks, n_is_lower) =>
          match node_at t2 pp with
          | None => Err "model: bad path"
          | Some P =>
            if remove then
              if n_is_lower then
                (* new root = upper end P without the outgroup subtree *)
                if Nat.ltb (degree P - 1) 2 then Err "Cannot reroot on a tip node" else
                match update_at pp (fun P => Some (UNode (uname P) (ucom P) (remove_nth ks (uslots P)))) t2 with
                | None => Err "model: bad path"
                | Some t3 => match reroot_path t3 pp with Some t4 => Ok t4 | None => Err "model: bad path" end
                end
              else
                (* new root = lower end, everything above is removed *)
                match nth_error (uslots P) ks with
                | Some (Some (_, UNode nc cc slc)) =>
                  if Nat.ltb (length (drop_up slc)) 2 then Err "Cannot reroot on a tip node"
                  else Ok (UNode nc cc (drop_up slc))
                | _ => Err "model: bad path"
                end
            else
              match edge_at P ks with
              | None => Err "model: bad path"
              | Some e =>
                (* halves "if length != NIL_LENGTH", support "if support != NIL_SUPPORT";
                   p-value and comments are not copied *)
                let ne := mkE (if qeqb (elen e) nilv then nilv else qhalf (elen e))
                              (if qeqb (esup e) nilv then nilv else esup e) nilv [] in
                (* root.neigh = [rootedge.Left(); rootedge.Right()] *)
                let reversed := is_prefix (pp ++ [ks])%list (tv_root v) in
                match cut_and_root t2 pp ks reversed ne ne with
                | Some t4 => Ok t4
                | None => Err "model: bad path"
                end
              end
          end
        end
      end
    end
  end.

(** ** MaxLengthPath(cur, prev), top-down: the path (slot indexes from [cur] downwards; Go keeps
    the branches in the opposite order; [[]] = nil) and its length; [None] = "some branches have
    no length".  A candidate is recorded when strictly longer than the current path, or when
    there is no path yet (`|| potentialedges == nil`), so a path always ends at a tip. *)
Definition no_path (p : list nat) : bool := match p with [] => true | _ => false end.
Fixpoint mlp (t : utree) : option (list nat * Q) :=
  match t with
  | UNode _ _ sl =>
    (fix go (i : nat) (l : list slot) (best : list nat) (cur : Q) : option (list nat * Q) :=
       match l with
       | [] => Some (best, cur)
       | None :: r => go (S i) r best cur
       | Some (e, c) :: r =>
         if qeqb (elen e) nilv then None else
         match mlp c with
         | None => None
         | Some (p, l') =>
           if qltb cur (l' + elen e)%Q || no_path best then go (S i) r (i :: p) (l' + elen e)%Q
           else go (S i) r best cur
         end
       end) 0 sl [] 0%Q
  end.

(** MaxLengthPath(tip, nil) through the view from the tip's neighbour A: the path goes from
    the tip to A and then down [p] (the single candidate of the tip is always taken) *)
Definition mlp_tip (v : tipview) : option (option (list nat) * Q) :=
  match tv_tree v with
  | UNode n c sl =>
    match nth_error sl (tv_slot v) with
    | Some (Some (e, _)) =>
      if qeqb (elen e) nilv then None else
      match mlp (UNode n c (set_nth (tv_slot v) None sl)) with
      | None => None
      | Some (p, l) => Some (Some p, (l + elen e)%Q)
      end
    | _ => None
    end
  end.

(** lengths of the branches along a path, top-down *)
Fixpoint path_edges (t : utree) (p : list nat) : list einfo :=
  match p with
  | [] => []
  | k :: r => match nth_error (uslots t) k with
              | Some (Some (e, c)) => e :: path_edges c r
              | _ => []
              end
  end.

(** for float64(len) < curlength/2.0 { ...; len += potentialedges[i].Length(); i++ } *)
Fixpoint walk (half : Q) (ls : list Q) (i : nat) (acc : Q) : nat * Q :=
  match ls with
  | [] => (i, acc)
  | x :: r => if qltb acc half then walk half r (S i) (acc + x)%Q else (i, acc)
  end.

Inductive mp_state : Type :=
| MPNone
| MPBest (v : tipview) (p : list nat).

(** Tree.RerootMidPoint() after t.UnRoot(), on a tree whose root has at least two neighbours *)
Definition reroot_midpoint_gen (t1 : utree) : res utree :=
  (* the longest of the longest paths from every tip, first one wins *)
  let scan :=
      fold_left (fun (st : res (mp_state * Q)) (pn : list nat * utree) =>
                   match st with
                   | Err m => Err m
                   | Ok (best, cur) =>
                     match view_from t1 (fst pn) with
                     | None => Err "model: tree rooted at a tip"
                     | Some v =>
                       match mlp_tip v with
                       | None => Err "some branches have no length"
                       | Some (op, l) =>
                         if qltb cur l
                         then Ok (match op with Some p => MPBest v p | None => best end, l)
                         else Ok (best, cur)
                       end
                     end
                   end) (tip_paths t1) (Ok (MPNone, 0%Q)) in
  match scan with
  | Err m => Err m
  | Ok (MPNone, _) => Err "cannot reroot at midpoint: all tip to tip paths have a null length"
  | Ok (MPBest v pA, curlength) =>
    let t2 := tv_tree v in
    let j := tv_slot v in
    match edge_at t2 j with
    | None => Err "model: bad view"
    | Some ea =>
      let m := length pA in
      (* potentialedges: from the far end towards the start tip *)
      let pe := (rev (path_edges t2 pA) ++ [ea])%list in
      let half := qhalf curlength in
      let '(i, len) := walk half (map elen pe) 0 0%Q in
      let idx := i - 1 in
      let ce := nth idx pe e0 in
      let cut := (len - half)%Q in
      let e1 := mkE (elen ce - cut)%Q (esup ce) nilv [] in     (* newroot -- node1 *)
      let e2 := mkE cut (esup ce) nilv [] in                  (* newroot -- node2 *)
      (* the far end of the path is Left() of its branch when it lies on the way from the start
         tip to Go's root; then node1/node2 are set once, the wrong way round, and never updated.
         Since MaxLengthPath always ends at a tip this cannot happen when the root has at least
         two neighbours (Proofs/OutgroupMidDist.v: not_stale); the case is kept because the walk
         of RerootMidPoint is written that way *)
      let stale := is_prefix pA (tv_root v) in
      let r :=
          if stale then
            match pA with
            | [] => cut_and_root t2 [] j true e2 e1                         (* node1 = tip, node2 = A *)
            | _ :: _ => cut_and_root t2 (removelast pA) (last pA 0) false e1 e2   (* node1 = parent of the far end *)
            end
          else if Nat.ltb idx m then
            let d := m - idx in                                  (* depth of the lower end *)
            cut_and_root t2 (firstn (d - 1) pA) (nth (d - 1) pA 0) true e2 e1
          else cut_and_root t2 [] j false e1 e2 in
      match r with
      | Some t4 => Ok t4
      | None => Err "model: bad path"
      end
    end
  end.

(** The only input (well-formed, root with two neighbours) that UnRoot leaves rooted at a tip is
    the rooted two-tip tree (a:x,b:y): UnRoot gives the one-branch tree b -- a, the first tip of
    Tips() is the root b itself, its longest path is the single branch (Left() = b, Right() = a),
    the walk stops after that branch and the new root is inserted in its middle:
    newroot.neigh = [a; b], lengths l - cut and cut with cut = l - l/2. *)
Definition midpoint_two (t1 : utree) : res utree :=
  match t1 with
  | UNode nb cb [Some (e3, UNode na ca [None])] =>
    if qeqb (elen e3) nilv then Err "some branches have no length"
    else if qltb 0 (elen e3) then
      let cut := (elen e3 - qhalf (elen e3))%Q in
      Ok (UNode "" [] [Some (mkE (elen e3 - cut)%Q (esup e3) nilv [], UNode na ca [None]);
                       Some (mkE cut (esup e3) nilv [], UNode nb cb [None])])
    else Err "cannot reroot at midpoint: all tip to tip paths have a null length"
  | _ => Err "model: tree rooted at a tip"
  end.

(** Tree.RerootMidPoint() *)
Definition reroot_midpoint (t : utree) : res utree :=
  let t1 := unroot t in
  if Nat.ltb (degree t1) 2 then midpoint_two t1 else reroot_midpoint_gen t1.
