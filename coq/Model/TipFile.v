(** Model of cmd/root.go parseStringFile / parseTipsFile (used by `gotree prune -f`) and Readln.
    No proofs here.  The split of the file into physical lines (and the removal of "\r\n" / "\n") is
    bufio.Reader.ReadLine's; Readln glues the pieces it returns for one long line; every line is
    split at the commas (strings.Split) and the pieces are appended. *)
From Coq Require Import String Ascii Bool Arith List.
Import ListNotations.
Local Open Scope string_scope.

(** strings.Split(line, sep) for a one-character separator *)
Fixpoint split_on (c : ascii) (s : string) : list string :=
  match s with
  | EmptyString => [EmptyString]
  | String a r =>
    if Ascii.eqb a c then EmptyString :: split_on c r
    else match split_on c r with
         | [] => [String a EmptyString]
         | h :: t => String a h :: t
         end
  end.

(** strings.Join *)
Fixpoint join (c : ascii) (l : list string) : string :=
  match l with
  | [] => EmptyString
  | [x] => x
  | x :: r => x ++ String c (join c r)
  end.

(** Readln: the pieces of one physical line are concatenated *)
Definition readln (pieces : list string) : string := fold_right String.append EmptyString pieces.

(** parseStringFile on the list of lines *)
Definition parse_lines (c : ascii) (lines : list string) : list string := flat_map (split_on c) lines.

Fixpoint has_char (c : ascii) (s : string) : bool :=
  match s with
  | EmptyString => false
  | String a r => Ascii.eqb a c || has_char c r
  end.

