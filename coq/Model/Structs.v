(** Named struct types of the library packages and their fields (generated table: Gen/Structs.v).

    The models fix the state of every object they speak about: Model/Heap.v mirrors the fields of
    tree.Tree, tree.Node and tree.Edge (neighbour and branch arrays, lengths, supports, comments; the
    derived fields depth, id, tipid, bitset, hash codes and taxon counts are the index tables of
    Model/Index*.v), the lexers and parsers are functions of the text, rearrangers and proposals are
    values computed from the tree, the hash map is an association list.  A field that is not in the
    table below is state the models do not have: a cache, a scratch buffer, a flag that survives a
    call.  [reviewed_structs] is the table at the pinned commit. *)
From Coq Require Import String Bool Arith List.
Import ListNotations.
Local Open Scope string_scope.

Record gstruct : Type := mkS {
  spkg : string;                       (* package directory relative to /repo *)
  sname : string;
  sfields : list (string * string)     (* field name, type *)
}.

Definition reviewed_structs : list gstruct := [
  mkS "asr" "AncestralSequence" [("seq", "[]asr.AncestralState")];
  mkS "asr" "AncestralState" [("counts", "[]float64")];
  mkS "download" "ItolImageDownloader" [("config", "map[string]string")];
  mkS "download" "NcbiTreeDownloader" [("server", "string"); ("path", "string"); ("tipstaxids", "bool"); ("nodestaxids", "bool"); ("mapfile", "string")];
  mkS "download" "PantherAnswer" [("Search", "download.PantherAnswerSearch")];
  mkS "download" "PantherAnswerAnnotationNode" [("SfID", "string"); ("PersistentID", "string"); ("BranchLength", "float64"); ("PropSfID", "string"); ("EventType", "string"); ("Species", "string"); ("TreeNodeType", "string"); ("TaxonomicRange", "string"); ("SfName", "string"); ("GeneSymbol", "string"); ("NodeName", "string"); ("Organism", "string"); ("Children", "download.PantherAnswerChildren")];
  mkS "download" "PantherAnswerChildren" [("TreeNodeType", "string"); ("TaxonomicRange", "string"); ("SfName", "string"); ("AnnotationNode", "[]download.PantherAnswerAnnotationNode")];
  mkS "download" "PantherAnswerParameters" [("Family", "string")];
  mkS "download" "PantherAnswerProduct" [("Source", "string"); ("Version", "float64")];
  mkS "download" "PantherAnswerSearch" [("Product", "download.PantherAnswerProduct"); ("SearchType", "string"); ("Parameters", "download.PantherAnswerParameters"); ("TreeTopology", "download.PantherAnswerTreeTopology"); ("Error", "string")];
  mkS "download" "PantherAnswerTreeTopology" [("AnnotationNode", "download.PantherAnswerAnnotationNode")];
  mkS "download" "PantherTreeDownloader" [("server", "string"); ("path", "string")];
  mkS "draw" "circularLayout" [("drawer", "draw.TreeDrawer"); ("hasBranchLengths", "bool"); ("hasTipLabels", "bool"); ("hasTipSymbols", "bool"); ("hasInternalNodeLabels", "bool"); ("hasInternalNodeSymbols", "bool"); ("hasNodeComments", "bool"); ("hasSupport", "bool"); ("supportCutoff", "float64"); ("cache", "*draw.layoutCache"); ("tipColors", "map[string][]uint8")];
  mkS "draw" "cytoscapeLayout" [("supportCutoff", "float64"); ("hasSupport", "bool"); ("writer", "*bufio.Writer")];
  mkS "draw" "layoutCache" [("tipLabelPoints", "[]*draw.layoutPoint"); ("branchPaths", "[]*draw.layoutLine"); ("nodePoints", "[]*draw.layoutPoint"); ("curvePaths", "[]*draw.layoutCurve"); ("verticalPaths", "[]*draw.layoutVLine"); ("horizontalPaths", "[]*draw.layoutHLine")];
  mkS "draw" "layoutCurve" [("center", "*draw.layoutPoint"); ("middlepoint", "*draw.layoutPoint"); ("radius", "float64"); ("startAngle", "float64"); ("endAngle", "float64")];
  mkS "draw" "layoutHLine" [("x1", "float64"); ("x2", "float64"); ("y", "float64"); ("support", "float64")];
  mkS "draw" "layoutLine" [("p1", "*draw.layoutPoint"); ("p2", "*draw.layoutPoint"); ("support", "float64")];
  mkS "draw" "layoutPoint" [("x", "float64"); ("y", "float64"); ("brAngle", "float64"); ("name", "string"); ("comment", "string")];
  mkS "draw" "layoutVLine" [("x", "float64"); ("y1", "float64"); ("y2", "float64"); ("support", "float64")];
  mkS "draw" "normalLayout" [("drawer", "draw.TreeDrawer"); ("hasBranchLengths", "bool"); ("hasTipLabels", "bool"); ("hasTipSymbols", "bool"); ("hasInternalNodeLabels", "bool"); ("hasInternalNodeSymbols", "bool"); ("hasNodeComments", "bool"); ("hasSupport", "bool"); ("supportCutoff", "float64"); ("cache", "*draw.layoutCache"); ("tipColors", "map[string][]uint8")];
  mkS "draw" "pngTreeDrawer" [("outwriter", "io.Writer"); ("width", "int"); ("height", "int"); ("leftmargin", "int"); ("rightmargin", "int"); ("topmargin", "int"); ("bottommargin", "int"); ("img", "*image.RGBA"); ("gc", "*draw2dimg.GraphicContext"); ("dTip", "float64"); ("maxHeight", "float64"); ("maxLength", "float64"); ("maxNameLength", "int"); ("maxNameHeight", "int")];
  mkS "draw" "radialLayout" [("drawer", "draw.TreeDrawer"); ("spread", "float64"); ("hasBranchLengths", "bool"); ("hasTipLabels", "bool"); ("hasTipSymbols", "bool"); ("hasInternalNodeLabels", "bool"); ("hasInternalNodeSymbols", "bool"); ("hasNodeComments", "bool"); ("hasSupport", "bool"); ("supportCutoff", "float64"); ("cache", "*draw.layoutCache"); ("tipColors", "map[string][]uint8")];
  mkS "draw" "svgTreeDrawer" [("outwriter", "io.Writer"); ("width", "int"); ("height", "int"); ("leftmargin", "int"); ("rightmargin", "int"); ("topmargin", "int"); ("bottommargin", "int"); ("canvas", "*svg.SVG"); ("dTip", "float64"); ("maxLength", "float64"); ("maxHeight", "float64"); ("maxNameLength", "int"); ("maxNameHeight", "int")];
  mkS "draw" "textTreeDrawer" [("outwriter", "io.Writer"); ("width", "int"); ("rightmargin", "int"); ("height", "int"); ("textCanvas", "[][]rune"); ("maxHeight", "float64"); ("maxLength", "float64"); ("maxNameLength", "int"); ("maxNameHeight", "int")];
  mkS "hashmap" "HashMap" [("mapArray", "[]hashmap.Bucket"); ("capacity", "uint64"); ("loadfactor", "float64"); ("total", "int"); ("RWMutex", "sync.RWMutex")];
  mkS "hashmap" "KeyValue" [("Key", "hashmap.Hasher"); ("Value", "interface{}")];
  mkS "io/newick" "NodeStack" [("elt", "[]newick.nodeStackElt")];
  mkS "io/newick" "Parser" [("s", "*newick.Scanner"); ("buf", "struct{tok newick.Token; lit string; n int}")];
  mkS "io/newick" "Scanner" [("r", "*bufio.Reader")];
  mkS "io/newick" "nodeStackElt" [("n", "*tree.Node"); ("e", "*tree.Edge")];
  mkS "io/nextstrain" "NSBranchAttributes" [("Labels", "struct{Aa string ""json:\""aa\""""}"); ("Mutations", "map[string][]string")];
  mkS "io/nextstrain" "Nextstrain" [("Tree", "nextstrain.NsNode"); ("Version", "string")];
  mkS "io/nextstrain" "NsDate" [("Value", "float64"); ("Confidence", "[]float64")];
  mkS "io/nextstrain" "NsNode" [("BranchAttr", "nextstrain.NSBranchAttributes"); ("Children", "[]nextstrain.NsNode"); ("Name", "string"); ("Attributes", "nextstrain.NsNodeAttributes")];
  mkS "io/nextstrain" "NsNodeAttributes" [("Divergence", "float64"); ("LocalBranchingIndex", "struct{Value float64 ""json:\""value\""""}"); ("Date", "nextstrain.NsDate"); ("Region", "nextstrain.NsRegion"); ("Accession", "string"); ("Age", "struct{Value string ""json:\""value\""""}"); ("CladeMembership", "struct{Value string ""json:\""value\""""}"); ("Country", "struct{Value string ""json:\""value\""""}"); ("Division", "struct{Value string ""json:\""value\""""}"); ("Epiweek", "struct{Value string ""json:\""value\""""}"); ("Gender", "struct{Value string ""json:\""value\""""}"); ("OriginatingLab", "struct{Value string ""json:\""value\""""}"); ("Recency", "struct{Value string ""json:\""value\""""}"); ("SubmittingLab", "struct{Value string ""json:\""value\""""}")];
  mkS "io/nextstrain" "NsRegion" [("Value", "string"); ("Entropy", "float64"); ("Confidence", "map[string]float64")];
  mkS "io/nextstrain" "Parser" [("reader", "io.Reader")];
  mkS "io/nexus" "Nexus" [("HasAlignment", "bool"); ("HasTrees", "bool"); ("GapChar", "rune"); ("MissingChar", "rune"); ("trees", "[]*tree.Tree"); ("treeNames", "[]string"); ("align", "align.Alignment")];
  mkS "io/nexus" "Parser" [("s", "*nexus.Scanner"); ("buf", "struct{tok nexus.Token; lit string; n int}"); ("translationTable", "map[string]string")];
  mkS "io/nexus" "Scanner" [("r", "*bufio.Reader")];
  mkS "io/phyloxml" "Clade" [("XMLName", "xml.Name"); ("Clades", "[]phyloxml.Clade"); ("BranchLength", "*float64"); ("Confidence", "*float64"); ("Name", "string"); ("Tax", "phyloxml.Taxonomy")];
  mkS "io/phyloxml" "Parser" [("reader", "io.Reader")];
  mkS "io/phyloxml" "PhyloXML" [("XMLName", "xml.Name"); ("Phylogenies", "[]phyloxml.Phylogeny")];
  mkS "io/phyloxml" "Phylogeny" [("XMLName", "xml.Name"); ("Rooted", "bool"); ("Root", "phyloxml.Clade")];
  mkS "io/phyloxml" "Taxonomy" [("XMLName", "xml.Name"); ("TaxId", "phyloxml.TaxonomyId"); ("ScientificName", "string"); ("Code", "string")];
  mkS "io/phyloxml" "TaxonomyId" [("Id", "int"); ("Provider", "string")];
  mkS "mutations" "Mutation" [("AlignmentSite", "int"); ("BranchIndex", "int"); ("ChildNodeName", "string"); ("ParentCharacter", "uint8"); ("ChildCharacter", "uint8"); ("NumTips", "int"); ("NumTipsWithChildCharacter", "int"); ("NumEEM", "int")];
  mkS "mutations" "MutationList" [("Mutations", "map[string]mutations.Mutation")];
  mkS "sort" "by" [("Indices", "[]int"); ("Values", "[]int")];
  mkS "support" "Supporter" [("progress", "int64"); ("stop", "int32")];
  mkS "support" "bootval" [("value", "int"); ("edgeid", "int"); ("randsup", "bool")];
  mkS "support" "speciesmoved" [("taxid", "uint"); ("nbtimes", "float64")];
  mkS "tree" "BipartitionStats" [("Id", "int"); ("Tree1", "int"); ("Tree2", "int"); ("Common", "int"); ("Sametree", "bool"); ("Err", "error")];
  mkS "tree" "Edge" [("left", "*tree.Node"); ("right", "*tree.Node"); ("length", "float64"); ("comment", "[]string"); ("support", "float64"); ("pvalue", "float64"); ("bitset", "*bitset.BitSet"); ("hashcoderight", "uint64"); ("hashcodeleft", "uint64"); ("ntaxright", "int"); ("ntaxleft", "int"); ("id", "int")];
  mkS "tree" "EdgeIndex" [("hash", "*hashmap.HashMap")];
  mkS "tree" "EdgeIndexInfo" [("Count", "int"); ("Len", "float64")];
  mkS "tree" "KeyValue" [("key", "*tree.Edge"); ("val", "*tree.EdgeIndexInfo")];
  mkS "tree" "LTTData" [("X", "float64"); ("Y", "int")];
  mkS "tree" "NNIRearranger" [];
  mkS "tree" "Node" [("name", "string"); ("comment", "[]string"); ("neigh", "[]*tree.Node"); ("br", "[]*tree.Edge"); ("depth", "int"); ("rootdepth", "int"); ("id", "int"); ("tipid", "int")];
  mkS "tree" "Quartet" [("T1", "uint"); ("T2", "uint"); ("T3", "uint"); ("T4", "uint")];
  mkS "tree" "QuartetSet" [("left", "[][]uint"); ("right", "[][]uint")];
  mkS "tree" "TipBag" [("tips", "map[string]*tree.Node")];
  mkS "tree" "Tree" [("root", "*tree.Node"); ("tipIndex", "map[string]*tree.Node")];
  mkS "tree" "Trees" [("Tree", "*tree.Tree"); ("Id", "int"); ("Err", "error")];
  mkS "tree" "WeightedBipartitionStats" [("Id", "int"); ("Tree1", "[]float64"); ("Tree2", "[]float64"); ("Common", "[]float64"); ("Sametree", "bool"); ("Err", "error")];
  mkS "tree" "nni" [("t", "*tree.Tree"); ("n1", "*tree.Node"); ("n2", "*tree.Node"); ("n1_1", "*tree.Node"); ("n1_2", "*tree.Node"); ("n2_1", "*tree.Node"); ("n2_2", "*tree.Node"); ("cross", "bool"); ("applied", "bool")];
  mkS "tree" "nodeIndex" [("index", "map[string]*tree.Node")];
  mkS "upload" "ItolUploader" [("uploadid", "string"); ("projectname", "string"); ("annotationfiles", "[]string")]
].

Definition field_eqb (a b : string * string) : bool := String.eqb (fst a) (fst b) && String.eqb (snd a) (snd b).

Definition find_struct (p n : string) (l : list gstruct) : option gstruct :=
  find (fun s => String.eqb (spkg s) p && String.eqb (sname s) n) l.

(** the fields of [s] that the reviewed table does not have with the same type; a struct type
    that is not in the table at all is reported with all its fields (or as "(new type)" when it has none) *)
Definition new_fields (s : gstruct) : list (string * string * string) :=
  match find_struct (spkg s) (sname s) reviewed_structs with
  | Some r => map (fun f => (spkg s, sname s, fst f)) (filter (fun f => negb (existsb (field_eqb f) (sfields r))) (sfields s))
  | None => match sfields s with
            | [] => [(spkg s, sname s, "(new type)")]
            | fs => map (fun f => (spkg s, sname s, fst f)) fs
            end
  end.

Definition unreviewed_fields (pk : list string) (gs : list gstruct) : list (string * string * string) :=
  flat_map (fun s => if existsb (String.eqb (spkg s)) pk then new_fields s else []) gs.
