(** Heap-level model of the pointer structure of /repo/tree: nodes and edges are records in
    two finite maps (identifiers = Go pointers), [Node.neigh]/[Node.br] are parallel lists of
    node ids / edge ids, [Edge.left]/[Edge.right] are node ids, [Tree.root] is a node id.

    Unlike [utree] (Base/UTree.v) this type CAN express asymmetric adjacency, shared children,
    cycles, an edge whose ends are not the two nodes that list it, and a wrong orientation.
    The pointer surgery of tree/node.go, tree/edge.go and tree/tree.go is transcribed as heap
    transformers with the same error cases:
      [HErr msg]  the Go function returns that error (or exits with that message);
      [HPanic]    the Go function would dereference a nil / dangling pointer, index a slice
                  out of range, or recurse without bound (a missing id, an index out of range,
                  or exhausted fuel).
    [abs] reads the tree from the root exactly as harness/worker/treeio.go DumpTree does.
    No proofs in this file (Proofs/Heap*.v). *)
From Coq Require Import String ZArith QArith Bool Arith List.
From GT Require Import Base.UTree Model.Reroot.
Import ListNotations.
Local Close Scope Q_scope.
Local Open Scope string_scope.

(** * Finite maps: association lists keyed by [nat] (one style in this file) *)
Definition amap (A : Type) : Type := list (nat * A).

Fixpoint alookup {A} (k : nat) (m : amap A) : option A :=
  match m with
  | [] => None
  | (k', v) :: r => if Nat.eqb k k' then Some v else alookup k r
  end.

(** replace in place, else append *)
Fixpoint aupd {A} (k : nat) (v : A) (m : amap A) : amap A :=
  match m with
  | [] => [(k, v)]
  | (k', v') :: r => if Nat.eqb k k' then (k, v) :: r else (k', v') :: aupd k v r
  end.

Fixpoint arem {A} (k : nat) (m : amap A) : amap A :=
  match m with
  | [] => []
  | (k', v') :: r => if Nat.eqb k k' then arem k r else (k', v') :: arem k r
  end.

(** * The heap *)
(** Go: Node{name, comment, neigh []*Node, br []*Edge} *)
Record hnode : Type := mkHN {
  hname : string;
  hcom : list string;
  hneigh : list nat;   (* node ids *)
  hbr : list nat       (* edge ids, parallel to hneigh *)
}.

(** Go: Edge{left, right *Node, length, support, pvalue, comment} *)
Record hedge : Type := mkHE {
  hleft : nat;
  hright : nat;
  hinfo : einfo
}.

Record heap : Type := mkHeap {
  hnodes : amap hnode;
  hedges : amap hedge;
  hroot : nat;         (* Tree.root *)
  hnextn : nat;        (* next fresh node id (allocation) *)
  hnexte : nat         (* next fresh edge id *)
}.

Inductive hres (A : Type) : Type :=
| HOk (a : A)
| HErr (msg : string)
| HPanic.
Arguments HOk {A}. Arguments HErr {A}. Arguments HPanic {A}.

Definition hbind {A B} (m : hres A) (f : A -> hres B) : hres B :=
  match m with
  | HOk a => f a
  | HErr s => HErr s
  | HPanic => HPanic
  end.
Notation "'do' x <- m ; f" := (hbind m (fun x => f))
  (at level 200, x pattern, m at level 100, f at level 200, right associativity).

(** the value of a call whose error is dropped by the caller ([n1.delNeighbor(root)] as a
    statement): on an error the heap is as before the call *)
Definition ignore_err (h : heap) (m : hres heap) : hres heap :=
  match m with
  | HOk h' => HOk h'
  | HErr _ => HOk h
  | HPanic => HPanic
  end.

Definition get_node (h : heap) (n : nat) : hres hnode :=
  match alookup n (hnodes h) with Some x => HOk x | None => HPanic end.
Definition get_edge (h : heap) (e : nat) : hres hedge :=
  match alookup e (hedges h) with Some x => HOk x | None => HPanic end.

Definition set_node (h : heap) (n : nat) (x : hnode) : heap :=
  mkHeap (aupd n x (hnodes h)) (hedges h) (hroot h) (hnextn h) (hnexte h).
Definition set_edge (h : heap) (e : nat) (x : hedge) : heap :=
  mkHeap (hnodes h) (aupd e x (hedges h)) (hroot h) (hnextn h) (hnexte h).
(** Tree.SetRoot *)
Definition set_root (h : heap) (r : nat) : heap :=
  mkHeap (hnodes h) (hedges h) r (hnextn h) (hnexte h).

(** ** list helpers *)
Fixpoint index_of (x : nat) (l : list nat) : option nat :=
  match l with
  | [] => None
  | y :: r => if Nat.eqb y x then Some 0
              else match index_of x r with Some i => Some (S i) | None => None end
  end.
(** append(l[0:i], l[i+1:]...) *)
Definition del_nth {A} (i : nat) (l : list A) : list A := (firstn i l ++ skipn (S i) l)%list.
(** l[i] = x, i < len(l) *)
Definition put_nth {A} (i : nat) (x : A) (l : list A) : list A := set_nth i x l.

Definition opt_nat_eqb (a b : option nat) : bool :=
  match a, b with
  | Some x, Some y => Nat.eqb x y
  | None, None => true
  | _, _ => false
  end.

(** * tree/tree.go, tree/node.go, tree/edge.go *)

(** Tree.NewNode(): a fresh node without name, comments or neighbours *)
Definition new_node (h : heap) : nat * heap :=
  let n := hnextn h in
  (n, mkHeap (aupd n (mkHN "" [] [] []) (hnodes h)) (hedges h) (hroot h) (S n) (hnexte h)).

(** Tree.NewEdge() followed by setLeft / setRight (nothing looks at the edge in between) and,
    where the Go code does it, by the first SetLength: [info] *)
Definition new_edge (l r : nat) (info : einfo) (h : heap) : nat * heap :=
  let e := hnexte h in
  (e, mkHeap (hnodes h) (aupd e (mkHE l r info) (hedges h)) (hroot h) (hnextn h) (S e)).

(** node.go:29 addChild: p.neigh = append(p.neigh, n); p.br = append(p.br, e) *)
Definition add_child (p n e : nat) (h : heap) : hres heap :=
  do hp <- get_node h p;
  HOk (set_node h p (mkHN (hname hp) (hcom hp) (hneigh hp ++ [n])%list (hbr hp ++ [e])%list)).

(** tree.go ConnectNodes(parent, child): a new edge parent -> child, appended on both sides *)
Definition connect_nodes (parent child : nat) (h : heap) : hres (nat * heap) :=
  let '(e, h1) := new_edge parent child e0 h in
  do h2 <- add_child parent child e h1;
  do h3 <- add_child child parent e h2;
  HOk (e, h3).

Definition err_node_index : string := "The Node is not in the neighbors of node".
Definition err_edge_index : string := "The Edge is not in the neighbors of node".

(** node.go NodeIndex(next): first i with n.neigh[i] == next *)
Definition node_index (h : heap) (n next : nat) : hres nat :=
  do hn <- get_node h n;
  match index_of next (hneigh hn) with Some i => HOk i | None => HErr err_node_index end.

(** node.go EdgeIndex(e): first i with n.br[i] == e *)
Definition edge_index (h : heap) (n e : nat) : hres nat :=
  do hn <- get_node h n;
  match index_of e (hbr hn) with Some i => HOk i | None => HErr err_edge_index end.

(** node.go:130 delNeighbor(n2): drop slot NodeIndex(n2) from neigh and br
    ([n.br[i+1:]] panics when br is too short) *)
Definition del_neighbor (n n2 : nat) (h : heap) : hres heap :=
  do hn <- get_node h n;
  match index_of n2 (hneigh hn) with
  | None => HErr err_node_index
  | Some i =>
    if Nat.ltb i (length (hbr hn))
    then HOk (set_node h n (mkHN (hname hn) (hcom hn) (del_nth i (hneigh hn)) (del_nth i (hbr hn))))
    else HPanic
  end.

(** tree.go delNode(n): n.neigh = nil, n.br = nil and every branch of n loses both ends.
    Model: the node and its branches leave the heap (they are garbage in every use the Go
    code makes of delNode on a consistent tree; a later access through a stale reference is a
    [HPanic] here, a nil dereference there). *)
Definition del_node (n : nat) (h : heap) : hres heap :=
  do hn <- get_node h n;
  HOk (mkHeap (arem n (hnodes h)) (fold_right (fun e m => arem e m) (hedges h) (hbr hn))
              (hroot h) (hnextn h) (hnexte h)).

(** tree.go unconnectNode(n): n.neigh = nil, n.br = nil, the branches are untouched *)
Definition unconnect_node (n : nat) (h : heap) : hres heap :=
  do hn <- get_node h n;
  HOk (mkHeap (arem n (hnodes h)) (hedges h) (hroot h) (hnextn h) (hnexte h)).

(** edge.go Inverse *)
Definition flip (ed : hedge) : hedge := mkHE (hright ed) (hleft ed) (hinfo ed).

(** ** Tree.Nodes() / nodesRecur(cur, prev): pre-order over neigh, skipping [prev] *)
Fixpoint nodes_rec (fuel : nat) (h : heap) (cur : nat) (prev : option nat) : hres (list nat) :=
  match fuel with
  | O => HPanic
  | S f =>
    do hn <- get_node h cur;
    do rest <- (fix loop (l : list nat) : hres (list nat) :=
                  match l with
                  | [] => HOk []
                  | n :: r =>
                    if opt_nat_eqb (Some n) prev then loop r
                    else do a <- nodes_rec f h n (Some cur); do b <- loop r; HOk (a ++ b)%list
                  end) (hneigh hn);
    HOk (cur :: rest)
  end.

(** recursion depth available to the traversals: more than the number of nodes *)
Definition hfuel (h : heap) : nat := S (length (hnodes h)).

Definition tree_nodes (h : heap) : hres (list nat) := nodes_rec (hfuel h) h (hroot h) None.

(** ** tree.go:823 ReorderEdges(n, prev, nil)
    for _, next := range n.br {
      if next.right != prev && next.left != prev {
        if next.right == n { next.Inverse() }
        t.ReorderEdges(next.right, n, reversed) } }
    Only edges change, so ranging over the br snapshot is the same as ranging over n.br. *)
Fixpoint reorder_edges (fuel : nat) (n : nat) (prev : option nat) (h : heap) : hres heap :=
  match fuel with
  | O => HPanic
  | S f =>
    do hn <- get_node h n;
    (fix loop (bs : list nat) (h : heap) : hres heap :=
       match bs with
       | [] => HOk h
       | e :: r =>
         do ed <- get_edge h e;
         if negb (opt_nat_eqb (Some (hright ed)) prev) && negb (opt_nat_eqb (Some (hleft ed)) prev)
         then
           let ed' := if Nat.eqb (hright ed) n then flip ed else ed in
           let h1 := if Nat.eqb (hright ed) n then set_edge h e ed' else h in
           do h2 <- reorder_edges f (hright ed') (Some n) h1;
           loop r h2
         else loop r h
       end) (hbr hn) h
  end.

(** ** tree.go:780 Reroot(n) (ReinitInternalIndexes touches no pointer) *)
Definition reroot_heap (n : nat) (h : heap) : hres heap :=
  do hn <- get_node h n;
  if Nat.ltb (length (hneigh hn)) 2 then HErr "Cannot reroot on a tip node"
  else
    do ns <- tree_nodes h;
    if existsb (Nat.eqb n) ns
    then reorder_edges (hfuel h) n None (set_root h n)
    else HErr "The node is not part of the tree".

(** reroot_nocheck *)
Definition reroot_nocheck_heap (n : nat) (h : heap) : hres heap :=
  do hn <- get_node h n;
  if Nat.ltb (length (hneigh hn)) 2 then HErr "Cannot reroot on a tip node"
  else reorder_edges (hfuel h) n None (set_root h n).

(** ** tree.go:1457 UnRoot *)
Definition set_info (h : heap) (e : nat) (f : einfo -> einfo) : hres heap :=
  do ed <- get_edge h e;
  HOk (set_edge h e (mkHE (hleft ed) (hright ed) (f (hinfo ed)))).

Definition nth_res {A} (l : list A) (i : nat) : hres A :=
  match nth_error l i with Some x => HOk x | None => HPanic end.

Definition unroot_heap (h : heap) : hres heap :=
  do hr <- get_node h (hroot h);
  if negb (Nat.eqb (length (hneigh hr)) 2) then HOk h       (* !t.Rooted() *)
  else
    let root := hroot h in
    do n1 <- nth_res (hneigh hr) 0;
    do n2 <- nth_res (hneigh hr) 1;
    do hn1 <- get_node h n1;
    let n1tip := Nat.eqb (length (hneigh hn1)) 1 in
    do e1 <- nth_res (hbr hr) 0;
    do e2 <- nth_res (hbr hr) 1;
    do h1 <- ignore_err h (del_neighbor n1 root h);
    do h2 <- ignore_err h1 (del_neighbor n2 root h1);
    do (e3, h3) <- (if n1tip then connect_nodes n2 n1 h2 else connect_nodes n1 n2 h2);
    let h4 := set_root h3 (if n1tip then n2 else n1) in
    do ed1 <- get_edge h4 e1;
    do ed2 <- get_edge h4 e2;
    let l1 := elen (hinfo ed1) in
    let l2 := elen (hinfo ed2) in
    do h5 <- (if negb (qeqb l1 nilv) || negb (qeqb l2 nilv)
              then set_info h4 e3 (fun i => mkE (qmax 0%Q l1 + qmax 0%Q l2)%Q (esup i) (epv i) (ecom i))
              else HOk h4);
    do hn1' <- get_node h5 n1;
    do hn2' <- get_node h5 n2;
    let s1 := esup (hinfo ed1) in
    let s2 := esup (hinfo ed2) in
    do h6 <- (if negb (Nat.eqb (length (hneigh hn1')) 1) && negb (Nat.eqb (length (hneigh hn2')) 1) &&
                 (negb (qeqb s1 nilv) || negb (qeqb s2 nilv))
              then set_info h5 e3 (fun i => mkE (elen i) (qmax (qmax 0%Q s1) (qmax 0%Q s2)) (epv i) (ecom i))
              else HOk h5);
    del_node root h6.

(** ** tree.go:854 GraftTipOnEdge(n, e) *)
Definition half (q : Q) : Q := (q / 2)%Q.

Definition set_neigh_at (h : heap) (n i m : nat) : hres heap :=
  do hn <- get_node h n;
  if Nat.ltb i (length (hneigh hn))
  then HOk (set_node h n (mkHN (hname hn) (hcom hn) (put_nth i m (hneigh hn)) (hbr hn)))
  else HPanic.
Definition set_br_at (h : heap) (n i e : nat) : hres heap :=
  do hn <- get_node h n;
  if Nat.ltb i (length (hbr hn))
  then HOk (set_node h n (mkHN (hname hn) (hcom hn) (hneigh hn) (put_nth i e (hbr hn))))
  else HPanic.
Definition br_at (h : heap) (n i : nat) : hres nat :=
  do hn <- get_node h n; nth_res (hbr hn) i.

(** returns (newedge, newedge2, newnode) and the heap *)
Definition graft_tip_on_edge (n e : nat) (h : heap) : hres (nat * nat * nat * heap) :=
  let '(newnode, h) := new_node h in
  do ed <- get_edge h e;
  let lnode := hleft ed in
  let rnode := hright ed in
  do e_l_ind <- edge_index h lnode e;
  do e_r_ind <- edge_index h rnode e;
  (* newedge := NewEdge(); SetLength(1.0); setLeft(newnode); setRight(n) *)
  let '(newedge, h) := new_edge newnode n (mkE 1%Q nilv nilv []) h in
  do h <- add_child newnode n newedge h;
  do h <- add_child n newnode newedge h;
  (* e.setRight(newnode) *)
  let h := set_edge h e (mkHE (hleft ed) newnode (hinfo ed)) in
  do h <- add_child newnode lnode e h;
  do h <- set_neigh_at h lnode e_l_ind newnode;
  do b <- br_at h lnode e_l_ind;
  if negb (Nat.eqb b e) then HErr "The Edge is not at the same index"
  else
    (* newedge2.SetLength(e.length/2); e.SetLength(e.length/2) *)
    let i := hinfo ed in
    let '(newedge2, h) := new_edge newnode rnode (mkE (half (elen i)) nilv nilv []) h in
    let h := set_edge h e (mkHE (hleft ed) newnode (mkE (half (elen i)) (esup i) (epv i) (ecom i))) in
    do h <- add_child newnode rnode newedge2 h;
    do b <- br_at h rnode e_r_ind;
    if negb (Nat.eqb b e) then HErr "The Edge is not at the same index"
    else
      do h <- set_neigh_at h rnode e_r_ind newnode;
      do h <- set_br_at h rnode e_r_ind newedge2;
      HOk (newedge, newedge2, newnode, h).

(** the way the generators and InsertIdenticalTip use it: a new named tip is created first *)
Definition graft_new_tip (name : string) (e : nat) (h : heap) : hres (nat * nat * nat * nat * heap) :=
  let '(n, h) := new_node h in
  do hn <- get_node h n;
  let h := set_node h n (mkHN name (hcom hn) (hneigh hn) (hbr hn)) in
  do (ne, ne2, nn, h) <- graft_tip_on_edge n e h;
  HOk (n, ne, ne2, nn, h).

(** ** tree.go:1417 RemoveEdges: the body of the loop for one edge [e]
    (ReinitInternalIndexes touches no pointer) *)
Definition remove_edge (removeRoot removeTips : bool) (e : nat) (h : heap) : hres heap :=
  do ed <- get_edge h e;
  let l := hleft ed in
  let r := hright ed in
  do hr <- get_node h r;
  do hl <- get_node h l;
  if Nat.eqb (length (hneigh hr)) 1 then
    (if removeTips
     then set_info h e (fun i => mkE 0%Q (esup i) (epv i) (ecom i))
     else HOk h)
  else if negb removeRoot && (Nat.eqb (length (hneigh hr)) 2 || Nat.eqb (length (hneigh hl)) 2)
  then HOk h
  else
    do h <- ignore_err h (del_neighbor l r h);
    do h <- ignore_err h (del_neighbor r l h);
    do hr <- get_node h r;
    do h <- (fix loop (cs : list nat) (h : heap) : hres heap :=
               match cs with
               | [] => HOk h
               | child :: rest =>
                 if Nat.eqb child l then loop rest h
                 else
                   do idx <- node_index h child r;     (* io.ExitWithMessage(err) *)
                   do h <- set_neigh_at h child idx l;
                   do b <- br_at h child idx;
                   do bd <- get_edge h b;
                   if Nat.eqb (hleft bd) r then
                     let h := set_edge h b (mkHE l (hright bd) (hinfo bd)) in
                     do h <- add_child l child b h;
                     loop rest h
                   else HErr "Problem in edge orientation"
               end) (hneigh hr) h;
    do h <- unconnect_node r h;
    (* the contracted branch is referenced by no node any more: garbage, it leaves the heap
       (as the node and branches of delNode do) *)
    HOk (mkHeap (hnodes h) (arem e (hedges h)) (hroot h) (hnextn h) (hnexte h)).

(** ** tree.go:294 removeTip(tip) *)
Definition err_rm_not_tip : string := "Cannot remove node, it is not a tip".

(** the loop  for t.Root() != internal && len(internal.neigh) == 1 { ... } ; result: the
    heap and the final value of [internal] *)
Fixpoint single_path_loop (fuel : nat) (internal : nat) (h : heap) : hres (nat * heap) :=
  match fuel with
  | O => HPanic
  | S f =>
    do hi <- get_node h internal;
    if negb (Nat.eqb (hroot h) internal) && Nat.eqb (length (hneigh hi)) 1 then
      (* internal.neigh = nil; internalparent := internal.br[0].left *)
      do b <- nth_res (hbr hi) 0;
      do bd <- get_edge h b;
      let parent := hleft bd in
      do h <- del_neighbor parent internal h;
      do h <- del_node internal h;
      single_path_loop f parent h
    else HOk (internal, h)
  end.

Definition remove_tip_heap (tipname : string) (tip : nat) (h : heap) : hres heap :=
  do ht <- get_node h tip;
  if negb (Nat.eqb (length (hneigh ht)) 1) then HErr err_rm_not_tip
  else
    do b0 <- nth_res (hbr ht) 0;
    do bd0 <- get_edge h b0;
    let internal := hleft bd0 in
    do h <- del_neighbor internal tip h;
    do h <- del_node tip h;
    do hi <- get_node h internal;
    do (internal, h, fin) <-
       (if Nat.eqb (length (hneigh hi)) 1 then
          do (internal, h) <- single_path_loop (hfuel h) internal h;
          do hi <- get_node h internal;
          if Nat.eqb (hroot h) internal && Nat.eqb (length (hneigh hi)) 1 then
            do c <- nth_res (hneigh hi) 0;
            let h := set_root h c in
            do h <- del_neighbor c internal h;
            do h <- del_node internal h;
            HOk (internal, h, true)
          else HOk (internal, h, false)
        else HOk (internal, h, false));
    if (fin : bool) then HOk h
    else
      do hi <- get_node h internal;
      if Nat.eqb (length (hneigh hi)) 2 then
        do n1 <- nth_res (hneigh hi) 0;
        do n2 <- nth_res (hneigh hi) 1;
        do b1 <- nth_res (hbr hi) 0;
        do b2 <- nth_res (hbr hi) 1;
        do bd1 <- get_edge h b1;
        do bd2 <- get_edge h b2;
        let length1 := elen (hinfo bd1) in
        let length2 := elen (hinfo bd2) in
        let sup1 := esup (hinfo bd1) in
        let sup2 := esup (hinfo bd2) in
        let dir1 := Nat.eqb (hleft bd1) n1 in
        let dir2 := Nat.eqb (hright bd2) n2 in
        do h <- del_neighbor n1 internal h;
        do h <- del_neighbor n2 internal h;
        do hn1 <- get_node h n1;
        do hn2 <- get_node h n2;
        do (e, h) <-
           (if dir1 && dir2 then connect_nodes n1 n2 h
            else if negb dir1 && negb dir2 then connect_nodes n2 n1 h
            else if negb dir1 && dir2 then
              if negb (Nat.eqb (hroot h) internal)
              then HErr ("The tree root is not the internal node, but it should be, while removing tip " ++ tipname)
              else if Nat.ltb 1 (length (hneigh hn1)) then
                do (e, h) <- connect_nodes n1 n2 h; HOk (e, set_root h n1)
              else if Nat.ltb 1 (length (hneigh hn2)) then
                do (e, h) <- connect_nodes n2 n1 h; HOk (e, set_root h n2)
              else if Nat.eqb (length (hneigh hn2)) 1 || Nat.eqb (length (hneigh hn1)) 1 then
                HErr ("After removing the tip " ++ tipname ++ " connected to the root, RemoveTip could not find a new node to set as a root (the children of the root are either tips or single nodes). You can run gotree collapse single or call RemoveSingleNodes.")
              else HErr ("The tree after tip removal is only made of two tips after removing tip " ++ tipname)
            else HErr ("Branches of internal node are not oriented as they should be while removing tip " ++ tipname));
        (* math.Max(0,l1)+math.Max(0,l2) and math.Max(sup1,sup2) are symmetric on floats; the model
           lists the branch nearer the root first, as Model/Prune.v [merge_edge] does *)
        let swap := negb dir1 && negb dir2 in
        let la := if swap then length2 else length1 in
        let lb := if swap then length1 else length2 in
        let sa := if swap then sup2 else sup1 in
        let sb := if swap then sup1 else sup2 in
        do h <- (if negb (qeqb la nilv) || negb (qeqb lb nilv)
                 then set_info h e (fun i => mkE (qmax 0%Q la + qmax 0%Q lb)%Q (esup i) (epv i) (ecom i))
                 else HOk h);
        do hn1 <- get_node h n1;
        do hn2 <- get_node h n2;
        do h <- (if (negb (qeqb sa nilv) || negb (qeqb sb nilv)) &&
                    Nat.ltb 1 (length (hneigh (if swap then hn2 else hn1))) &&
                    Nat.ltb 1 (length (hneigh (if swap then hn1 else hn2)))
                 then set_info h e (fun i => mkE (elen i) (qmax sa sb) (epv i) (ecom i))
                 else HOk h);
        del_node internal h
      else HOk h.

(** * Reading the tree from the root (harness/worker/treeio.go DumpTree / dumpNode) *)

(** the dump with the pointers kept as labels: node id, and for a child slot the edge id *)
Inductive ltree : Type :=
| LNode (id : nat) (name : string) (com : list string) (slots : list (option (nat * einfo * ltree))).
Notation lslot := (option (nat * einfo * ltree)).

Definition lid (t : ltree) : nat := match t with LNode i _ _ _ => i end.
Definition lslots (t : ltree) : list lslot := match t with LNode _ _ _ s => s end.

Fixpoint erase (t : ltree) : utree :=
  match t with
  | LNode _ n c sl =>
    UNode n c (map (fun s : lslot => match s with
                                     | None => None
                                     | Some (_, ei, ch) => Some (ei, erase ch)
                                     end) sl)
  end.

(** node ids in pre-order (the order of Tree.Nodes()) *)
Fixpoint lids (t : ltree) : list nat :=
  match t with
  | LNode i _ _ sl =>
    i :: flat_map (fun s : lslot => match s with Some (_, _, ch) => lids ch | None => [] end) sl
  end.
(** edge ids in the order of Tree.Edges() *)
Fixpoint leids (t : ltree) : list nat :=
  match t with
  | LNode _ _ _ sl =>
    flat_map (fun s : lslot => match s with Some (e, _, ch) => e :: leids ch | None => [] end) sl
  end.

Fixpoint omap {A B} (f : A -> option B) (l : list A) : option (list B) :=
  match l with
  | [] => Some []
  | a :: r => match f a with
              | None => None
              | Some b => match omap f r with Some r' => Some (b :: r') | None => None end
              end
  end.

(** dumpNode: c == prev && prev != nil && e == pedge *)
Definition is_prev (prev : option (nat * nat)) (c e : nat) : bool :=
  match prev with
  | Some (p, pe) => Nat.eqb c p && Nat.eqb e pe
  | None => false
  end.

(** dumpNode(n, prev, pedge): [None] when len(neigh) != len(br), a nil neighbour or branch,
    or recursion deeper than the number of nodes (some node is reached twice) *)
Fixpoint dump_from (fuel : nat) (h : heap) (prev : option (nat * nat)) (n : nat) : option ltree :=
  match fuel with
  | O => None
  | S f =>
    match alookup n (hnodes h) with
    | None => None
    | Some hn =>
      if negb (Nat.eqb (length (hneigh hn)) (length (hbr hn))) then None
      else
        match omap (fun ce : nat * nat =>
                      let '(c, e) := ce in
                      if is_prev prev c e then Some None
                      else match alookup e (hedges h) with
                           | None => None
                           | Some ed =>
                             match dump_from f h (Some (n, e)) c with
                             | None => None
                             | Some lc => Some (Some (e, hinfo ed, lc))
                             end
                           end)
                   (combine (hneigh hn) (hbr hn)) with
        | None => None
        | Some sl => Some (LNode n (hname hn) (hcom hn) sl)
        end
    end
  end.

Fixpoint nodupb (l : list nat) : bool :=
  match l with
  | [] => true
  | x :: r => negb (existsb (Nat.eqb x) r) && nodupb r
  end.

(** the labelled dump; [None] when a node is reached twice ([seen]) *)
Definition dump (h : heap) : option ltree :=
  match dump_from (hfuel h) h None (hroot h) with
  | Some lt => if nodupb (lids lt) then Some lt else None
  | None => None
  end.

(** the abstraction onto the tree model *)
Definition abs (h : heap) : option utree :=
  match dump h with Some lt => Some (erase lt) | None => None end.

(** * From a tree to a heap: node ids in pre-order from 0, the edge to the node with id k
    has id k *)
Fixpoint label (k : nat) (t : utree) : ltree :=
  match t with
  | UNode n c sl =>
    LNode k n c
      ((fix go (k' : nat) (l : list slot) : list lslot :=
          match l with
          | [] => []
          | None :: r => None :: go k' r
          | Some (ei, ch) :: r => Some (k', ei, label k' ch) :: go (k' + usize ch) r
          end) (S k) sl)
  end.

(** the node records of a labelled tree below the parent slot value [prev] *)
Fixpoint lnode_recs (prev : nat * nat) (t : ltree) : amap hnode :=
  match t with
  | LNode i n c sl =>
    (i, mkHN n c
          (map (fun s : lslot => match s with None => fst prev | Some (_, _, ch) => lid ch end) sl)
          (map (fun s : lslot => match s with None => snd prev | Some (e, _, _) => e end) sl))
    :: flat_map (fun s : lslot => match s with
                                  | None => []
                                  | Some (e, _, ch) => lnode_recs (i, e) ch
                                  end) sl
  end.

Fixpoint ledge_recs (t : ltree) : amap hedge :=
  match t with
  | LNode i _ _ sl =>
    flat_map (fun s : lslot => match s with
                               | None => []
                               | Some (e, ei, ch) => (e, mkHE i (lid ch) ei) :: ledge_recs ch
                               end) sl
  end.

Definition heap_of_l (lt : ltree) : heap :=
  mkHeap (lnode_recs (0, 0) lt) (ledge_recs lt) (lid lt)
         (S (fold_right Nat.max 0 (lids lt))) (S (fold_right Nat.max 0 (leids lt))).

Definition heap_of (t : utree) : heap := heap_of_l (label 0 t).
