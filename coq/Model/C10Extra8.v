(** TBE's inner pool (support/tbe.go, inside `for boot := range boottrees`): the branches of the
    reference tree are fed into `edgechan`; each of `cpu` workers, for a branch e it received,
    tests `p > 1`, looks e up in the bootstrap index, and calls e.IncrementSupport(0 or
    MinTransferDist(...)): a read followed by a write of the support field of e alone.
    This file instantiates the generic cell pool of Model/PoolCells.v (C11) with that job body:
    job = (position of the branch in reftree.Edges(), the branch), cell = the position,
    no shared accumulator (options of `gotree compute support tbe`: no moved-taxa computation).
    No proofs in this file. *)
From Coq Require Import String ZArith QArith Bool Arith List.
From GT Require Import Base.UTree Model.Reroot Model.Support Model.Pool Model.PoolCells.
Import ListNotations.
Local Close Scope Q_scope.

Definition tbe_job : Type := (nat * (einfo * utree))%type.

(** the body of the worker for one branch: same case analysis as the function mapped by
    [Model.Support.tbe_step] *)
Definition tbe_job_upd (ref : utree) (X : list string) (ntips : nat) (b : utree)
           (j : tbe_job) (s : option nat) : option nat :=
  let idx := tbe_index b in
  let c := snd (snd j) in
  let p := topo_depth ref c in
  if Nat.ltb 1 p then
    let d := if index_has X idx (below c) then 0
             else min_transfer_dist ntips p (ntax_right c) (below c) true b in
    Some (match s with None => d | Some a => a + d end)
  else s.

Definition tbe_jobs (es : list (einfo * utree)) : list tbe_job := combine (seq 0 (length es)) es.

(** the support fields before the pool starts, as memory cells *)
Definition tbe_cells0 (acc : list (option nat)) : nat -> option nat := fun i => nth i acc None.

(** the pool: [cj] = capacity of edgechan, [n] = cpu, [sched] = the interleaving
    (0 = producer, i+1 = worker i) *)
Definition tbe_pool_run (ref : utree) (X : list string) (ntips : nat) (b : utree)
           (es : list (einfo * utree)) (acc : list (option nat)) (cj n : nat) (sched : list nat)
  : cst tbe_job (option nat) unit :=
  crun tbe_job (option nat) unit
       (fun j : tbe_job => fst j) (tbe_job_upd ref X ntips b) (fun _ => tt) (fun _ _ => tt) cj sched
       (cinit tbe_job (option nat) unit (tbe_jobs es) n (tbe_cells0 acc) tt).

(** the support fields after wg.Wait(), in Edges() order *)
Definition tbe_pool_fields (es : list (einfo * utree)) (s : cst tbe_job (option nat) unit)
  : list (option nat) :=
  map (cells tbe_job (option nat) unit s) (seq 0 (length es)).
