(** Model of tree/tree.go: RemoveEdges (l.1417), CollapseShortBranches (l.1090),
    CollapseLowSupport (l.1103), CollapseTopoDepth (l.1117), Resolve/resolveRecur (l.1148).
    No proofs here.

    RemoveEdges walks a list of branches computed BEFORE the first contraction; the three
    Collapse* functions pass a sub-list of Tree.Edges() in Edges() order, which is what is
    modelled: a selection predicate over (index in [edges t], branch data, ORIGINAL child
    subtree).  For a selected branch e = L -> R, in that order:
      - R is a tip: (removeTips: length := 0); continue
      - !removeRoot and (R has 2 neighbours or L has 2 neighbours at that moment): continue
      - L.delNeighbor(R); every child of R is appended to the END of L's arrays (its branch
        now starts at L); R is disconnected.
    Because a contracted branch re-targets the [left] end of R's child branches, a later
    selected branch below R is contracted into the node R was merged into.  Edges() is a
    pre-order, so when the branch L -> R comes up nothing below R has been touched yet (R still
    has its original degree) while L is the current, possibly already enlarged, node.

    [proc t top k m] processes the child branches of the original node [t] (first one has
    index [k] in Edges() order) while these children form a contiguous block of the current
    array of the node they hang from, [m] being the number of other entries of that array.
    It returns (what the block becomes in place, what was appended to the end of the array, in
    order).  [top = true]: [t] itself survives (its parent slot stays in the block);
    [top = false]: [t] is being contracted (its parent slot is dropped). *)
From Coq Require Import String ZArith QArith Bool Arith List.
From GT Require Import Base.UTree Model.Reroot Model.Rand Model.Prune.
Import ListNotations.
Local Close Scope Q_scope.
Local Open Scope string_scope.

(** number of entries of Edges() taken by the subtree hanging below a branch to [c]
    (edgesRecur descends only when the right node has more than one neighbour) *)
Definition span (c : utree) : nat := if Nat.ltb 1 (degree c) then length (edges_below c) else 0.

Definition set_len0 (e : einfo) : einfo := mkE 0%Q (esup e) (epv e) (ecom e).

Section RemoveEdges.
  Variable removeRoot removeTips : bool.
  Variable sel : nat -> einfo -> utree -> bool.

  Fixpoint proc (t : utree) (top : bool) (k m : nat) {struct t} : list slot * list slot :=
    match t with
    | UNode _ _ sl =>
      (fix go (l : list slot) (k m : nat) {struct l} : list slot * list slot :=
         match l with
         | [] => ([], [])
         | None :: r =>
           if top then let '(b, a) := go r k (S m) in (None :: b, a) else go r k m
         | Some (e, c) :: r =>
           let cnt_r := if top then length r else length (kids_of r) in
           let k' := k + 1 + span c in
           let keep (e' : einfo) :=
               let '(b1, a1) := proc c true (S k) 0 in
               let '(b, a) := go r k' (S m) in
               (Some (e', UNode (uname c) (ucom c) (b1 ++ a1)) :: b, a) in
           if sel k e c then
             if is_tip c then keep (if removeTips then set_len0 e else e)
             else if negb removeRoot && (Nat.eqb (degree c) 2 || Nat.eqb (m + 1 + cnt_r) 2) then keep e
             else
               let '(bc, ac) := proc c false (S k) (m + cnt_r) in
               let '(b, a) := go r k' (m + length bc + length ac) in
               (b, (bc ++ ac ++ a)%list)
           else keep e
         end) sl k m
    end.

  (** Tree.RemoveEdges(removeRoot, removeTips, selected branches in Edges() order...) *)
  Definition remove_edges (t : utree) : utree :=
    let '(b, a) := proc t true 0 0 in UNode (uname t) (ucom t) (b ++ a).
End RemoveEdges.

(** selection by index in [edges t]; faithful to RemoveEdges(..., edges...) when the branches
    are passed in increasing Edges() order without repetition *)
Definition remove_edges_idx (removeRoot removeTips : bool) (idx : list nat) (t : utree) : utree :=
  remove_edges removeRoot removeTips (fun k _ _ => existsb (Nat.eqb k) idx) t.

(** e.Length() <= length   (the absent length is the sentinel -1) *)
Definition sel_len (l : Q) (e : einfo) : bool := Qle_bool (elen e) l.
(** e.Support() != NIL_SUPPORT && e.Support() < support *)
Definition Qlt_bool (a b : Q) : bool := negb (Qle_bool b a).
Definition sel_sup (s : Q) (e : einfo) : bool := negb (qeqb (esup e) nilv) && Qlt_bool (esup e) s.

Definition collapse_len (l : Q) (removeRoot removeTips : bool) (t : utree) : utree :=
  remove_edges removeRoot removeTips (fun _ e _ => sel_len l e) t.

Definition collapse_sup (s : Q) (removeRoot : bool) (t : utree) : utree :=
  remove_edges removeRoot false (fun _ e _ => sel_sup s e) t.

(** Edge.ntaxright / ntaxleft as ComputeEdgeHashes leaves them: tips below the branch, and
    all the other tips *)
Definition ntax_right (c : utree) : nat := length (tips c).
Definition ntax_left (t c : utree) : nat := length (tips t) - length (tips c).
(** Edge.TopoDepth() *)
Definition topo_depth (t c : utree) : nat := Nat.min (ntax_left t c) (ntax_right c).
Definition sel_depth (t : utree) (mn mx : Z) (c : utree) : bool :=
  let d := Z.of_nat (topo_depth t c) in (mn <=? d)%Z && (d <=? mx)%Z.

Definition collapse_depth (mn mx : Z) (removeRoot removeTips : bool) (t : utree) : res utree :=
  if existsb (fun p => Nat.eqb (ntax_left t (snd p)) 0 || Nat.eqb (ntax_right (snd p)) 0) (edges t)
  then Err "Cannot compute topodepth, subtree sizes not computed"
  else Ok (remove_edges removeRoot removeTips (fun _ _ c => sel_depth t mn mx c) t).

(** * Resolve *)
(** resolveRecur is a post-order: the neighbours first, then, if the node has more than 3
    neighbours: perm := rand.Perm(l) over its l children, togroup[perm[k]] := branch of the
    k-th child; while more than 3 neighbours: the LAST two entries of togroup are detached
    (delNeighbor) and connected to a new node n2 (in that order), n2 is connected to the node
    (appended at the end) and its branch replaces the two entries at the end of togroup.
    Hence the new node is always re-grouped at the next iteration: with
    togroup = g_0 .. g_{l-1} and m = (number of neighbours) - 3 iterations the result is the
    caterpillar N_1 = (g_{l-1}, g_{l-2}), N_k = (N_{k-1}, g_{l-k-1}); the children
    g_0 .. g_{l-m-2} stay where they are and N_m is the last neighbour.  A moved child loses
    its parent slot and gets it back at the end (delNeighbor + ConnectNodes); the copy of its
    branch keeps length, support and p-value but not the comments (NewEdge). *)

Fixpoint resolve_bounds (t : utree) : list nat :=
  match t with
  | UNode _ _ sl =>
    flat_map (fun s => match s with Some (_, c) => resolve_bounds c | None => [] end) sl
    ++ (if Nat.ltb 3 (length sl) then perm_bounds (length (kids_of sl)) else [])
  end.

Fixpoint ins_key (key : nat -> nat) (x : nat) (l : list nat) : list nat :=
  match l with
  | [] => [x]
  | y :: r => if Nat.leb (key x) (key y) then x :: l else y :: ins_key key x r
  end.
(** togroup as a list of child indexes: position perm[k] holds child k *)
Definition group_order (p : list nat) (l : nat) : list nat :=
  fold_right (ins_key (fun k => nth k p 0)) [] (seq 0 l).

Definition e_new : einfo := mkE 0%Q nilv nilv [].
Definition regroup (x : einfo * utree) : slot :=
  Some (mkE (elen (fst x)) (esup (fst x)) (epv (fst x)) [], reparent (snd x)).
Definition join2 (a b : einfo * utree) : einfo * utree :=
  (e_new, UNode "" [] [regroup a; regroup b; None]).

(** the slots whose child index is in [kept] (and the parent slot) *)
Fixpoint keep_slots (kept : list nat) (k : nat) (sl : list slot) : list slot :=
  match sl with
  | [] => []
  | None :: r => None :: keep_slots kept k r
  | Some x :: r => (if existsb (Nat.eqb k) kept then [Some x] else []) ++ keep_slots kept (S k) r
  end.

Definition resolve_here (sl : list slot) (cs : list nat) : list slot :=
  if Nat.ltb 3 (length sl) then
    let ks := kids_of sl in
    let l := length ks in
    let order := group_order (go_perm (firstn l cs)) l in
    let keepn := l - (length sl - 3) - 1 in
    let grouped := rev (skipn keepn order) in
    match flat_map (fun k => match nth_error ks k with Some x => [x] | None => [] end) grouped with
    | a :: rest => keep_slots (firstn keepn order) 0 sl ++ [Some (fold_left join2 rest a)]
    | [] => sl
    end
  else sl.

(** Tree.Resolve() with the choices behind the successive rand.Perm calls *)
Fixpoint resolve (t : utree) (cs : list nat) {struct t} : utree :=
  match t with
  | UNode n c sl =>
    let sl1 :=
        (fix go (l : list slot) (cs : list nat) {struct l} : list slot :=
           match l with
           | [] => []
           | None :: r => None :: go r cs
           | Some (e, ch) :: r =>
             let k := length (resolve_bounds ch) in
             Some (e, resolve ch (firstn k cs)) :: go r (skipn k cs)
           end) sl cs in
    let used := length (flat_map (fun s => match s with Some (_, ch) => resolve_bounds ch | None => [] end) sl) in
    UNode n c (resolve_here sl1 (skipn used cs))
  end.
