(** Model of tree/algo.go Compare (the per-tree body, cpus = 1) and CompareWeighted, of
    tree/tree.go CompareTipIndexes and CommonEdges, of tree/edge.go FindEdge.

    The split index is a parameter of the model ([Section Gen]): it is instantiated
      - by the model of the real hash index (Model/EdgeIndex.v over Model/HashMap.v, load factor
        0.75, initial size 2*len(edges)) -> [compare_hm], [compare_weighted_hm];
      - by a plain association list keyed by the branch (equality = HashEquals =
        bitset.EqualOrComplement) -> [compare], [compare_weighted].
    The theorems (Proofs/Compare*.v) are about the association-list instance; the judge runs
    both and checks that they agree with each other and with the Go code.

    Numbers: Go [int] counters are [Z] (total - common can be negative when the compared tree is
    rooted: both root branches are found).  Lengths are exact rationals: for the dyadic lengths
    of the generators the float64 subtraction refLen - compLen is exact.
    Results: [None] = Go run-time panic; [Some (Err m)] = the function itself returns an error;
    [Some (Ok s)] = the record sent on the stats channel ([bs_err] = its Err field).
    No proofs in this file. *)
From Coq Require Import String NArith ZArith QArith Bool Arith List.
From GT Require Import Base.UTree Model.Reroot Model.Index Model.HashMap Model.EdgeIndex.
Import ListNotations.
Local Close Scope Q_scope.
Local Open Scope string_scope.

(** * branches of a tree as index keys, in Tree.Edges() order *)
Fixpoint number_from {A} (i : nat) (l : list A) : list (nat * A) :=
  match l with
  | [] => []
  | x :: r => (i, x) :: number_from (S i) r
  end.

(** [rows] and [edges] enumerate the branches in the same order (Tree.Edges()) *)
Definition branch_keys_of (tag : nat) (rws : list erow) (t : utree) : list ekey :=
  map (fun p => mkEK (tag, fst p) (fst (snd p)) (elen (fst (snd (snd p)))))
      (number_from 0 (combine rws (edges t))).

Definition branch_keys (tag : nat) (t : utree) : list ekey := branch_keys_of tag (rows t) t.

Definition key_tip (k : ekey) : bool := r_tip (ek_row k).

(** Tree.ReinitIndexes: [None] = panic (root is a tip), [Some (Err m)] = error *)
Definition reinit (tag : nat) (t : utree) : option (res (list string * list ekey)) :=
  match index_tables t with
  | Err m => if String.eqb m "panic" then None else Some (Err m)
  | Ok tb => Some (Ok (tb_names tb, branch_keys_of tag (tb_rows tb) t))
  end.

(** * Tree.CompareTipIndexes(t2): both name indexes non-empty, of the same size, every name of
    the receiver present in the argument.  [n1], [n2]: the (sorted, duplicate-free) tip names *)
Definition compare_tip_indexes (n1 n2 : list string) : string :=
  if Nat.eqb (length n1) 0 || Nat.eqb (length n2) 0 || negb (Nat.eqb (length n1) (length n2))
  then "Tip name index is not initialized or trees do not have the same number of tips"
  else if forallb (fun k => existsb (String.eqb k) n2) n1 then ""
  else "Trees do not have the same tip names".

Record bstats : Type := mkBS { bs_tree1 : Z; bs_tree2 : Z; bs_common : Z; bs_same : bool; bs_err : string }.
Record wstats : Type := mkWS { ws_tree1 : list Q; ws_tree2 : list Q; ws_common : list Q; ws_same : bool; ws_err : string }.

Definition count_if {A} (f : A -> bool) (l : list A) : Z := Z.of_nat (length (filter f l)).

Section Gen.
  Variable IX : Type.
  Variable ix_new : N -> IX.
  Variable ix_put : IX -> ekey -> Z -> Q -> option IX.
  Variable ix_value : IX -> ekey -> option (option einfo_v).

  (** index := NewEdgeIndex(uint64(len(edges)*2), 0.75);
      for i, e := range edges { index.PutEdgeValue(e, i, e.Length()) } *)
  Fixpoint put_all (m : IX) (i : Z) (ks : list ekey) : option IX :=
    match ks with
    | [] => Some m
    | k :: r => match ix_put m k i (ek_len k) with
                | Some m' => put_all m' (i + 1)%Z r
                | None => None
                end
    end.
  Definition build_index (ks : list ekey) : option IX :=
    put_all (ix_new (N.of_nat (length ks * 2))) 0%Z ks.

  (** ** Compare: the loop over the branches of the compared tree.
      state = (total2, common, sametree, left the loop by break) *)
  Definition cmp_state : Type := (Z * Z * bool * bool)%type.

  Definition cmp_step (tips ident : bool) (idx : IX) (st : option cmp_state) (e2 : ekey) : option cmp_state :=
    match st with
    | None => None
    | Some (total2, common, same, stopped) =>
      if stopped then st else
      let counted := tips || negb (key_tip e2) in
      let total2' := if counted then (total2 + 1)%Z else total2 in
      (* ok := true; if !e2.Right().Tip() { _, ok = index.Value(e2) } *)
      match (if key_tip e2 then Some true
             else match ix_value idx e2 with
                  | None => None
                  | Some v => Some (match v with Some _ => true | None => false end)
                  end) with
      | None => None
      | Some ok =>
        if ok then Some (total2', if counted then (common + 1)%Z else common, same, false)
        else Some (total2', common, false, ident)      (* sametree = false; if comparetreeidentical { break } *)
      end
    end.

  (** the body of the worker goroutine for one tree.  The test after CompareTipIndexes is
      "err == nil" on the OUTER variable (always nil there), not on inerr: the loop runs whatever
      CompareTipIndexes answered; inerr is only copied into the record. *)
  Definition compare_gen (tips ident : bool) (t1 t2 : utree) : option (res bstats) :=
    match reinit 0 t1 with
    | None => None
    | Some (Err m) => Some (Err m)          (* Compare returns (nil, err) *)
    | Some (Ok (names1, ks1)) =>
      match build_index ks1 with
      | None => None
      | Some idx =>
        let total := count_if (fun k => tips || negb (key_tip k)) ks1 in
        match reinit 1 t2 with
        | None => None
        | Some (Err m) => Some (Ok (mkBS total 0 0 false m))
        | Some (Ok (names2, ks2)) =>
          match fold_left (cmp_step tips ident idx) ks2 (Some (0%Z, 0%Z, true, false)) with
          | None => None
          | Some (total2, common, same, _) =>
            (* if sametree && total != common { sametree = false }   (after the loop, also after a break) *)
            let same' := if same && negb (Z.eqb total common) then false else same in
            Some (Ok (mkBS (total - common) (total2 - common) common same' (compare_tip_indexes names1 names2)))
          end
        end
      end
    end.

  (** ** CompareWeighted.  Loop 1 over the compared branches against the reference index,
      loop 2 over the reference branches against the index of the compared tree; a break leaves
      only the loop it is in. *)
  Definition w1_state : Type := (list Q * list Q * bool * bool)%type.   (* Common, Comp, sametree, stopped *)

  Definition w1_step (tips ident : bool) (ridx : IX) (st : option w1_state) (ce : ekey) : option w1_state :=
    match st with
    | None => None
    | Some (com, cmp, same, stopped) =>
      if stopped then st else
      if tips || negb (key_tip ce) then
        match ix_value ridx ce with
        | None => None
        | Some (Some (_, reflen)) =>
          if qeqb reflen (ek_len ce) then Some ((com ++ [(reflen - ek_len ce)%Q])%list, cmp, same, false)
          else if ident then Some (com, cmp, false, true)
          else Some ((com ++ [(reflen - ek_len ce)%Q])%list, cmp, false, false)
        | Some None =>
          if ident then Some (com, cmp, false, true)
          else Some (com, (cmp ++ [ek_len ce])%list, false, false)
        end
      else st
    end.

  Definition w2_state : Type := (list Q * bool * bool)%type.            (* Ref, sametree, stopped *)

  Definition w2_step (tips ident : bool) (cidx : IX) (st : option w2_state) (re : ekey) : option w2_state :=
    match st with
    | None => None
    | Some (rf, same, stopped) =>
      if stopped then st else
      if tips || negb (key_tip re) then
        match ix_value cidx re with
        | None => None
        | Some (Some _) => st
        | Some None =>
          if ident then Some (rf, false, true)
          else Some ((rf ++ [ek_len re])%list, false, false)
        end
      else st
    end.

  Definition compare_weighted_gen (tips ident : bool) (t1 t2 : utree) : option (res wstats) :=
    match reinit 0 t1 with
    | None => None
    | Some (Err m) => Some (Err m)
    | Some (Ok (names1, ks1)) =>
      match build_index ks1 with
      | None => None
      | Some ridx =>
        match reinit 1 t2 with
        | None => None
        | Some (Err m) => Some (Ok (mkWS [] [] [] false m))
        | Some (Ok (names2, ks2)) =>
          match build_index ks2 with
          | None => None
          | Some cidx =>
            match fold_left (w1_step tips ident ridx) ks2 (Some ([], [], true, false)) with
            | None => None
            | Some (com, cmp, same1, _) =>
              match fold_left (w2_step tips ident cidx) ks1 (Some ([], same1, false)) with
              | None => None
              | Some (rf, same2, _) =>
                Some (Ok (mkWS rf cmp com same2 (compare_tip_indexes names1 names2)))
              end
            end
          end
        end
      end
    end.
End Gen.

(** * instance 1: the hash index as coded (NewEdgeIndex(size, 0.75)) *)
(** float64(total) >= float64(capacity)*0.75 ; exact for the sizes at hand *)
Definition need75 (total : nat) (cap : N) : bool :=
  (Z.of_N cap * 3 <=? Z.of_nat total * 4)%Z.

Definition compare_hm : bool -> bool -> utree -> utree -> option (res bstats) :=
  compare_gen eindex new_edge_index (ei_put need75) ei_value.
Definition compare_weighted_hm : bool -> bool -> utree -> utree -> option (res wstats) :=
  compare_weighted_gen eindex new_edge_index (ei_put need75) ei_value.

(** * instance 2: association list keyed by the bipartition (first stored equal key wins,
    its value is overwritten by later puts, as in PutValue) *)
Definition aindex : Type := list (ekey * einfo_v).
Definition ai_new (_ : N) : aindex := [].
Definition ai_put (a : aindex) (k : ekey) (c : Z) (l : Q) : option aindex :=
  Some (assoc_put ekey einfo_v ekey_eqb a k (c, l)).
Definition ai_value (a : aindex) (k : ekey) : option (option einfo_v) :=
  Some (assoc_value ekey einfo_v ekey_eqb a k).

Definition compare : bool -> bool -> utree -> utree -> option (res bstats) :=
  compare_gen aindex ai_new ai_put ai_value.
Definition compare_weighted : bool -> bool -> utree -> utree -> option (res wstats) :=
  compare_weighted_gen aindex ai_new ai_put ai_value.

(** * Tree.CommonEdges(t2, tipEdges) / CommonEdges(edges1, edges2, tipEdges) with Edge.FindEdge
    (linear search; FindEdge returns the receiver when it finds an equal branch).
    The indexes of both trees are supposed initialised (as the Go comment demands). *)
Fixpoint common_edges_loop (tip_edges : bool) (rows1 rows2 : list erow) (tree1 common : Z) : res (Z * Z) :=
  match rows1 with
  | [] => Ok ((tree1 - common)%Z, common)
  | e :: r =>
    if tip_edges || negb (r_tip e) then
      match find_edge e rows2 with
      | Err m => Err m
      | Ok found => common_edges_loop tip_edges r rows2 (tree1 + 1)%Z (if found then (common + 1)%Z else common)
      end
    else common_edges_loop tip_edges r rows2 tree1 common
  end.

Definition common_edges (tip_edges : bool) (t1 t2 : utree) : res (Z * Z) :=
  match compare_tip_indexes (sorted_tip_names t1) (sorted_tip_names t2) with
  | EmptyString => common_edges_loop tip_edges (rows t1) (rows t2) 0%Z 0%Z
  | m => Err m
  end.
