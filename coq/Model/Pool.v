(** The one concurrency pattern of gotree (tree.Compare, tree.CompareWeighted, support.FBP and,
    per bootstrap tree, support.TBE): a producer sends jobs on a channel and closes it; [n]
    workers `range` over the channel, run the job body, send a result; a closer goroutine does
    `wg.Wait(); close(out)`; the caller drains the results.

    Small-step interleaving semantics.  A schedule is a list of agent indexes: 0 is the
    producer, i+1 is worker i; each step of an agent is one atomic action (receive / compute
    and send / observe the closed channel and signal Done).  A blocked agent stutters.
    The job body is a pure function of the job ([f]) — that is the hypothesis "workers touch
    only worker-local state", which Gen/Pools.v checks on the source (no captured variable
    assigned inside a worker literal).  [fails j] says the job carries an error or is malformed;
    [on_fail] says what the worker body does then; [done_on_exit] says whether every exit path
    of the worker signals completion (defer wg.Done()), also extracted in Gen/Pools.v.
    No proofs in this file. *)
From Coq Require Import Bool Arith List.
Import ListNotations.

Section Pool.
  Variables (job res err : Type).
  Variable f : job -> res.          (* result sent for a job *)
  Variable fails : job -> bool.     (* erroneous / malformed job *)
  Variable e_of : job -> err.       (* the error such a job yields *)

  Inductive fail_mode := Continue   (* the error is put into the result record, the worker goes on (Compare, CompareWeighted) *)
                       | Stop.      (* the worker records the error and returns (FBP) *)
  Variable on_fail : fail_mode.
  Variable done_on_exit : bool.     (* every return path of the worker runs wg.Done() *)

  Inductive wstate :=
  | Idle                (* at the head of `for j := range jobs` *)
  | Busy (j : job)      (* holding a job *)
  | Exited              (* left the loop and signalled Done *)
  | Dead.               (* returned WITHOUT signalling Done *)

  Record st := mkSt {
    pending : list job;     (* not yet sent by the producer *)
    closed : bool;          (* the producer has closed the job channel *)
    queue : list job;       (* sent, not yet received *)
    ws : list wstate;       (* the workers *)
    out : list res;         (* results received by the caller so far, in arrival order *)
    errs : list err         (* errors that reached the caller *)
  }.

  Definition set_nth {A} (k : nat) (x : A) (l : list A) : list A :=
    firstn k l ++ match skipn k l with [] => [] | _ :: r => x :: r end.

  Definition producer_step (s : st) : st :=
    match pending s with
    | j :: p => mkSt p (closed s) (queue s ++ [j]) (ws s) (out s) (errs s)
    | [] => mkSt [] true (queue s) (ws s) (out s) (errs s)
    end.

  Definition worker_step (s : st) (i : nat) : st :=
    match nth_error (ws s) i with
    | None => s
    | Some Idle =>
      match queue s with
      | j :: q => mkSt (pending s) (closed s) q (set_nth i (Busy j) (ws s)) (out s) (errs s)
      | [] => if closed s
              then mkSt (pending s) (closed s) [] (set_nth i Exited (ws s)) (out s) (errs s)
              else s                                             (* blocked on an empty open channel *)
      end
    | Some (Busy j) =>
      if fails j then
        match on_fail with
        | Continue => mkSt (pending s) (closed s) (queue s) (set_nth i Idle (ws s)) (out s ++ [f j]) (errs s ++ [e_of j])
        | Stop => mkSt (pending s) (closed s) (queue s)
                       (set_nth i (if done_on_exit then Exited else Dead) (ws s)) (out s) (errs s ++ [e_of j])
        end
      else mkSt (pending s) (closed s) (queue s) (set_nth i Idle (ws s)) (out s ++ [f j]) (errs s)
    | Some Exited => s
    | Some Dead => s
    end.

  Definition step (s : st) (a : nat) : st :=
    match a with O => producer_step s | S i => worker_step s i end.

  Definition run (sched : list nat) (s : st) : st := fold_left step sched s.

  Definition init (jobs : list job) (n : nat) : st := mkSt jobs false [] (repeat Idle n) [] [].

  Definition is_exited (w : wstate) : bool := match w with Exited => true | _ => false end.
  (** wg.Wait() returns, the result channel is closed, the caller's loop ends *)
  Definition finished (s : st) : bool := forallb is_exited (ws s).

  Definition busy_jobs (s : st) : list job :=
    flat_map (fun w => match w with Busy j => [j] | _ => [] end) (ws s).

  (** a schedule that lets everything run to completion from any state with n workers:
      the producer |pending|+1 times, then round-robin over the workers *)
  Fixpoint round_robin (n rounds : nat) : list nat :=
    match rounds with O => [] | S r => map S (seq 0 n) ++ round_robin n r end.
  Definition drain_schedule (s : st) : list nat :=
    repeat 0 (S (length (pending s))) ++
    round_robin (length (ws s)) (2 * (length (pending s) + length (queue s) + 1) + 1).
End Pool.

Arguments Idle {job}. Arguments Busy {job}. Arguments Exited {job}. Arguments Dead {job}.
