(** Word-level model of github.com/fredericlemoine/bitset v1.2.0 (bitset.go), the functions gotree
    uses on branch bitsets: New, Set, Test, ClearAll, None, Equal, ComplementTest,
    EqualOrComplement.  A BitSet is {length uint; set []uint64}: [wb_len], [wb_set] (words as N
    below 2^64).  uint64 operations: [1 << k] = N.shiftl 1 k, [|=] = N.lor (N.setbit),
    [x & (1<<k) != 0] = N.testbit x k, [^v] = N.lxor v (2^64-1), [allBits >> s] = N.shiftr.
    Indexing outside a slice is a run-time panic: [None].
    Not modelled: the Cap() overflow branch of wordsNeeded (lengths above 2^64-64), and the
    growth of Set beyond the current length (extendSetMaybe), which gotree never triggers: tip
    ids are below the number of tips (Proofs/IndexBase.index_of_lt).  No proofs in this file. *)
From Coq Require Import NArith Bool Arith List.
Import ListNotations.

Record wbits : Type := mkWB { wb_len : nat; wb_set : list N }.

Definition ones64 : N := 18446744073709551615%N.       (* allBits = 0xffffffffffffffff *)

(** wordsNeeded(i) = (i + (wordSize - 1)) >> log2WordSize *)
Definition words_needed (i : nat) : nat := (i + 63) / 64.

(** New(length): &BitSet{length, make([]uint64, wordsNeeded(length))} *)
Definition w_new (n : nat) : wbits := mkWB n (repeat 0%N (words_needed n)).

(** Test(i): if i >= b.length { return false }; b.set[i>>6] & (1 << (i & 63)) != 0 *)
Definition w_test (b : wbits) (i : nat) : option bool :=
  if Nat.leb (wb_len b) i then Some false
  else match nth_error (wb_set b) (i / 64) with
       | None => None
       | Some w => Some (N.testbit w (N.of_nat (i mod 64)))
       end.

Fixpoint upd_word (p : nat) (f : N -> N) (l : list N) : option (list N) :=
  match l, p with
  | [], _ => None
  | w :: r, O => Some (f w :: r)
  | w :: r, S p' => match upd_word p' f r with Some r' => Some (w :: r') | None => None end
  end.

(** Set(i), i < b.length: b.set[i>>6] |= 1 << (i & 63) *)
Definition w_set (b : wbits) (i : nat) : option wbits :=
  match upd_word (i / 64) (fun w => N.lor w (N.shiftl 1 (N.of_nat (i mod 64)))) (wb_set b) with
  | Some s => Some (mkWB (wb_len b) s)
  | None => None
  end.

(** ClearAll: for i := range b.set { b.set[i] = 0 } *)
Definition w_clear_all (b : wbits) : wbits := mkWB (wb_len b) (map (fun _ => 0%N) (wb_set b)).

(** None: for _, word := range b.set { if word > 0 { return false } }; return true *)
Definition w_none (b : wbits) : bool := forallb (fun w => negb (N.ltb 0 w)) (wb_set b).

(** for p, v := range bs { if cs[p] != f(p, v) { return false } }; return true *)
Fixpoint words_cmp (f : nat -> N -> N) (p : nat) (bs cs : list N) : option bool :=
  match bs with
  | [] => Some true
  | v :: r =>
    match nth_error cs p with
    | None => None
    | Some c => if negb (N.eqb c (f p v)) then Some false else words_cmp f (S p) r cs
    end
  end.

(** Equal *)
Definition w_equal (b c : wbits) : option bool :=
  if negb (Nat.eqb (wb_len b) (wb_len c)) then Some false
  else if Nat.eqb (wb_len b) 0 then Some true
  else words_cmp (fun _ v => v) 0 (wb_set b) (wb_set c).

(** ComplementTest:
      lastword := wordsNeeded(b.length) - 1;  even := b.length%wordSize == 0
      toapply := allBits >> (wordSize - b.length%wordSize)
      for p, v := range b.set { v = ^v; if p == lastword && !even { v &= toapply }; if c.set[p] != v { return false } } *)
Definition w_complement_test (b c : wbits) : option bool :=
  if negb (Nat.eqb (wb_len b) (wb_len c)) then Some false
  else if Nat.eqb (wb_len b) 0 then Some true
  else
    let lastword := words_needed (wb_len b) - 1 in
    let even := Nat.eqb (wb_len b mod 64) 0 in
    let toapply := N.shiftr ones64 (N.of_nat (64 - wb_len b mod 64)) in
    words_cmp (fun p v => let v' := N.lxor v ones64 in
                          if Nat.eqb p lastword && negb even then N.land v' toapply else v')
              0 (wb_set b) (wb_set c).

(** EqualOrComplement: b.Equal(c) || b.ComplementTest(c) *)
Definition w_equal_or_complement (b c : wbits) : option bool :=
  match w_equal b c with
  | None => None
  | Some true => Some true
  | Some false => w_complement_test b c
  end.

(** the bits a word-level set stands for *)
Definition w_bit (s : list N) (i : nat) : bool := N.testbit (nth (i / 64) s 0%N) (N.of_nat (i mod 64)).
Definition to_bits (b : wbits) : list bool := map (w_bit (wb_set b)) (seq 0 (wb_len b)).
