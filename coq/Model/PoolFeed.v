(** ReadMultiTrees (io/utils/readtrees.go) and its consumers: a goroutine sends the parsed trees
    into a channel of capacity [c] (10 in the source; 0 = unbuffered); on a parse error it sends
    one more record carrying the error, then closes the channel.  The consumers (the workers of
    the pools) receive until the channel is closed and empty.

    [blocking_err = true]: the error record is sent like the others (`ch <- rec`, the source).
    [blocking_err = false]: the seeded regression — `select { case ch <- rec: default: }`: the
    record is dropped when the send cannot proceed at once (buffer full; with an unbuffered
    channel: no receiver parked at that instant — the consumers are busy workers, so the model
    takes the worst case and drops it).

    Schedule: 0 = producer, i+1 = consumer i.  A blocked agent stutters.  [got] is everything the
    consumer side has received, in the order of the receives.  No proofs in this file. *)
From Coq Require Import Bool Arith List.
From GT Require Import Model.Pool.
Import ListNotations.

Section Feed.
  Variable item : Type.
  Variable c : nat.                 (* capacity of the channel *)
  Variable blocking_err : bool.

  Record fst_ := mkF {
    fsrc : list item;               (* records still to send *)
    ferr : option item;             (* the error record still to send, if the input is malformed *)
    fclosed : bool;
    fchan : list item;              (* the buffer *)
    fgot : list item;               (* received by the consumers *)
    fcons : list bool               (* per consumer: has left its range loop *)
  }.

  Definition fproducer_step (s : fst_) : fst_ :=
    match fsrc s with
    | x :: r =>
      if length (fchan s) <? c
      then mkF r (ferr s) (fclosed s) (fchan s ++ [x]) (fgot s) (fcons s)
      else s
    | [] =>
      match ferr s with
      | Some e =>
        if length (fchan s) <? c
        then mkF [] None (fclosed s) (fchan s ++ [e]) (fgot s) (fcons s)
        else if blocking_err then s                                  (* blocked *)
             else mkF [] None (fclosed s) (fchan s) (fgot s) (fcons s)   (* default: dropped *)
      | None => mkF [] None true (fchan s) (fgot s) (fcons s)
      end
    end.

  Definition fconsumer_step (s : fst_) (i : nat) : fst_ :=
    match nth_error (fcons s) i with
    | None | Some true => s
    | Some false =>
      match fchan s with
      | x :: q => mkF (fsrc s) (ferr s) (fclosed s) q (fgot s ++ [x]) (fcons s)
      | [] =>
        match c, fsrc s, ferr s with
        | 0, x :: r, _ => mkF r (ferr s) (fclosed s) [] (fgot s ++ [x]) (fcons s)      (* rendez-vous *)
        | 0, [], Some e =>
          if blocking_err then mkF [] None (fclosed s) [] (fgot s ++ [e]) (fcons s)   (* rendez-vous *)
          else s
        | _, _, _ =>
          if fclosed s
          then mkF (fsrc s) (ferr s) (fclosed s) [] (fgot s) (set_nth i true (fcons s))
          else s
        end
      end
    end.

  Definition fstep (s : fst_) (a : nat) : fst_ :=
    match a with 0 => fproducer_step s | S i => fconsumer_step s i end.
  Definition frun (sched : list nat) (s : fst_) : fst_ := fold_left fstep sched s.

  Definition finit (items : list item) (err : option item) (k : nat) : fst_ :=
    mkF items err false [] [] (repeat false k).

  (** every consumer has left its loop *)
  Definition ffinished (s : fst_) : bool := forallb (fun b => b) (fcons s).

  (** what the producer set out to send *)
  Definition produced (items : list item) (err : option item) : list item :=
    items ++ match err with Some e => [e] | None => [] end.
End Feed.
