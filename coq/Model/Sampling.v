(** Model of the random selection loops: cmd/sample.go (reservoir sampling of trees, with and
    without replacement), cmd/prune.go randomTips, tree/tree.go ShuffleTips (rand.Perm),
    tree/node.go RotateNeighbors (Model/Reroot.v rotate_slots).  No proofs in this file.

    Every loop is a function of the CHOICE VECTOR (the successive rand.Intn results); the
    bound of every rand.Intn call is given by the [*_bounds] functions.  The reservoir loop is
    parameterised by the bound expression so that the textbook expression now in the Go code
    ([std_bound], rand.Intn(i+1)) and the one it replaced ([go_bound], rand.Intn(totaltrees) /
    rand.Intn(i), biased) are both instances. *)
From Coq Require Import String ZArith QArith Bool Arith List.
From GT Require Import Base.UTree Model.Reroot Model.Rand.
Import ListNotations.
Local Close Scope Q_scope.

(** ** cmd/sample.go, !replace  and  cmd/prune.go randomTips

      outtrees := make([]*tree.Tree, numtrees)            sampled = make([]string, n)
      for t := range treechan {                           for i, tip := range tr.Tips() {
        if totaltrees < numtrees {                          if i < n {
          outtrees[totaltrees] = t.Tree                       sampled[i] = tip.Name()
        } else {                                            } else {
          j := rand.Intn(totaltrees + 1)                      j := rand.Intn(i + 1)
          if j < numtrees { outtrees[j] = t.Tree }            if j < n { sampled[j] = tip.Name() }
        }                                                   }
        totaltrees++                                        total++
      }                                                   }
      if totaltrees < numtrees { outtrees = outtrees[:totaltrees] }     (same)

    [bnd i] is the argument of rand.Intn when the item of index i (0-based) arrives.
    A slot is [None] while it holds Go's zero value. *)
Definition go_bound (i : nat) : nat := i.
Definition std_bound (i : nat) : nat := S i.

Fixpoint res_loop {A} (bnd : nat -> nat) (k i : nat) (xs : list A) (cs : list nat) (out : list (option A))
  : option (list (option A)) :=
  match xs with
  | [] => Some (if Nat.ltb i k then firstn i out else out)
  | x :: xs' =>
    if Nat.ltb i k then res_loop bnd k (S i) xs' cs (set_nth i (Some x) out)
    else match cs with
         | [] => None
         | j :: cs' =>
           res_loop bnd k (S i) xs' cs' (if Nat.ltb j k then set_nth j (Some x) out else out)
         end
  end.

(** [None]: the choice vector is too short *)
Definition reservoir {A} (bnd : nat -> nat) (k : nat) (xs : list A) (cs : list nat) : option (list (option A)) :=
  res_loop bnd k 0 xs cs (repeat None k).

(** bounds of the successive rand.Intn calls for n items (a bound 0 makes rand.Intn panic:
    numtrees = 0 with at least one input tree) *)
Definition reservoir_bounds (bnd : nat -> nat) (k n : nat) : list nat := map bnd (seq k (n - k)).

(** the index expression as it is written in cmd/sample.go and cmd/prune.go (the per-seed
    predictions of Judge/C20.v tie it to the binary): rand.Intn(totaltrees + 1) / rand.Intn(i + 1)
    since the fixes 202a79d / 4c6febb; [go_bound] is the expression they replaced *)
Definition code_bound : nat -> nat := std_bound.

Definition sample_noreplace {A} := @reservoir A code_bound.
Definition random_tips (k : nat) (t : utree) (cs : list nat) : option (list (option string)) :=
  reservoir code_bound k (tip_names t) cs.

(** ** cmd/sample.go, replace

      for t := range treechan {
        totaltrees++
        for j := 0; j < numtrees; j++ {
          r := rand.Intn(totaltrees)
          if r == 0 { outtrees[j] = t.Tree }
        } }                                                                       *)
Fixpoint slot_loop {A} (x : A) (j k : nat) (cs : list nat) (out : list (option A))
  : option (list (option A) * list nat) :=
  match k with
  | O => Some (out, cs)
  | S k' => match cs with
            | [] => None
            | r :: cs' => slot_loop x (S j) k' cs' (if Nat.eqb r 0 then set_nth j (Some x) out else out)
            end
  end.

Fixpoint repl_loop {A} (k : nat) (xs : list A) (cs : list nat) (out : list (option A))
  : option (list (option A)) :=
  match xs with
  | [] => Some out
  | x :: xs' => match slot_loop x 0 k cs out with
                | Some (out', cs') => repl_loop k xs' cs' out'
                | None => None
                end
  end.

Definition sample_replace {A} (k : nat) (xs : list A) (cs : list nat) : option (list (option A)) :=
  repl_loop k xs cs (repeat None k).

Definition replace_bounds (k n : nat) : list nat := flat_map (fun i => repeat (S i) k) (seq 0 n).

(** ** Tree.ShuffleTips: tips[i].SetName(names[perm[i]]), tips = Tips(), names = AllTipNames(),
    perm = rand.Perm(len(names)) *)
Fixpoint rename_tips (f : nat -> string) (t : utree) (i : nat) {struct t} : utree * nat :=
  match t with
  | UNode n c sl =>
    let '(n', i1) := if Nat.eqb (length sl) 1 then (f i, S i) else (n, i) in
    let '(sl', i2) :=
        (fix go (l : list slot) (i : nat) : list slot * nat :=
           match l with
           | [] => ([], i)
           | None :: r => let '(r', i') := go r i in (None :: r', i')
           | Some (e, ch) :: r =>
             let '(ch', i') := rename_tips f ch i in
             let '(r', i'') := go r i' in
             (Some (e, ch') :: r', i'')
           end) sl i1 in
    (UNode n' c sl', i2)
  end.

Definition shuffle_tips (t : utree) (cs : list nat) : utree :=
  let names := all_tip_names t in
  let perm := go_perm cs in
  fst (rename_tips (fun i => nth (nth i perm 0) names EmptyString) t 0).

Definition shuffle_bounds (t : utree) : list nat := perm_bounds (length (all_tip_names t)).

(** ** Node.RotateNeighbors on a neighbour list of length n: Model/Reroot.v [rotate_slots],
    bounds 1..n *)
Definition rotate_neighbors {A} (cs : list nat) (l : list A) : list A :=
  fst (rotate_slots 0 (length l) cs l).
Definition rotate_neighbors_bounds (n : nat) : list nat := map S (seq 0 n).

(** ** finite spaces of choice vectors: all vectors within the given bounds *)
Fixpoint all_choices (bounds : list nat) : list (list nat) :=
  match bounds with
  | [] => [[]]
  | b :: bs => flat_map (fun v => map (cons v) (all_choices bs)) (seq 0 b)
  end.
