(** Model of tree/rearrange.go: NNIRearranger.Rearrange, newNNI, nni.Apply, nni.Undo.
    No proofs in this file.

    Go keeps the orientation of a branch in Edge.left/right; in [utree] the orientation is
    structural (the parent is the [None] slot, the branch data live in the parent's slot).
    What Apply does to the neigh/br arrays, in slot terms:

      n1 = e.Left()  (upper end of the central branch),  n2 = e.Right() (lower end),
      k  = n1.NodeIndex(n2)          j   = n2.NodeIndex(n1)   (n2's parent slot)
      n1_2 = n1.neigh[(k+2)%3]       n22 = n2.neigh[(j+2)%3]  (cross: n2.neigh[(j+1)%3])

    * n1_2 is a child of n1 (the root is n1 or lies behind n1_1): the contents of slot
      (k+2)%3 of n1 and of slot (j+2|1)%3 of n2 (branch data + subtree) are exchanged, every
      array keeps its length and every other slot its position.
    * n1_2 is the parent of n1 (e1.Right() == n1; also when that parent is a degree-2 root):
      the central branch is inverted.  The parent's slot that held n1 (with e1) now holds n2;
      n2's slot j (was the parent slot) holds the central branch and n1; n2's slot of n22
      becomes the parent slot; n1's slot k becomes its parent slot and n1's slot (k+2)%3
      (was the parent slot) holds e2 and n22.  Again no array changes its length or order.
    The moved nodes n1_2 / n22 only have one pointer overwritten in place
    (neigh[index of the old end] := the new end), i.e. their parent slot stays where it is.

    Undo is the same code with the roles exchanged (X = n2 and its moved neighbour n1_2,
    Y = n1 and its moved neighbour n22): it looks the four indexes up again in the applied
    tree and re-inverts the central branch when n1_2 is now the parent of n2. *)
From Coq Require Import String ZArith QArith Bool Arith List.
From GT Require Import Base.UTree Model.Reroot.
Import ListNotations.
Local Close Scope Q_scope.

(** ** where the branches are: parallel to [edges] (Tree.Edges()) *)
(** (path from the root to the branch's left node, slot index of the branch in that node) *)
Fixpoint edge_locs (t : utree) : list (list nat * nat) :=
  match t with
  | UNode _ _ sl =>
    (fix go (k : nat) (l : list slot) : list (list nat * nat) :=
       match l with
       | [] => []
       | None :: r => go (S k) r
       | Some (_, c) :: r =>
         ([], k) :: (if Nat.ltb 1 (degree c)
                     then map (fun q => (k :: fst q, snd q)) (edge_locs c) else [])
                 ++ go (S k) r
       end) 0 sl
  end.

(** Node.NodeIndex(parent): first index of the parent slot *)
Fixpoint up_index (sl : list slot) : option nat :=
  match sl with
  | [] => None
  | None :: _ => Some 0
  | Some _ :: r => match up_index r with Some i => Some (S i) | None => None end
  end.

(** ** a rearrangement (the nni struct) *)
(** Go remembers node pointers; the positional model remembers where they are:
    [r_path] the path to n1 in the tree the rearrangement was created for, [r_k] =
    n1.NodeIndex(n2), [r_j] = n2.NodeIndex(n1), [r_cross]; [r_edge] is the index of the
    central branch in Tree.Edges().  [r_flip] is identity bookkeeping only: Go's pointers n1,
    n2 denote the same nodes after Apply, while the node found at [r_path] after Apply is n1
    when the central branch kept its orientation and n2 when it was inverted; [r_flip]
    (= "n1_2 is n1's parent" at creation time) records which. *)
Record nni : Type := mkNNI {
  r_edge : nat; r_path : list nat; r_k : nat; r_j : nat; r_cross : bool; r_flip : bool }.

Definition n12_index (r : nni) : nat := Nat.modulo (r_k r + 2) 3.
Definition n22_index (r : nni) : nat :=
  if r_cross r then Nat.modulo (r_j r + 1) 3 else Nat.modulo (r_j r + 2) 3.

(** newNNI(t, e.Left(), e.Right(), cross) for the branch at [loc], both values of cross,
    guarded by Rearrange's test  e.Left().Nneigh() == 3 && e.Right().Nneigh() == 3 *)
Definition nni_at (t : utree) (i : nat) (loc : list nat * nat) : list nni :=
  let '(p, k) := loc in
  match node_at t p with
  | Some n1 =>
    match nth_error (uslots n1) k with
    | Some (Some (_, n2)) =>
      if Nat.eqb (degree n1) 3 && Nat.eqb (degree n2) 3 then
        match up_index (uslots n2) with
        | Some j =>
          let flip := match nth_error (uslots n1) (Nat.modulo (k + 2) 3) with
                      | Some None => true | _ => false end in
          [mkNNI i p k j false flip; mkNNI i p k j true flip]
        | None => []
        end
      else []
    | _ => []
    end
  | None => []
  end.

(** NNIRearranger.Rearrange: the proposals in enumeration order *)
Definition nni_list (t : utree) : list nni :=
  let locs := edge_locs t in
  flat_map (fun il => nni_at t (fst il) (snd il)) (combine (seq 0 (length locs)) locs).

(** ** the exchange, seen from the upper node of the central branch *)
(** [x] is the upper end X, its slot [a] holds the central branch and the lower end Y, whose
    parent slot is [b]; X's neighbour in slot [ia] and Y's child in slot [ib] are exchanged.
    If X's neighbour in [ia] is X's parent the central branch is inverted and the result is
    rooted at Y (it takes X's place in the parent's slot, under the same branch). *)
Definition swap_local (a b ia ib : nat) (x : utree) : option utree :=
  match x with
  | UNode nx cx slx =>
    match nth_error slx a with
    | Some (Some (ec, UNode ny cy sly)) =>
      match nth_error sly b, nth_error sly ib with
      | Some None, Some (Some mv2) =>
        match nth_error slx ia with
        | Some (Some mv1) =>
          Some (UNode nx cx
                  (set_nth ia (Some mv2)
                     (set_nth a (Some (ec, UNode ny cy (set_nth ib (Some mv1) sly))) slx)))
        | Some None =>
          Some (UNode ny cy
                  (set_nth b (Some (ec, UNode nx cx (set_nth a None (set_nth ia (Some mv2) slx))))
                     (set_nth ib None sly)))
        | None => None
        end
      | _, _ => None
      end
    | _ => None
    end
  end.

(** rewrite the subtree at path [p] *)
Fixpoint at_path (f : utree -> option utree) (p : list nat) (t : utree) : option utree :=
  match p with
  | [] => f t
  | k :: q =>
    match t with
    | UNode n c sl =>
      match nth_error sl k with
      | Some (Some (e, ch)) =>
        match at_path f q ch with
        | Some ch' => Some (UNode n c (set_nth k (Some (e, ch')) sl))
        | None => None
        end
      | _ => None
      end
    end
  end.

(** nni.Apply: X = n1, Y = n2 *)
Definition apply (r : nni) (t : utree) : option utree :=
  at_path (swap_local (r_k r) (r_j r) (n12_index r) (n22_index r)) (r_path r) t.

(** nni.Undo on the applied tree: X = n2 with its neighbour n1_2, Y = n1 with its neighbour
    n22.  Not inverted by Apply: n1 is still above n2 and the exchange of two children is
    the same operation seen from n1.  Inverted by Apply: n2 is above n1 and n1_2 is n2's
    parent, the central branch is inverted back. *)
Definition undo (r : nni) (t : utree) : option utree :=
  at_path (if r_flip r
           then swap_local (r_j r) (r_k r) (n22_index r) (n12_index r)
           else swap_local (r_k r) (r_j r) (n12_index r) (n22_index r)) (r_path r) t.

(** the loop of cmd/nni.go: Apply, (write), Undo for every proposal, on the same tree object *)
Fixpoint enumerate (rs : list nni) (t : utree) : option (list utree * utree) :=
  match rs with
  | [] => Some ([], t)
  | r :: rs' =>
    match apply r t with
    | None => None
    | Some t1 =>
      match undo r t1 with
      | None => None
      | Some t2 =>
        match enumerate rs' t2 with
        | Some (l, tf) => Some (t1 :: l, tf)
        | None => None
        end
      end
    end
  end.

Definition rearrange (t : utree) : option (list utree * utree) := enumerate (nni_list t) t.

(** ** the nni object with its [applied] flag *)
(** Apply starts with `if n.applied { return }` and ends with `n.applied = true`; Undo starts
    with `if !n.applied { return }` and ends with `n.applied = false`: a second Apply without
    Undo, an Undo without Apply and a second Undo do nothing and return no error; after
    Apply, Undo the object can be applied again. *)
Inductive op : Type := OpApply | OpUndo.

Definition step (r : nni) (o : op) (st : bool * utree) : option (bool * utree) :=
  let '(applied, t) := st in
  match o with
  | OpApply => if applied then Some st
               else match apply r t with Some t' => Some (true, t') | None => None end
  | OpUndo => if applied
              then match undo r t with Some t' => Some (false, t') | None => None end
              else Some st
  end.

(** the tree after every operation, and the final state *)
Fixpoint run_ops (r : nni) (ops : list op) (st : bool * utree) : option (list utree * (bool * utree)) :=
  match ops with
  | [] => Some ([], st)
  | o :: ops' =>
    match step r o st with
    | None => None
    | Some st1 =>
      match run_ops r ops' st1 with
      | Some (l, stf) => Some (snd st1 :: l, stf)
      | None => None
      end
    end
  end.

(** every proposal object (fresh: not applied) goes through the same operations, on the same
    tree object *)
Fixpoint enumerate_ops (ops : list op) (rs : list nni) (t : utree) : option (list (list utree) * utree) :=
  match rs with
  | [] => Some ([], t)
  | r :: rs' =>
    match run_ops r ops (false, t) with
    | None => None
    | Some (l, (_, t2)) =>
      match enumerate_ops ops rs' t2 with
      | Some (ls, tf) => Some (l :: ls, tf)
      | None => None
      end
    end
  end.

(** proposals kept by the caller and used after the enumeration, in the order [order]
    (indexes into the enumeration, possibly repeated) *)
Definition pick (t : utree) (order : list nat) : option (list nni) :=
  let rs := nni_list t in
  (fix go (l : list nat) : option (list nni) :=
     match l with
     | [] => Some []
     | i :: l' => match nth_error rs i, go l' with
                  | Some r, Some rl => Some (r :: rl)
                  | _, _ => None
                  end
     end) order.
