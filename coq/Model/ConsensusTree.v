(** The consensus tree as a function on [utree], independent of the pointer surgery of
    AddBipartition: insert each kept bipartition, named by its canonical side (the side without
    the least taxon), as a new clade below the deepest node whose leaves contain that side,
    grouping the children that lie inside it.  The tree stays rooted at the centre of the star and
    the least taxon stays a child of the root, so every clade other than that tip IS the canonical
    side of its branch.  [consensus_utree] builds the whole tree from the frequency table of the
    specification (Spec/ConsensusSpec.v) and the selection test of the code ([keep_split]).
    It has the same bipartitions, lengths and supports as the tree of Model/Consensus.v (whose
    neighbour order mirrors the Go code): checked by the judge on every case; the theorems about the
    construction (Proofs/ConsensusInsert.v, Proofs/ConsensusTreeMain.v) are about this function.
    No proofs in this file. *)
From Coq Require Import String ZArith QArith Bool Arith List.
From GT Require Import Base.UTree Spec.Obs Spec.ConsensusSpec Model.Consensus.
Import ListNotations.
Local Close Scope Q_scope.
Local Open Scope string_scope.

Definition slot_inside (k : list string) (s : slot) : bool :=
  match s with Some (_, ch) => ssubset (leaves ch) k | None => false end.
Definition slot_contains (k : list string) (s : slot) : bool :=
  match s with Some (_, ch) => ssubset k (leaves ch) | None => false end.

Fixpoint insert_clade (k : list string) (d : einfo) (t : utree) : utree :=
  match t with
  | UNode n c sl =>
    if existsb (slot_contains k) sl
    then UNode n c
           ((fix go (l : list slot) : list slot :=
               match l with
               | [] => []
               | None :: r => None :: go r
               | Some (e', ch) :: r =>
                 if ssubset k (leaves ch) then Some (e', insert_clade k d ch) :: r
                 else Some (e', ch) :: go r
               end) sl)
    else UNode n c (filter (fun s => negb (slot_inside k s)) sl
                    ++ [Some (d, UNode "" [] (None :: filter (slot_inside k) sl))])
  end.

(** the star tree on the taxa [all] (sorted), every tip branch with its mean length *)
Definition star_utree (all : list string) (tiplen : string -> Q) : utree :=
  UNode "" [] (map (fun x => Some (mkE (tiplen x) nilv nilv [], UNode x [] [None])) all).

(** the kept inner bipartitions of a collection, with (mean length, frequency) *)
Definition kept_keys (ts : list utree) (c64 : Q) : list key :=
  let n := length ts in
  match ts with
  | [] => []
  | t0 :: _ =>
    let nt := length (tipset t0) in
    filter (fun k => Nat.leb 2 (length k) && Nat.leb 2 (nt - length k)
                     && keep_split c64 (Z.of_nat n) (Z.of_nat (freq_count ts k)))
           (all_keys ts)
  end.

Definition key_data (ts : list utree) (k : key) : einfo :=
  mkE (mean (lens_of ts k)) (inject_Z (Z.of_nat (freq_count ts k)) / inject_Z (Z.of_nat (length ts)))%Q nilv [].

Definition tip_key (all : list string) (x : string) : key := canon_side all [x].

Definition consensus_utree (ts : list utree) (c64 : Q) : utree :=
  match ts with
  | [] => UNode "" [] []
  | t0 :: _ =>
    let all := tipset t0 in
    fold_left (fun t k => insert_clade k (key_data ts k) t) (kept_keys ts c64)
              (star_utree all (fun x => mean (lens_of ts (tip_key all x))))
  end.
