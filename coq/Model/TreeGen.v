(** Model of tree/treegen.go: RandomUniformBinaryTree, RandomYuleBinaryTree,
    RandomCaterpillarBinaryTree, RandomBalancedBinaryTree, StarTree, StarTreeFromName,
    AllTopologies / allTopologies_recur, with tree/tree.go GraftTipOnEdge, RerootFirst, Clone.
    No proofs in this file.

    Randomness: every generator is a function of
      - the CHOICE VECTOR [cs] (the successive results of rand.Intn), and
      - [ls], the successive results of gostats.Exp (one rand.Float64 each), opaque numbers.
    [<gen>_plan] lists the draws in the order the Go code makes them (Model/Rand2.v), so the
    judge can cut the recorded raw stream into [cs] and the stream positions behind [ls].

    Edge identity.  The Go code keeps pointers to edges in the slice [edges] (uniform) or reads
    [tip.br[0]] (Yule, caterpillar).  While a tree is being built, the model stores in the
    length field of an edge its creation index (= its index in the Go slice [edges]);
    [set_lens] finally replaces it by the last length the Go code assigned to that edge. *)
From Coq Require Import String Ascii ZArith QArith Bool Arith List.
From GT Require Import Base.UTree Model.Reroot Model.Rand2.
Import ListNotations.
Local Close Scope Q_scope.
Local Open Scope string_scope.
Local Open Scope list_scope.

(** ** strconv.Itoa / fmt.Sprintf("%d") on naturals *)
Fixpoint digits_le (fuel n : nat) : list nat :=
  match fuel with
  | O => []
  | S f => if Nat.ltb n 10 then [n] else (n mod 10) :: digits_le f (n / 10)
  end.
Definition digit_char (d : nat) : ascii := ascii_of_nat (48 + d).
Definition itoa (n : nat) : string :=
  string_of_list_ascii (map digit_char (rev (digits_le (S n) n))).

Definition tip_name (i : nat) : string := String.append "Tip" (itoa i).
Definition tip_node (nm : string) : utree := UNode nm [] [None].
Definition tipn (i : nat) : utree := tip_node (tip_name i).

(** ** results: Go returns (tree, err); [GPanic] is what the judge records when the real code
    panics (no modelled path panics since ReinitIndexes accepts a tip root) *)
Inductive gres : Type :=
| GOk (t : utree)
| GErr (msg : string)
| GPanic.

(** ** edges carrying their creation index *)
Definition eI (k : nat) : einfo := mkE (inject_Z (Z.of_nat k)) nilv nilv [].
Definition eid (e : einfo) : nat := Z.to_nat (Qnum (elen e)).
Definition eL (l : Q) : einfo := mkE l nilv nilv [].

(** ** GraftTipOnEdge(n, e): e = lnode -> rnode becomes lnode -e-> newnode, with
    newnode.neigh = [n (newedge), lnode (e), rnode (newedge2)]; the slot of lnode keeps [e],
    rnode's parent slot now holds newedge2 (in the model: stays the parent slot). *)
Definition graft_node (e1 e2 : einfo) (tip c : utree) : utree :=
  UNode "" [] [Some (e1, tip); None; Some (e2, c)].

(** graft on the edge whose creation index is [k] *)
Fixpoint graft_id (k : nat) (e1 e2 : einfo) (tip : utree) (t : utree) : utree :=
  match t with
  | UNode n c sl =>
    UNode n c (map (fun s => match s with
                             | None => None
                             | Some (e, ch) =>
                               if Nat.eqb (eid e) k then Some (e, graft_node e1 e2 tip ch)
                               else Some (e, graft_id k e1 e2 tip ch)
                             end) sl)
  end.

(** state of the insertion loops: the tree (rooted at n2), len(edges), and the sequence of
    edge indexes in the order of the e.SetLength(gostats.Exp(lambda)) calls *)
Definition gen_state : Type := (utree * nat * list nat)%type.

(** iteration i = 1 *)
Definition init_state (rooted : bool) : gen_state :=
  if rooted
  then (UNode "" [] [Some (eI 0, tipn 1); Some (eI 1, tipn 0)], 2, [0; 1])
  else (UNode (tip_name 0) [] [Some (eI 0, tipn 1)], 1, [0]).

(** default branch of the switch: graft tip i on edge k; e, newedge, newedge2 get a new
    length in this order; newedge and newedge2 are appended to [edges] *)
Definition graft_step (st : gen_state) (i k : nat) : gen_state :=
  let '(t, m, asg) := st in
  (graft_id k (eI m) (eI (S m)) (tipn i) t, S (S m), asg ++ [k; m; S m]).

(** the length an edge ends up with: the last SetLength on it *)
Fixpoint last_assign (asg : list nat) (ls : list Q) (k : nat) (acc : Q) : Q :=
  match asg, ls with
  | a :: asg', l :: ls' => last_assign asg' ls' k (if Nat.eqb a k then l else acc)
  | _, _ => acc
  end.

Fixpoint set_lens (f : nat -> Q) (t : utree) : utree :=
  match t with
  | UNode n c sl =>
    UNode n c (map (fun s => match s with
                             | None => None
                             | Some (e, ch) => Some (mkE (f (eid e)) (esup e) (epv e) (ecom e), set_lens f ch)
                             end) sl)
  end.

(** ** Tree.RerootFirst: the first node of Nodes() with 3 neighbours, then Reroot *)
Fixpoint find_index {A} (p : A -> bool) (l : list A) : option nat :=
  match l with
  | [] => None
  | x :: r => if p x then Some 0 else match find_index p r with Some i => Some (S i) | None => None end
  end.

Definition reroot_first (t : utree) : res utree :=
  match find_index (fun n => Nat.eqb (degree n) 3) (nodes t) with
  | Some i => reroot t i
  | None => Err "No nodes with 3 neighors have been found for rerooting"
  end.

(** the tail shared by the three insertion generators:
      if !rooted { err = t.RerootFirst() } ; t.ReinitIndexes() ; return t, err
    (the error of ReinitIndexes is dropped; a non-nil err makes every caller drop the tree). *)
Definition finish (rooted : bool) (t : utree) : gres :=
  match (if rooted then Ok t else reroot_first t) with
  | Ok t' => GOk t'
  | Err m => GErr m
  end.

Definition err_lt3u := "Cannot create an unrooted random binary tree with less than 3 tips".
Definition err_lt3 := "Cannot create a rooted random binary tree with less than 3 tips".

Definition close_state (rooted : bool) (ls : list Q) (st : gen_state) : gres :=
  let '(t, m, asg) := st in
  finish rooted (set_lens (fun k => last_assign asg ls k nilv) t).

(** ** RandomUniformBinaryTree *)
Fixpoint unif_loop (i : nat) (cs : list nat) (st : gen_state) : gen_state :=
  match cs with
  | [] => st
  | k :: cs' => unif_loop (S i) cs' (graft_step st i k)
  end.

Definition uniform_tree (n : nat) (rooted : bool) (cs : list nat) (ls : list Q) : gres :=
  if Nat.ltb n 3 && negb rooted then GErr err_lt3u
  else if Nat.ltb n 3 && rooted then GErr err_lt3
  else if negb (Nat.eqb (length cs) (n - 2)) then GErr "model: wrong number of choices"
  else close_state rooted ls (unif_loop 2 cs (init_state rooted)).

(** len(edges) before tip i (i >= 2) is inserted *)
Definition unif_bound (rooted : bool) (i : nat) : nat := if rooted then 2 * i - 2 else 2 * i - 3.
Definition init_plan (rooted : bool) : list draw := if rooted then [DFloat; DFloat] else [DFloat].
Definition uniform_plan (n : nat) (rooted : bool) : list draw :=
  if Nat.ltb n 3 then []
  else init_plan rooted ++
       flat_map (fun i => [DInt (unif_bound rooted i); DFloat; DFloat; DFloat]) (seq 2 (n - 2)).
Definition uniform_bounds (n : nat) (rooted : bool) : list nat := plan_bounds (uniform_plan n rooted).

(** ** RandomYuleBinaryTree: tips[j].br[0] *)
Definition first_edge_id (t : utree) : option nat :=
  match uslots t with
  | Some (e, _) :: _ => Some (eid e)
  | _ => None
  end.

(** the edge above the tip named [nm], strictly below [t] *)
Fixpoint find_tip_edge (nm : string) (t : utree) : option nat :=
  match t with
  | UNode _ _ sl =>
    fold_right (fun s acc =>
                  match s with
                  | None => acc
                  | Some (e, ch) =>
                    if is_tip ch && String.eqb (uname ch) nm then Some (eid e)
                    else match find_tip_edge nm ch with Some k => Some k | None => acc end
                  end) None sl
  end.

(** tip.br[0] for the tip node named [nm]: the root tip of the unrooted start keeps its first
    branch in slot 0; any other tip has a single slot, the branch to its parent *)
Definition tip_br0 (nm : string) (t : utree) : option nat :=
  if is_tip t && String.eqb (uname t) nm then first_edge_id t else find_tip_edge nm t.

(** one iteration; [None] = the tip was not found (cannot happen, see Proofs) *)
Definition tip_step (st : gen_state) (i j : nat) : option gen_state :=
  match tip_br0 (tip_name j) (fst (fst st)) with
  | Some k => Some (graft_step st i k)
  | None => None
  end.

Fixpoint yule_loop (i : nat) (cs : list nat) (st : gen_state) : option gen_state :=
  match cs with
  | [] => Some st
  | j :: cs' => match tip_step st i j with
                | Some st' => yule_loop (S i) cs' st'
                | None => None
                end
  end.

Definition yule_tree (n : nat) (rooted : bool) (cs : list nat) (ls : list Q) : gres :=
  if Nat.ltb n 3 && negb rooted then GErr err_lt3u
  else if Nat.ltb n 3 && rooted then GErr err_lt3
  else if negb (Nat.eqb (length cs) (n - 2)) then GErr "model: wrong number of choices"
  else match yule_loop 2 cs (init_state rooted) with
       | Some st => close_state rooted ls st
       | None => GErr "model: tip not found"
       end.

(** len(tips) = i at iteration i *)
Definition yule_plan (n : nat) (rooted : bool) : list draw :=
  if Nat.ltb n 3 then []
  else init_plan rooted ++ flat_map (fun i => [DInt i; DFloat; DFloat; DFloat]) (seq 2 (n - 2)).
Definition yule_bounds (n : nat) (rooted : bool) : list nat := plan_bounds (yule_plan n rooted).

(** ** RandomCaterpillarBinaryTree: lasttip.br[0], lasttip = Tip(i-1) at iteration i >= 2 *)
Fixpoint cat_loop (fuel : nat) (i : nat) (st : gen_state) : option gen_state :=
  match fuel with
  | O => Some st
  | S f => match tip_step st i (i - 1) with
           | Some st' => cat_loop f (S i) st'
           | None => None
           end
  end.

Definition caterpillar_tree (n : nat) (rooted : bool) (ls : list Q) : gres :=
  if Nat.ltb n 3 && negb rooted then GErr err_lt3u
  else if Nat.ltb n 3 && rooted then GErr err_lt3
  else match cat_loop (n - 2) 2 (init_state rooted) with
       | Some st => close_state rooted ls st
       | None => GErr "model: tip not found"
       end.

Definition caterpillar_plan (n : nat) (rooted : bool) : list draw :=
  if Nat.ltb n 3 then []
  else init_plan rooted ++ flat_map (fun _ => [DFloat; DFloat; DFloat]) (seq 2 (n - 2)).

(** ** RandomBalancedBinaryTree *)
(** randomBalancedBinaryTreeRecur on a node with [d] levels below it (d >= 1): the two child
    slots, the unused lengths, the next tip id.  Both lengths are drawn before the recursion. *)
Fixpoint bal_rec (d : nat) (ls : list Q) (id : nat) : list slot * list Q * nat :=
  match d with
  | O => ([], ls, id)
  | S d' =>
    let l1 := hd nilv ls in
    let l2 := hd nilv (tl ls) in
    let ls2 := tl (tl ls) in
    match d' with
    | O => ([Some (eL l1, tipn id); Some (eL l2, tipn (S id))], ls2, S (S id))
    | S _ =>
      let '(s1, ls3, id1) := bal_rec d' ls2 id in
      let '(s2, ls4, id2) := bal_rec d' ls3 id1 in
      ([Some (eL l1, UNode "" [] (None :: s1)); Some (eL l2, UNode "" [] (None :: s2))], ls4, id2)
    end
  end.

Definition balanced_tree (depth : nat) (rooted : bool) (ls : list Q) : gres :=
  if Nat.ltb depth 1 then GErr "Cannot create an random binary tree of depth < 1"
  else if Nat.ltb depth 2 && negb rooted then GErr "Cannot create an unrooted random binary tree of depth < 2"
  else
    let t := UNode "" [] (fst (fst (bal_rec depth ls 0))) in
    GOk (if rooted then t else unroot t).

Definition balanced_plan (depth : nat) (rooted : bool) : list draw :=
  if Nat.ltb depth 1 || (Nat.ltb depth 2 && negb rooted) then [] else repeat DFloat (2 ^ (S depth) - 2).

(** ** StarTree / StarTreeFromName *)
Definition one : Q := 1%Q.
Definition star_of (names : list string) : gres :=
  if Nat.ltb (length names) 2 then GErr "Cannot create a star tree with less than 2 tips"
  else GOk (UNode "" [] (map (fun nm => Some (eL one, tip_node nm)) names)).
Definition star_tree (n : nat) : gres := star_of (map tip_name (seq 0 n)).
Definition star_tree_from_name (names : list string) : gres := star_of names.

(** StarTreeFromTree(t): a star with one branch per tip branch of t (Tree.TipEdges() order), named
    and sized after it; then ReinitIndexes (its error -- duplicated names -- is returned) *)
Definition star_tree_from_tree (t : utree) : gres :=
  let es := tip_edges t in
  if Nat.ltb (length es) 2 then GErr "Cannot create a star tree with less than 2 tips"
  else GOk (UNode "" [] (map (fun p => Some (eL (elen (fst p)), tip_node (uname (snd p)))) es)).

(** ** AllTopologies *)
(** every tree obtained by grafting [tip] on one edge of [t], in the order of Tree.Edges()
    (the branch of a slot, then the branches below it, then the next slot); all three
    branches get NIL_LENGTH *)
Fixpoint grafts (tip : utree) (t : utree) : list utree :=
  match t with
  | UNode n c sl =>
    (fix go (pre : list slot) (l : list slot) : list utree :=
       match l with
       | [] => []
       | None :: r => go (pre ++ [None]) r
       | Some (e, ch) :: r =>
         UNode n c (pre ++ Some (eL nilv, graft_node (eL nilv) (eL nilv) tip ch) :: r)
         :: map (fun ch' => UNode n c (pre ++ Some (e, ch') :: r)) (grafts tip ch)
         ++ go (pre ++ [Some (e, ch)]) r
       end) [] sl
  end.

(** Tree.Clone: copyTreeRecur connects the copy of a child to the copy of its parent first,
    so the parent slot comes first in every copied node; CopyEdge copies length, support,
    p-value and comments *)
Definition clone_e (e : einfo) : einfo := mkE (elen e) (esup e) (epv e) (ecom e).
Fixpoint clone_sub (t : utree) : utree :=
  match t with
  | UNode n c sl =>
    UNode n c (None :: flat_map (fun s => match s with
                                          | None => []
                                          | Some (e, ch) => [Some (clone_e e, clone_sub ch)]
                                          end) sl)
  end.
Definition clone (t : utree) : utree :=
  match t with
  | UNode n c sl =>
    UNode n c (flat_map (fun s => match s with
                                  | None => []
                                  | Some (e, ch) => [Some (clone_e e, clone_sub ch)]
                                  end) sl)
  end.

(** name of the (k+1)-th tip: tipNames[k] or "Tip<k+1>" *)
Definition topo_name (names : list string) (k : nat) : string :=
  match names with
  | [] => String.append "Tip" (itoa (S k))
  | _ => nth k names ""
  end.

(** allTopologies_recur with [fuel] = nbTips - total *)
Fixpoint topo_rec (fuel : nat) (names : list string) (total : nat) (t : utree) : list utree :=
  match fuel with
  | O => [clone t]
  | S f => flat_map (topo_rec f names (S total)) (grafts (tip_node (topo_name names total)) t)
  end.

Definition all_topologies (n : nat) (rooted : bool) (names : list string) : res (list utree) :=
  if Nat.ltb n 3 && negb rooted then Err "Cannot create all non rooted topologies with less than 3 tips"
  else if Nat.ltb n 2 && rooted then Err "Cannot create all rooted topologies with less than 2 tips"
  else if Nat.ltb 0 (length names) && negb (Nat.eqb (length names) n)
       then Err "Length of tip name array is different from desired number of tips"
  else
    let tp k := Some (eL nilv, tip_node (topo_name names k)) in
    if rooted then Ok (topo_rec (n - 1) names 1 (UNode "" [] [tp 0]))
    else Ok (topo_rec (n - 3) names 3 (UNode "" [] [tp 0; tp 1; tp 2])).

(** (2k-1)!! written as df k = 1 * 3 * ... * (2k-1) *)
Fixpoint odd_fact (k : nat) : nat :=
  match k with
  | O => 1
  | S k' => (2 * k' + 1) * odd_fact k'
  end.
(** number of unrooted (n >= 3) / rooted (n >= 2) labelled binary topologies *)
Definition n_unrooted (n : nat) : nat := odd_fact (n - 2).   (* (2n-5)!! *)
Definition n_rooted (n : nat) : nat := odd_fact (n - 1).     (* (2n-3)!! *)
