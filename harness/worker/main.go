// Command worker runs the real gotree code on cases produced by the driver.
//
//	stdin :  PROP \t CASEID \t CASE-SEXP
//	stdout:  CASEID \t OBS-SEXP
package main

import (
	"bufio"
	"fmt"
	"math/rand"
	"os"
	"strconv"
	"strings"
	"sync"
	"sync/atomic"
)

// A handler runs one case and returns the observation (an association list).
type handler func(c *Sexp) *Sexp

var handlers = map[string]handler{}

func register(prop string, h handler) { handlers[prop] = h }

func errStr(err error) string {
	if err == nil {
		return ""
	}
	s := err.Error()
	if s == "" {
		return "error"
	}
	return s
}

// rawStream seeds the global source and returns its first k Int63 values, then re-seeds,
// so that the code under test sees exactly this stream.
func rawStream(seed int64, k int) *Sexp {
	rand.Seed(seed)
	r := L()
	for i := 0; i < k; i++ {
		r.List = append(r.List, A(fmt.Sprintf("%d", rand.Int63())))
	}
	rand.Seed(seed)
	return r
}

func runCase(h handler, c *Sexp) (obs *Sexp) {
	defer func() {
		if r := recover(); r != nil {
			obs = L(KV("panic", A(fmt.Sprintf("%v", r))))
		}
	}()
	return h(c)
}

// runParallel (worker -par K): all cases are read first, then K goroutines run them concurrently (each
// case on its own trees), and the observations are printed in input order.  Calls on different
// trees must not influence one another; the judge decides every observation as in a sequential run.
func runParallel(k int) {
	in := bufio.NewReaderSize(os.Stdin, 1<<20)
	var lines [][]string
	for {
		line, err := in.ReadString('\n')
		if parts := strings.SplitN(strings.TrimRight(line, "\n"), "\t", 3); len(parts) == 3 {
			lines = append(lines, parts)
		}
		if err != nil {
			break
		}
	}
	obs := make([]*Sexp, len(lines))
	var next int64 = -1
	var wg sync.WaitGroup
	for g := 0; g < k; g++ {
		wg.Add(1)
		go func() {
			defer wg.Done()
			for {
				i := int(atomic.AddInt64(&next, 1))
				if i >= len(lines) {
					return
				}
				parts := lines[i]
				if h, ok := handlers[parts[0]]; !ok {
					obs[i] = L(KV("panic", A("no handler for "+parts[0])))
				} else if c, perr := ParseSexp(parts[2]); perr != nil {
					obs[i] = L(KV("panic", A("bad case: "+perr.Error())))
				} else {
					obs[i] = runCase(h, c)
				}
			}
		}()
	}
	wg.Wait()
	out := bufio.NewWriterSize(os.Stdout, 1<<20)
	defer out.Flush()
	for i, parts := range lines {
		out.WriteString(parts[1])
		out.WriteByte('\t')
		out.WriteString(obs[i].String())
		out.WriteByte('\n')
	}
}

func main() {
	if len(os.Args) == 3 && os.Args[1] == "-par" {
		if k, err := strconv.Atoi(os.Args[2]); err == nil && k > 1 {
			runParallel(k)
			return
		}
	}
	in := bufio.NewReaderSize(os.Stdin, 1<<20)
	out := bufio.NewWriterSize(os.Stdout, 1<<20)
	defer out.Flush()
	for {
		line, err := in.ReadString('\n')
		if len(line) > 0 {
			line = strings.TrimRight(line, "\n")
			parts := strings.SplitN(line, "\t", 3)
			if len(parts) == 3 {
				h, ok := handlers[parts[0]]
				var obs *Sexp
				if !ok {
					obs = L(KV("panic", A("no handler for "+parts[0])))
				} else if c, perr := ParseSexp(parts[2]); perr != nil {
					obs = L(KV("panic", A("bad case: "+perr.Error())))
				} else {
					obs = runCase(h, c)
				}
				out.WriteString(parts[1])
				out.WriteByte('\t')
				out.WriteString(obs.String())
				out.WriteByte('\n')
				// flush per case: when the process dies on the next case, what was observed so far survives
				out.Flush()
			}
		}
		if err != nil {
			break
		}
	}
}
