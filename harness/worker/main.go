// Command worker runs the real gotree code on cases produced by the driver.
//
//	stdin :  PROP \t CASEID \t CASE-SEXP
//	stdout:  CASEID \t OBS-SEXP
package main

import (
	"bufio"
	"fmt"
	"math/rand"
	"os"
	"strings"
)

// A handler runs one case and returns the observation (an association list).
type handler func(c *Sexp) *Sexp

var handlers = map[string]handler{}

func register(prop string, h handler) { handlers[prop] = h }

func errStr(err error) string {
	if err == nil {
		return ""
	}
	s := err.Error()
	if s == "" {
		return "error"
	}
	return s
}

// rawStream seeds the global source and returns its first k Int63 values, then re-seeds,
// so that the code under test sees exactly this stream.
func rawStream(seed int64, k int) *Sexp {
	rand.Seed(seed)
	r := L()
	for i := 0; i < k; i++ {
		r.List = append(r.List, A(fmt.Sprintf("%d", rand.Int63())))
	}
	rand.Seed(seed)
	return r
}

func runCase(h handler, c *Sexp) (obs *Sexp) {
	defer func() {
		if r := recover(); r != nil {
			obs = L(KV("panic", A(fmt.Sprintf("%v", r))))
		}
	}()
	return h(c)
}

func main() {
	in := bufio.NewReaderSize(os.Stdin, 1<<20)
	out := bufio.NewWriterSize(os.Stdout, 1<<20)
	defer out.Flush()
	for {
		line, err := in.ReadString('\n')
		if len(line) > 0 {
			line = strings.TrimRight(line, "\n")
			parts := strings.SplitN(line, "\t", 3)
			if len(parts) == 3 {
				h, ok := handlers[parts[0]]
				var obs *Sexp
				if !ok {
					obs = L(KV("panic", A("no handler for "+parts[0])))
				} else if c, perr := ParseSexp(parts[2]); perr != nil {
					obs = L(KV("panic", A("bad case: "+perr.Error())))
				} else {
					obs = runCase(h, c)
				}
				out.WriteString(parts[1])
				out.WriteByte('\t')
				out.WriteString(obs.String())
				out.WriteByte('\n')
				// flush per case: when the process dies on the next case, what was observed so far survives
				out.Flush()
			}
		}
		if err != nil {
			break
		}
	}
}
