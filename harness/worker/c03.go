package main

import (
	"fmt"
	"io/ioutil"
	"log"

	"github.com/evolbioinfo/gotree/tree"
)

func init() { register("C03", c03) }

// C03: a history of edits applied to ONE tree object.  Case and observation formats are
// described in coq/Judge/C03.v.  Symbolic arguments (k-th tip, k-th inner node, tips below the
// j-th node) are resolved here against the current Go tree; the judge resolves them against
// the model state, independently.

// c03state is the standard observation of a tree: dump, audit, Newick text.
func c03state(t *tree.Tree) *Sexp {
	d, audit := ObserveTree(t)
	nw := ""
	// a structure that fails the audit is not handed to the code under test again: recursions over
	// an asymmetric or cyclic adjacency overflow the stack, which no recover() can catch
	if len(audit.List) == 0 {
		func() {
			defer func() {
				if r := recover(); r != nil {
					audit.List = append(audit.List, A(fmt.Sprintf("panic in Newick(): %v", r)))
				}
			}()
			nw = t.Newick()
		}()
	}
	return L(KV("tree", d), KV("audit", audit), KV("nw", A(nw)))
}

// c03broken tells whether a state observation carries audit problems.
func c03broken(st *Sexp) bool {
	a := st.Get("audit")
	return a != nil && len(a.List) > 0
}

type c03np struct {
	n, parent *tree.Node
}

// c03nodes lists the nodes in the order of Tree.Nodes(), with their parents.
func c03nodes(t *tree.Tree) []c03np {
	out := []c03np{}
	var rec func(cur, prev *tree.Node)
	rec = func(cur, prev *tree.Node) {
		out = append(out, c03np{cur, prev})
		for _, n := range cur.Neigh() {
			if n != prev {
				rec(n, cur)
			}
		}
	}
	rec(t.Root(), nil)
	return out
}

// c03below lists the names of the tips (nodes with one neighbour) at and below n, pre-order.
func c03below(n, parent *tree.Node, names *[]string) {
	if n.Nneigh() == 1 {
		*names = append(*names, n.Name())
	}
	for _, c := range n.Neigh() {
		if c != parent {
			c03below(c, n, names)
		}
	}
}

// c03sel resolves one selector: (tip k) | (lit "name") | (clade j).
func c03sel(t *tree.Tree, s *Sexp) []string {
	if s == nil || !s.IsList || len(s.List) != 2 {
		return []string{}
	}
	kind, v := s.List[0].Atom, s.List[1].Atom
	switch kind {
	case "lit":
		return []string{v}
	case "tip":
		k := atoi(v)
		tips := t.Tips()
		if len(tips) == 0 {
			return []string{""}
		}
		return []string{tips[k%len(tips)].Name()}
	case "clade":
		j := atoi(v)
		nodes := c03nodes(t)
		names := []string{}
		np := nodes[j%len(nodes)]
		c03below(np.n, np.parent, &names)
		return names
	}
	return []string{}
}

func atoi(s string) int {
	v := 0
	fmt.Sscanf(s, "%d", &v)
	return v
}

func c03sels(t *tree.Tree, s *Sexp) []string {
	out := []string{}
	if s == nil {
		return out
	}
	for _, x := range s.List {
		out = append(out, c03sel(t, x)...)
	}
	return out
}

func c03sel1(t *tree.Tree, s *Sexp) string {
	l := c03sel(t, s)
	if len(l) == 0 {
		return ""
	}
	return l[0]
}

// c03node resolves (sel inner|node) (i n): the node, or a node of no tree.
func c03node(t *tree.Tree, c *Sexp) *tree.Node {
	nodes := t.Nodes()
	i := c.Int("i")
	if c.Str("sel") == "inner" {
		inner := []*tree.Node{}
		for _, n := range nodes {
			if n.Nneigh() >= 2 {
				inner = append(inner, n)
			}
		}
		if len(inner) == 0 {
			return nil
		}
		return inner[i%len(inner)]
	}
	i = i % (len(nodes) + 1)
	if i == len(nodes) {
		return nil
	}
	return nodes[i]
}

func c03nraw(t *tree.Tree) int {
	s := 0
	for _, n := range t.Nodes() {
		s += n.Nneigh()
	}
	return 4*s + 16
}

// c03step runs one operation on *cur (clone/subtree replace *cur and append the old tree to
// *originals).  It returns the observation of the step and whether the history goes on.
//
// *held is the rearrangement kept by an earlier nni_hold step; it survives only steps that
// keep every node of the tree (sort, rotate, reroot, nni_release) and is dropped by any other step.
func c03step(cur **tree.Tree, originals *[]*tree.Tree, held *tree.Rearrangement, c *Sexp) (obs *Sexp, goOn bool) {
	t := *cur
	switch c.Str("op") {
	case "sort", "rotate", "reroot", "nni_apply_held", "nni_release":
	default:
		*held = nil
	}
	defer func() {
		if r := recover(); r != nil {
			obs = L(KV("panic", A(fmt.Sprintf("%v", r))))
			goOn = false
		}
	}()
	if c.Bool("reinit") {
		if err := t.ReinitIndexes(); err != nil {
			return L(KV("err", A(errStr(err))), KV("stage", A("reinit"))), false
		}
	}
	var operr error
	obs = L()
	switch c.Str("op") {
	case "reroot":
		n := c03node(t, c)
		if n == nil {
			n = tree.NewTree().NewNode()
		}
		operr = t.Reroot(n)
	case "unroot":
		t.UnRoot()
	case "outgroup":
		operr = t.RerootOutGroup(c.Bool("remove"), c.Bool("strict"), c03sels(t, c.Get("names"))...)
	case "midpoint":
		operr = t.RerootMidPoint()
	case "rotate":
		obs.List = append(obs.List, KV("raw", rawStream(int64(c.Int("seed")), c03nraw(t))))
		t.RotateInternalNodes()
	case "sort":
		t.SortNeighborsByTips()
	case "prune":
		operr = t.RemoveTips(c.Bool("revert"), c03sels(t, c.Get("names"))...)
	case "collapse_len":
		t.CollapseShortBranches(c.Float("l"), c.Bool("rr"), c.Bool("rt"))
	case "collapse_sup":
		t.CollapseLowSupport(c.Float("s"), c.Bool("rr"))
	case "collapse_depth":
		operr = t.CollapseTopoDepth(c.Int("min"), c.Int("max"), c.Bool("rr"), c.Bool("rt"))
	case "resolve":
		obs.List = append(obs.List, KV("raw", rawStream(int64(c.Int("seed")), c03nraw(t))))
		t.Resolve()
	case "rmsingle":
		t.RemoveSingleNodes()
	case "graft":
		g, err := BuildTree(c.Get("graft"))
		if err != nil {
			panic("build: " + err.Error())
		}
		operr = t.GraftTreeOnTip(c03sel1(t, c.Get("tip")), g)
	case "insert":
		groups := [][]string{}
		if gl := c.Get("groups"); gl != nil {
			for _, g := range gl.List {
				groups = append(groups, c03sels(t, g))
			}
		}
		operr = t.InsertIdenticalTips(groups)
	case "merge":
		t2, err := BuildTree(c.Get("t2"))
		if err != nil {
			panic("build: " + err.Error())
		}
		// as cmd/merge.go
		if err := t2.UpdateTipIndex(); err != nil {
			panic("index: " + err.Error())
		}
		operr = t.Merge(t2)
	case "nni":
		k, undo := c.Int("k"), c.Bool("undo")
		r := &tree.NNIRearranger{}
		count := 0
		r.Rearrange(t, func(re tree.Rearrangement) bool { count++; return true })
		if count > 0 {
			target, idx := k%count, 0
			r.Rearrange(t, func(re tree.Rearrangement) bool {
				if idx != target {
					idx++
					return true
				}
				if operr = re.Apply(); operr == nil && undo {
					mid := c03state(t)
					obs.List = append(obs.List, KV("mid", mid))
					if !c03broken(mid) {
						operr = re.Undo()
					}
				}
				return false
			})
		} else if undo {
			obs.List = append(obs.List, KV("mid", c03state(t)))
		}
	case "nni_hold":
		// Apply the k-th proposal and keep the rearrangement object for a later Undo
		k := c.Int("k")
		r := &tree.NNIRearranger{}
		count := 0
		r.Rearrange(t, func(re tree.Rearrangement) bool { count++; return true })
		if count > 0 {
			target, idx := k%count, 0
			r.Rearrange(t, func(re tree.Rearrangement) bool {
				if idx != target {
					idx++
					return true
				}
				if operr = re.Apply(); operr == nil {
					*held = re
				}
				return false
			})
		}
	case "nni_collect":
		// keep the k-th proposal without applying it
		k := c.Int("k")
		r := &tree.NNIRearranger{}
		count := 0
		r.Rearrange(t, func(re tree.Rearrangement) bool { count++; return true })
		if count > 0 {
			target, idx := k%count, 0
			r.Rearrange(t, func(re tree.Rearrangement) bool {
				if idx != target {
					idx++
					return true
				}
				*held = re
				return false
			})
		}
	case "nni_apply_held":
		if *held != nil {
			operr = (*held).Apply()
		}
	case "nni_release":
		if *held != nil {
			operr = (*held).Undo()
			*held = nil
		}
	case "rename":
		operr = t.Rename(map[string]string{c03sel1(t, c.Get("tip")): c.Str("to")})
	case "clone":
		cp := t.Clone()
		*originals = append(*originals, t)
		obs.List = append(obs.List, KV("orig", c03state(t)))
		*cur = cp
	case "subtree":
		n := c03node(t, c)
		if n == nil {
			operr = fmt.Errorf("harness: no such node")
		} else {
			cp := t.SubTree(n)
			*originals = append(*originals, t)
			obs.List = append(obs.List, KV("orig", c03state(t)))
			*cur = cp
		}
	default:
		panic("unknown op " + c.Str("op"))
	}
	if operr != nil {
		// the tree may be half modified when an operation refuses: only the refusal is observed
		return L(KV("err", A(errStr(operr))), KV("stage", A("op"))), false
	}
	st := c03state(*cur)
	obs.List = append(obs.List, KV("err", A("")))
	obs.List = append(obs.List, st.List...)
	// the history ends on a structure that fails the audit (the judge reports it at this step)
	return obs, !c03broken(st)
}

func c03(c *Sexp) *Sexp {
	// RerootOutGroup logs a warning for a non-monophyletic outgroup; keep stderr quiet
	log.SetOutput(ioutil.Discard)
	t, err := BuildTree(c.Get("tree"))
	if err != nil {
		return L(KV("panic", A("build: "+err.Error())))
	}
	start := c03state(t)
	steps := L()
	originals := []*tree.Tree{}
	var held tree.Rearrangement
	if ops := c.Get("ops"); ops != nil {
		for _, op := range ops.List {
			obs, goOn := c03step(&t, &originals, &held, op)
			steps.List = append(steps.List, obs)
			if !goOn {
				break
			}
		}
	}
	origs := L()
	for _, o := range originals {
		origs.List = append(origs.List, c03state(o))
	}
	_ = held
	return L(KV("start", start), KV("steps", steps), KV("originals", origs))
}
