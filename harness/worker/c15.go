package main

import (
	"fmt"
	"math/rand"
	"strings"

	"github.com/evolbioinfo/gotree/tree"
)

func init() { register("C15", c15) }

// c15edit applies one edit to t and reports whether the tree's text changed.
func c15edit(t *tree.Tree, edit string) bool {
	before := t.Newick()
	switch edit {
	case "rename":
		for _, tip := range t.Tips() {
			tip.SetName(tip.Name() + "_x")
			break
		}
	case "length":
		for _, e := range t.Edges() {
			if e.Length() == tree.NIL_LENGTH {
				e.SetLength(2.5)
			} else {
				e.SetLength(e.Length() + 1)
			}
		}
	case "support":
		for _, e := range t.Edges() {
			if !e.Right().Tip() {
				e.SetSupport(0.125)
			}
		}
	case "comment":
		for _, n := range t.Nodes() {
			n.AddComment("zz")
		}
		for _, e := range t.Edges() {
			e.AddComment("ee")
		}
	case "clearcomments":
		// truncates the comment slices in place, then appends: a slice that shares its array
		// with the twin's would overwrite the twin's comments
		t.ClearComments()
		for _, n := range t.Nodes() {
			n.AddComment("only")
		}
		for _, e := range t.Edges() {
			e.AddComment("eonly")
		}
	case "clearedgecomments":
		t.ClearEdgeComments()
		for _, e := range t.Edges() {
			e.AddComment("E1")
			e.AddComment("E2")
		}
	case "clearnodecomments":
		t.ClearNodeComments()
		for _, n := range t.Nodes() {
			n.AddComment("N1")
			n.AddComment("N2")
		}
	case "allfields":
		// every mutable field of every node and branch
		for i, n := range t.Nodes() {
			n.SetName(n.Name() + "_" + string(rune('a'+i%26)))
			n.AddComment("nc")
			n.SetDepth(7)
			n.SetId(1000 + i)
		}
		for i, e := range t.Edges() {
			e.SetLength(0.5 + float64(i))
			e.SetSupport(0.25)
			e.SetPValue(0.125)
			e.AddComment("ec2")
			e.SetId(2000 + i)
		}
	case "overwritecomments":
		// writes through the existing comment slices
		for _, n := range t.Nodes() {
			c := n.Comments()
			for i := range c {
				c[i] = "W"
			}
		}
		for _, e := range t.Edges() {
			c := e.Comments()
			for i := range c {
				c[i] = "W"
			}
		}
	case "removetip":
		for _, tip := range t.Tips() {
			t.RemoveTips(false, tip.Name())
			break
		}
	case "reindex":
		t.ReinitIndexes()
	case "shuffle":
		rand.Seed(20261001)
		t.ShuffleTips() // renames the tips by a permutation, then ReinitIndexes
	case "swapreindex":
		tips := t.Tips()
		if len(tips) >= 2 {
			a, b := tips[0], tips[len(tips)-1]
			na, nb := a.Name(), b.Name()
			a.SetName(nb)
			b.SetName(na)
		}
		t.ReinitIndexes()
	case "rerootreindex":
		var target *tree.Node
		for _, n := range t.Nodes() {
			if n != t.Root() && n.Nneigh() >= 2 {
				target = n
			}
		}
		if target != nil {
			t.Reroot(target) // re-indexes the branches (ReinitInternalIndexes)
		}
		t.ReinitIndexes()
	case "reroot":
		var target *tree.Node
		for _, n := range t.Nodes() {
			if n != t.Root() && n.Nneigh() >= 2 {
				target = n
			}
		}
		if target != nil {
			t.Reroot(target)
		}
	case "graft":
		// structural edits that move nodes between neighbour arrays
		t.UpdateTipIndex()
		g := tree.NewTree()
		r := g.NewNode()
		a := g.NewNode()
		a.SetName("ga")
		b := g.NewNode()
		b.SetName("gb")
		g.SetRoot(r)
		g.ConnectNodes(r, a)
		g.ConnectNodes(r, b)
		for _, tip := range t.Tips() {
			t.GraftTreeOnTip(tip.Name(), g)
			break
		}
	}
	return t.Newick() != before
}

// c15index reads the index state of t: per branch in Edges() order the bitset bits (TipPresent per
// tip id), NumTipsLeft/Right and HashCode; per tip in Tips() order its TipIndex.
func c15index(t *tree.Tree) string {
	var b strings.Builder
	ntips := len(t.Tips())
	for _, e := range t.Edges() {
		if e.Bitset() == nil {
			b.WriteString("nil")
		} else {
			for i := 0; i < ntips; i++ {
				if uint(i) < e.Bitset().Len() && e.TipPresent(uint(i)) {
					b.WriteByte('1')
				} else {
					b.WriteByte('0')
				}
			}
			fmt.Fprintf(&b, "/%d", e.Bitset().Len())
		}
		fmt.Fprintf(&b, ":%d:%d:%d;", e.NumTipsLeft(), e.NumTipsRight(), e.HashCode())
	}
	b.WriteString("|")
	for _, tip := range t.Tips() {
		fmt.Fprintf(&b, "%s=%d;", tip.Name(), tip.TipIndex())
	}
	return b.String()
}

// c15consistent compares every branch of t (SameBipartition) with the corresponding branch of an
// independently built and indexed tree made from t's own dump: T (all the same bipartition), F, or NA
// when t carries no complete index.
func c15consistent(t *tree.Tree) (res string) {
	defer func() {
		if r := recover(); r != nil {
			res = "F"
		}
	}()
	for _, e := range t.Edges() {
		if e.Bitset() == nil {
			return "NA"
		}
	}
	if _, err := t.NbTips(); err != nil {
		return "NA"
	}
	problems := []string{}
	d := DumpTree(t, &problems)
	fresh, err := BuildTree(d)
	if err != nil || len(problems) > 0 {
		return "NA"
	}
	if err := fresh.ReinitIndexes(); err != nil {
		return "NA"
	}
	e1 := t.Edges()
	e2 := fresh.Edges()
	if len(e1) != len(e2) {
		return "F"
	}
	for i := range e1 {
		if !e1[i].SameBipartition(e2[i]) || !e2[i].SameBipartition(e1[i]) {
			return "F"
		}
		if e1[i].NumTipsLeft() != e2[i].NumTipsLeft() || e1[i].NumTipsRight() != e2[i].NumTipsRight() {
			return "F"
		}
	}
	ft := fresh.Tips()
	for i, tip := range t.Tips() {
		if tip.TipIndex() != ft[i].TipIndex() {
			return "F"
		}
	}
	return "T"
}

// c15pair builds the original (indexes as asked) and takes the copy.
func c15pair(c *Sexp, op string) (orig, cp *tree.Tree, msg string) {
	orig, err := BuildTree(c.Get("tree"))
	if err != nil {
		return nil, nil, "build: " + err.Error()
	}
	if c.Bool("reinit") {
		if err := orig.ReinitIndexes(); err != nil {
			return nil, nil, "reinit: " + err.Error()
		}
	}
	if op == "clone" {
		cp = orig.Clone()
	} else {
		nodes := orig.Nodes()
		i := c.Int("i")
		if i >= len(nodes) {
			return nil, nil, "node index out of range"
		}
		cp = orig.SubTree(nodes[i])
	}
	return orig, cp, ""
}

// cases and observations: see coq/Judge/C15.v.
func c15(c *Sexp) *Sexp {
	op := c.Str("op")
	switch op {
	case "clone", "subtree":
		edit := c.Str("edit")
		// first pair: edit the copy, look at the original again
		orig, cp, msg := c15pair(c, op)
		if msg != "" {
			return L(KV("panic", A(msg)))
		}
		nwOrig := orig.Newick()
		nwCopy := cp.Newick()
		d, audit := ObserveTree(cp)
		ixOrig := c15index(orig)
		ixCopy := c15index(cp)
		okCopy0 := c15consistent(cp)
		changed1 := c15edit(cp, edit)
		da, auditA := ObserveTree(orig)
		nwOrigAfter := orig.Newick()
		ixOrigAfter := c15index(orig)
		okOrig := c15consistent(orig)
		// second pair: edit the original, look at the copy again
		orig2, cp2, msg := c15pair(c, op)
		if msg != "" {
			return L(KV("panic", A(msg)))
		}
		ixCopy2 := c15index(cp2)
		changed2 := c15edit(orig2, edit)
		dc, auditC := ObserveTree(cp2)
		nwCopyAfter := cp2.Newick()
		ixCopyAfter := c15index(cp2)
		okCopy := c15consistent(cp2)
		return L(KV("tree", d), KV("audit", audit), KV("nw_orig", A(nwOrig)), KV("nw_copy", A(nwCopy)),
			KV("orig_after", da), KV("audit_orig", auditA), KV("nw_orig_after", A(nwOrigAfter)),
			KV("copy_after", dc), KV("audit_copy", auditC), KV("nw_copy_after", A(nwCopyAfter)),
			KV("ix_orig", A(ixOrig)), KV("ix_orig_after", A(ixOrigAfter)), KV("ix_orig_ok", A(okOrig)),
			KV("ix_copy", A(ixCopy)), KV("ix_copy2", A(ixCopy2)), KV("ix_copy_after", A(ixCopyAfter)),
			KV("ix_copy0_ok", A(okCopy0)), KV("ix_copy_ok", A(okCopy)),
			KV("edit_changed", B(changed1 && changed2)))
	case "merge":
		t1, err := BuildTree(c.Get("t1"))
		if err != nil {
			return L(KV("panic", A("build: "+err.Error())))
		}
		t2, err := BuildTree(c.Get("t2"))
		if err != nil {
			return L(KV("panic", A("build: "+err.Error())))
		}
		if c.Bool("idx") {
			// as cmd/merge.go
			if err := t1.UpdateTipIndex(); err != nil {
				return L(KV("panic", A("index: "+err.Error())))
			}
			if err := t2.UpdateTipIndex(); err != nil {
				return L(KV("panic", A("index: "+err.Error())))
			}
		}
		operr := t1.Merge(t2)
		if operr != nil {
			return L(KV("err", A(errStr(operr))))
		}
		d, audit := ObserveTree(t1)
		return L(KV("err", A("")), KV("tree", d), KV("audit", audit))
	case "graft":
		t, err := BuildTree(c.Get("tree"))
		if err != nil {
			return L(KV("panic", A("build: "+err.Error())))
		}
		g, err := BuildTree(c.Get("graft"))
		if err != nil {
			return L(KV("panic", A("build: "+err.Error())))
		}
		if c.Bool("idx") {
			// as cmd/graft.go
			if err := t.UpdateTipIndex(); err != nil {
				return L(KV("panic", A("index: "+err.Error())))
			}
		}
		operr := t.GraftTreeOnTip(c.Str("tip"), g)
		if operr != nil {
			return L(KV("err", A(errStr(operr))))
		}
		d, audit := ObserveTree(t)
		return L(KV("err", A("")), KV("tree", d), KV("audit", audit))
	case "insert":
		t, err := BuildTree(c.Get("tree"))
		if err != nil {
			return L(KV("panic", A("build: "+err.Error())))
		}
		if c.Bool("idx") {
			// as cmd/repopulate.go
			if err := t.UpdateTipIndex(); err != nil {
				return L(KV("panic", A("index: "+err.Error())))
			}
		}
		groups := [][]string{}
		if gl := c.Get("groups"); gl != nil {
			for _, g := range gl.List {
				names := []string{}
				for _, a := range g.List {
					names = append(names, a.Atom)
				}
				groups = append(groups, names)
			}
		}
		operr := t.InsertIdenticalTips(groups)
		if operr != nil {
			return L(KV("err", A(errStr(operr))))
		}
		d, audit := ObserveTree(t)
		return L(KV("err", A("")), KV("tree", d), KV("audit", audit))
	case "rmsingle":
		t, err := BuildTree(c.Get("tree"))
		if err != nil {
			return L(KV("panic", A("build: "+err.Error())))
		}
		if c.Bool("idx") {
			if err := t.ReinitIndexes(); err != nil {
				return L(KV("panic", A("reinit: "+err.Error())))
			}
		}
		// as cmd/collapsesingle.go
		t.RemoveSingleNodes()
		d, audit := ObserveTree(t)
		return L(KV("err", A("")), KV("tree", d), KV("audit", audit))
	}
	return L(KV("panic", A("unknown op")))
}
