package main

import (
	"math/rand"
	"sort"
	"strconv"
	"strings"

	"github.com/evolbioinfo/goalign/io/fasta"
	"github.com/evolbioinfo/gotree/acr"
	"github.com/evolbioinfo/gotree/asr"
	"github.com/evolbioinfo/gotree/io/newick"
	"github.com/evolbioinfo/gotree/tree"
)

func init() { register("C12", c12) }

// cmd/acr.go and cmd/asr.go: the --algo switch
func c12AcrAlgo(s string) int {
	switch strings.ToLower(s) {
	case "acctran":
		return acr.ALGO_ACCTRAN
	case "deltran":
		return acr.ALGO_DELTRAN
	case "downpass":
		return acr.ALGO_DOWNPASS
	}
	return acr.ALGO_NONE
}

func c12AsrAlgo(s string) int {
	switch strings.ToLower(s) {
	case "acctran":
		return asr.ALGO_ACCTRAN
	case "deltran":
		return asr.ALGO_DELTRAN
	case "downpass":
		return asr.ALGO_DOWNPASS
	}
	return asr.ALGO_NONE
}

func c12Pairs(s *Sexp) (keys []string, vals []string) {
	if s == nil {
		return
	}
	for _, it := range s.List {
		if it.IsList && len(it.List) == 2 {
			keys = append(keys, it.List[0].Atom)
			vals = append(vals, it.List[1].Atom)
		}
	}
	return
}

func c12Build(s *Sexp) (*tree.Tree, *Sexp) {
	t, err := BuildTree(s)
	if err != nil {
		return nil, L(KV("panic", A("build: "+err.Error())))
	}
	if err := t.ReinitIndexes(); err != nil {
		return nil, L(KV("panic", A("reinit: "+err.Error())))
	}
	return t, nil
}

// one run of acr.ParsimonyAcr exactly as cmd/acr.go calls it (randomResolve=false)
func c12RunAcr(ts *Sexp, tipstates map[string]string, algo int, rr bool, seed int64) *Sexp {
	t, bad := c12Build(ts)
	if bad != nil {
		return bad
	}
	if rr {
		// cmd/root.go seeds the global source; every run of a case sees the same stream
		rand.Seed(seed)
	}
	statemap, nsteps, err := acr.ParsimonyAcr(t, tipstates, algo, rr)
	keys := make([]string, 0, len(statemap))
	for k := range statemap {
		keys = append(keys, k)
	}
	sort.Strings(keys)
	m := L()
	for _, k := range keys {
		m.List = append(m.List, L(A(k), A(statemap[k])))
	}
	d, audit := ObserveTree(t)
	return L(KV("err", A(errStr(err))), KV("steps", I(nsteps)), KV("map", m), KV("tree", d), KV("audit", audit))
}

func c12(c *Sexp) *Sexp {
	switch c.Str("kind") {
	case "acr":
		keys, vals := c12Pairs(c.Get("states"))
		tipstates := make(map[string]string)
		for i, k := range keys {
			tipstates[k] = vals[i]
		}
		algo := c12AcrAlgo(c.Str("algo"))
		rr := c.Bool("rr")
		seed := int64(c.Int("seed"))
		obs := c12RunAcr(c.Get("tree"), tipstates, algo, rr, seed)
		if t2 := c.Get("tree2"); t2 != nil {
			obs.List = append(obs.List, KV("rerooted", c12RunAcr(t2, tipstates, algo, rr, seed)))
		}
		if rr {
			obs.List = append(obs.List, KV("raw", rawStream(seed, c.Int("nraw"))))
		}
		return obs
	case "asr":
		names, seqs := c12Pairs(c.Get("aln"))
		var fa strings.Builder
		for i, n := range names {
			fa.WriteString(">" + n + "\n" + seqs[i] + "\n")
		}
		// cmd/asr.go: fasta.NewParser(r).Parse()
		al, err := fasta.NewParser(strings.NewReader(fa.String())).Parse()
		if err != nil {
			return L(KV("panic", A("fasta: "+err.Error())))
		}
		t, bad := c12Build(c.Get("tree"))
		if bad != nil {
			return bad
		}
		rr := c.Bool("rr")
		seed := int64(c.Int("seed"))
		if rr {
			rand.Seed(seed)
		}
		nsteps, err := asr.ParsimonyAsr(t, al, c12AsrAlgo(c.Str("algo")), rr)
		d, audit := ObserveTree(t)
		obs := L(KV("err", A(errStr(err))), KV("steps", Ints(nsteps)), KV("alphabet", I(al.Alphabet())),
			KV("tree", d), KV("audit", audit))
		if rr {
			obs.List = append(obs.List, KV("raw", rawStream(seed, c.Int("nraw"))))
		}
		// the character variant site by site, on a fresh copy of the tree
		if c.Bool("sitewise") {
			sites := L()
			for j := 0; j < al.Length(); j++ {
				tipstates := make(map[string]string)
				for i, n := range names {
					// the nucleotide at the site, case-insensitively (a and A are the same state)
					tipstates[n] = strings.ToUpper(seqs[i][j : j+1])
				}
				sites.List = append(sites.List, c12RunAcr(c.Get("tree"), tipstates, c12AcrAlgo(c.Str("algo")), false, 0))
			}
			obs.List = append(obs.List, KV("sites", sites))
		}
		return obs
	case "hist":
		// the tree has a history: parsed from Newick text (nodes carry parser ids), then edited through
		// the public API; it is dumped just before the reconstruction ("pre"), which the judge takes as input
		parse := func() (*tree.Tree, error) {
			return newick.NewParser(strings.NewReader(c.Str("newick"))).Parse()
		}
		t, perr := parse()
		if perr != nil {
			return L(KV("panic", A("newick: "+perr.Error())))
		}
		keys, vals := c12Pairs(c.Get("states"))
		tipstates := make(map[string]string)
		for i, k := range keys {
			tipstates[k] = vals[i]
		}
		algo := c12AcrAlgo(c.Str("algo"))
		// the same reconstruction on the tree as parsed (for the rooting-independence clause)
		steps0 := -1
		if t0, e0 := parse(); e0 == nil {
			if _, n0, e1 := acr.ParsimonyAcr(t0, tipstates, algo, false); e1 == nil {
				steps0 = n0
			}
		}
		operr := ""
		if ops := c.Get("ops"); ops != nil {
			for _, op := range ops.List {
				if !op.IsList || len(op.List) == 0 {
					continue
				}
				args := []string{}
				for _, a := range op.List[1:] {
					args = append(args, a.Atom)
				}
				var e error
				switch op.List[0].Atom {
				case "outgroup":
					e = t.RerootOutGroup(false, false, args...)
				case "midpoint":
					e = t.RerootMidPoint()
				case "resolve":
					sd, _ := strconv.Atoi(args[0])
					rand.Seed(int64(sd))
					t.Resolve()
				case "reroot":
					i, _ := strconv.Atoi(args[0])
					nodes := t.Nodes()
					if i < len(nodes) {
						e = t.Reroot(nodes[i])
					}
				case "graft":
					i, _ := strconv.Atoi(args[0])
					edges := t.Edges()
					if len(edges) > 0 {
						n := t.NewNode()
						n.SetName(args[1])
						_, _, _, e = t.GraftTipOnEdge(n, edges[i%len(edges)])
					}
				case "prune":
					e = t.RemoveTips(false, args...)
				case "collapse":
					t.CollapseShortBranches(0.25, false, false)
				}
				if e != nil && operr == "" {
					operr = op.List[0].Atom + ": " + e.Error()
				}
			}
		}
		pre, preaudit := ObserveTree(t)
		statemap, nsteps, err := acr.ParsimonyAcr(t, tipstates, algo, false)
		mkeys := make([]string, 0, len(statemap))
		for k := range statemap {
			mkeys = append(mkeys, k)
		}
		sort.Strings(mkeys)
		m := L()
		for _, k := range mkeys {
			m.List = append(m.List, L(A(k), A(statemap[k])))
		}
		d, audit := ObserveTree(t)
		return L(KV("err", A(errStr(err))), KV("steps", I(nsteps)), KV("map", m), KV("tree", d), KV("audit", audit),
			KV("pre", pre), KV("preaudit", preaudit), KV("operr", A(operr)), KV("steps0", I(steps0)))
	case "star":
		// a star tree with n tip children, built here (the case only gives the number of tips per state):
		// state i is carried by counts[i] tips; observed: steps, the states of the root, the number of
		// tips whose annotation is not their own state
		counts := c.IntList("counts")
		names := c.StrList("names")
		slots := L()
		tipstates := make(map[string]string)
		tipstate := []string{}
		id := 0
		for i, cnt := range counts {
			for j := 0; j < cnt; j++ {
				nm := "w" + strconv.Itoa(id)
				id++
				tipstates[nm] = names[i]
				tipstate = append(tipstate, names[i])
				slots.List = append(slots.List, L(A("D"), A("-1"), A("-1"), A("-1"), L(), L(A("N"), A(nm), L(), L(A("U")))))
			}
		}
		// no index is computed here (bit sets of 2^16 tips for 2^16 branches); ParsimonyAcr needs none
		t, berr := BuildTree(L(A("N"), A(""), L(), slots))
		if berr != nil {
			return L(KV("panic", A("build: "+berr.Error())))
		}
		_, nsteps, err := acr.ParsimonyAcr(t, tipstates, c12AcrAlgo(c.Str("algo")), false)
		altered := 0
		rootstates := L()
		if err == nil {
			for i, n := range t.Nodes() {
				cm := strings.Join(n.Comments(), "+")
				if i == 0 {
					for _, st := range strings.Split(cm, "|") {
						rootstates.List = append(rootstates.List, A(st))
					}
				} else if cm != tipstate[i-1] {
					altered++
				}
			}
		}
		return L(KV("err", A(errStr(err))), KV("steps", I(nsteps)), KV("root", rootstates), KV("altered", I(altered)))
	}
	return L(KV("panic", A("unknown kind")))
}
