package main

import (
	"github.com/evolbioinfo/gotree/tree"
)

func init() { register("C17", c17) }

// c17 drives the real NNIRearranger the way cmd/nni.go does (Apply, check, write, Undo, check
// inside the callback) and records the rearranged tree of every proposal, then the tree left
// after the whole enumeration.
func c17(c *Sexp) *Sexp {
	t, err := BuildTree(c.Get("tree"))
	if err != nil {
		return L(KV("panic", A("build: "+err.Error())))
	}
	if err := t.ReinitIndexes(); err != nil {
		return L(KV("panic", A("reinit: "+err.Error())))
	}
	orig, oaudit := ObserveTree(t)
	if len(oaudit.List) != 0 {
		return L(KV("panic", A("harness: the tree built fails the audit: "+oaudit.List[0].Atom)))
	}
	nw0 := t.Newick()

	props := L()
	var operr error
	r := &tree.NNIRearranger{}
	r.Rearrange(t, func(re tree.Rearrangement) bool {
		if operr = re.Apply(); operr != nil {
			return false
		}
		if operr = t.CheckTreePostOrder(); operr != nil {
			return false
		}
		d, audit := ObserveTree(t)
		props.List = append(props.List, L(KV("tree", d), KV("audit", audit), KV("nw", A(t.Newick()))))
		if operr = re.Undo(); operr != nil {
			return false
		}
		if operr = t.CheckTreePostOrder(); operr != nil {
			return false
		}
		return true
	})

	final, faudit := ObserveTree(t)
	return L(KV("err", A(errStr(operr))), KV("n", I(len(props.List))), KV("orig", orig), KV("nw0", A(nw0)),
		KV("props", props), KV("final", final), KV("audit", faudit), KV("nwf", A(t.Newick())))
}
