package main

import (
	"github.com/evolbioinfo/gotree/tree"
)

func init() { register("C17", c17) }

// c17 drives the real NNIRearranger the way cmd/nni.go does: ONE rearranger value is created
// before the loop over the trees of the input and reused for every tree; inside the callback
// Apply, CheckTreePostOrder, write, Undo, CheckTreePostOrder.  The rearranged tree of every
// proposal is recorded, then the tree left after the whole enumeration.
//
//	case ((tree T))            -> one observation
//	case ((trees (T1 T2 ...))) -> ((runs (obs1 obs2 ...))), same rearranger value for all
func c17(c *Sexp) *Sexp {
	r := &tree.NNIRearranger{}
	if ts := c.Get("trees"); ts != nil && ts.IsList {
		// all trees are built first (as the reader goroutine of cmd/nni.go may have parsed
		// several trees before the first one is rearranged)
		trees := make([]*tree.Tree, 0, len(ts.List))
		for _, s := range ts.List {
			t, err := BuildTree(s)
			if err != nil {
				return L(KV("panic", A("build: "+err.Error())))
			}
			if err := t.ReinitIndexes(); err != nil {
				return L(KV("panic", A("reinit: "+err.Error())))
			}
			trees = append(trees, t)
		}
		runs := L()
		for _, t := range trees {
			runs.List = append(runs.List, c17one(r, t))
		}
		return L(KV("runs", runs))
	}
	t, err := BuildTree(c.Get("tree"))
	if err != nil {
		return L(KV("panic", A("build: "+err.Error())))
	}
	if err := t.ReinitIndexes(); err != nil {
		return L(KV("panic", A("reinit: "+err.Error())))
	}
	return c17one(r, t)
}

// c17one is the body of the loop `for t := range treechan` of cmd/nni.go.  A panic of the code
// under test is recorded in the observation of this tree, the following trees still run with
// the same rearranger value.
func c17one(r *tree.NNIRearranger, t *tree.Tree) (obs *Sexp) {
	defer func() {
		if p := recover(); p != nil {
			obs = L(KV("panic", A(c17panicStr(p))))
		}
	}()
	orig, oaudit := ObserveTree(t)
	if len(oaudit.List) != 0 {
		return L(KV("panic", A("harness: the tree built fails the audit: "+oaudit.List[0].Atom)))
	}
	nw0 := t.Newick()

	props := L()
	var operr error
	r.Rearrange(t, func(re tree.Rearrangement) bool {
		if operr = re.Apply(); operr != nil {
			return false
		}
		if operr = t.CheckTreePostOrder(); operr != nil {
			return false
		}
		d, audit := ObserveTree(t)
		props.List = append(props.List, L(KV("tree", d), KV("audit", audit), KV("nw", A(t.Newick()))))
		if operr = re.Undo(); operr != nil {
			return false
		}
		if operr = t.CheckTreePostOrder(); operr != nil {
			return false
		}
		return true
	})

	final, faudit := ObserveTree(t)
	return L(KV("err", A(errStr(operr))), KV("n", I(len(props.List))), KV("orig", orig), KV("nw0", A(nw0)),
		KV("props", props), KV("final", final), KV("audit", faudit), KV("nwf", A(t.Newick())))
}

func c17panicStr(p interface{}) string {
	if e, ok := p.(error); ok {
		return e.Error()
	}
	if s, ok := p.(string); ok {
		return s
	}
	return "panic"
}
