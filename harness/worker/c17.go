package main

import (
	"fmt"
	"runtime"
	"sync"

	"github.com/evolbioinfo/gotree/tree"
)

func init() { register("C17", c17) }

// c17 drives the real NNIRearranger the way cmd/nni.go does: ONE rearranger value is created
// before the loop over the trees of the input and reused for every tree; inside the callback
// Apply, CheckTreePostOrder, write, Undo, CheckTreePostOrder.  The rearranged tree of every
// proposal is recorded, then the tree left after the whole enumeration.
//
//	case ((tree T))            -> one observation
//	case ((trees (T1 T2 ...))) -> ((runs (obs1 obs2 ...))), same rearranger value for all
//
// Optional keys of a single-tree case:
//
//	(ops (A U A U))   the operations done on every proposal object instead of Apply, Undo
//	                  (A = Apply, U = Undo), with CheckTreePostOrder and a dump after each
//	(collect (i ...)) the callback only KEEPS the proposal objects; after Rearrange has
//	                  returned they are visited in the order given by the entries of the list
//	                  that are < the number of proposals (an entry may occur several times)
func c17(c *Sexp) *Sexp {
	r := &tree.NNIRearranger{}
	if ts := c.Get("trees"); ts != nil && ts.IsList {
		// all trees are built first (as the reader goroutine of cmd/nni.go may have parsed
		// several trees before the first one is rearranged)
		trees := make([]*tree.Tree, 0, len(ts.List))
		for _, s := range ts.List {
			t, err := BuildTree(s)
			if err != nil {
				return L(KV("panic", A("build: "+err.Error())))
			}
			if err := t.ReinitIndexes(); err != nil {
				return L(KV("panic", A("reinit: "+err.Error())))
			}
			trees = append(trees, t)
		}
		runs := L()
		for _, t := range trees {
			runs.List = append(runs.List, c17one(r, t, nil, nil, nil))
		}
		return L(KV("runs", runs))
	}
	if ts := c.Get("par"); ts != nil && ts.IsList {
		return c17par(r, ts)
	}
	t, err := BuildTree(c.Get("tree"))
	if err != nil {
		return L(KV("panic", A("build: "+err.Error())))
	}
	if err := t.ReinitIndexes(); err != nil {
		return L(KV("panic", A("reinit: "+err.Error())))
	}
	if k := c.Get("keep"); k != nil && k.IsList {
		keep := map[int]bool{}
		for _, x := range k.List {
			var v int
			if _, err := fmt.Sscanf(x.Atom, "%d", &v); err != nil || v < 0 {
				return L(KV("panic", A("harness: bad index "+x.Atom)))
			}
			keep[v] = true
		}
		stop := -1
		if c.Get("stop") != nil {
			stop = c.Int("stop")
		}
		return c17greedy(r, t, keep, stop)
	}
	if c.Get("at") != nil {
		// a second enumeration with the SAME rearranger value is started from inside the callback
		// of the first one, while proposal number `at` is applied: on another tree (nested T2) or
		// on the same tree object (nestedsame), i.e. on the neighbour itself
		at := c.Int("at")
		var t2 *tree.Tree
		if n := c.Get("nested"); n != nil {
			if t2, err = BuildTree(n); err != nil {
				return L(KV("panic", A("build: "+err.Error())))
			}
			if err := t2.ReinitIndexes(); err != nil {
				return L(KV("panic", A("reinit: "+err.Error())))
			}
		} else {
			t2 = t
		}
		var inner *Sexp
		outer := c17one(r, t, nil, nil, func(i int) {
			if i == at {
				inner = c17one(r, t2, nil, nil, nil)
			}
		})
		runs := L(outer)
		if inner != nil {
			runs.List = append(runs.List, inner)
		}
		return L(KV("runs", runs))
	}
	var ops []string
	if o := c.Get("ops"); o != nil && o.IsList {
		ops = []string{}
		for _, x := range o.List {
			if x.Atom != "A" && x.Atom != "U" {
				return L(KV("panic", A("harness: unknown operation "+x.Atom)))
			}
			ops = append(ops, x.Atom)
		}
	}
	var collect []int
	if o := c.Get("collect"); o != nil && o.IsList {
		collect = []int{}
		for _, x := range o.List {
			var v int
			if _, err := fmt.Sscanf(x.Atom, "%d", &v); err != nil || v < 0 {
				return L(KV("panic", A("harness: bad index "+x.Atom)))
			}
			collect = append(collect, v)
		}
		if ops == nil {
			ops = []string{"A", "U"}
		}
	}
	return c17one(r, t, ops, collect, nil)
}

// c17one is the body of the loop `for t := range treechan` of cmd/nni.go.  A panic of the code
// under test is recorded in the observation of this tree, the following trees still run with
// the same rearranger value.
//
// hook (plain Apply/Undo visits only) is called with the rank of the proposal while it is applied.
func c17one(r *tree.NNIRearranger, t *tree.Tree, ops []string, collect []int, hook func(i int)) (obs *Sexp) {
	defer func() {
		if p := recover(); p != nil {
			obs = L(KV("panic", A(c17panicStr(p))))
		}
	}()
	orig, oaudit := ObserveTree(t)
	if len(oaudit.List) != 0 {
		return L(KV("panic", A("harness: the tree built fails the audit: "+oaudit.List[0].Atom)))
	}
	nw0 := t.Newick()

	props := L()
	var operr error

	// visit performs the operations on one proposal object; false = stop (an error occurred)
	visit := func(re tree.Rearrangement, idx int) bool {
		if ops == nil {
			// cmd/nni.go
			if operr = re.Apply(); operr != nil {
				return false
			}
			// the cycle-safe dump first: on a corrupted structure the recursive traversals of the code
			// under test (CheckTreePostOrder, Newick) may not terminate
			d, audit, nw, sane := c17dump(t)
			if !sane {
				props.List = append(props.List, L(KV("idx", I(idx)), KV("tree", d), KV("audit", audit), KV("nw", A(nw))))
				operr = fmt.Errorf("harness: the structure is corrupted after Apply: %s", audit.List[0].Atom)
				return false
			}
			if operr = t.CheckTreePostOrder(); operr != nil {
				return false
			}
			props.List = append(props.List, L(KV("idx", I(idx)), KV("tree", d), KV("audit", audit), KV("nw", A(nw))))
			if hook != nil {
				hook(idx)
			}
			if operr = re.Undo(); operr != nil {
				return false
			}
			if operr = t.CheckTreePostOrder(); operr != nil {
				return false
			}
			return true
		}
		steps := L()
		var first *Sexp // the dump after the first Apply
		for _, op := range ops {
			var e error
			if op == "A" {
				e = re.Apply()
			} else {
				e = re.Undo()
			}
			d, audit, nw, sane := c17dump(t)
			if e == nil && !sane {
				e = fmt.Errorf("harness: the structure is corrupted: %s", audit.List[0].Atom)
			}
			if e == nil {
				e = t.CheckTreePostOrder()
			}
			st := L(KV("op", A(op)), KV("err", A(errStr(e))), KV("tree", d), KV("audit", audit), KV("nw", A(nw)))
			steps.List = append(steps.List, st)
			if first == nil && op == "A" {
				first = st
			}
			if e != nil {
				operr = e
				break
			}
		}
		if first == nil && len(steps.List) > 0 {
			first = steps.List[0]
		}
		p := L(KV("idx", I(idx)), KV("steps", steps))
		if first != nil {
			p.List = append(p.List, KV("tree", first.Get("tree")), KV("audit", first.Get("audit")), KV("nw", first.Get("nw")))
		}
		props.List = append(props.List, p)
		return operr == nil
	}

	n := 0
	if collect == nil {
		r.Rearrange(t, func(re tree.Rearrangement) bool {
			ok := visit(re, n)
			n++
			return ok
		})
	} else {
		kept := []tree.Rearrangement{}
		r.Rearrange(t, func(re tree.Rearrangement) bool {
			kept = append(kept, re)
			return true
		})
		n = len(kept)
		for _, i := range collect {
			if i < n {
				if !visit(kept[i], i) {
					break
				}
			}
		}
	}

	final, faudit, nwf, _ := c17dump(t)
	return L(KV("err", A(errStr(operr))), KV("n", I(n)), KV("orig", orig), KV("nw0", A(nw0)),
		KV("props", props), KV("final", final), KV("audit", faudit), KV("nwf", A(nwf)))
}

// c17par: ONE rearranger value shared by several goroutines, each enumerating the neighbourhood
// of its own tree.  The enumerations are made to overlap: every goroutine waits inside its first
// callback until all the others have reached theirs (or have finished), and yields in every callback.
func c17par(r *tree.NNIRearranger, ts *Sexp) *Sexp {
	trees := make([]*tree.Tree, 0, len(ts.List))
	for _, s := range ts.List {
		t, err := BuildTree(s)
		if err != nil {
			return L(KV("panic", A("build: "+err.Error())))
		}
		if err := t.ReinitIndexes(); err != nil {
			return L(KV("panic", A("reinit: "+err.Error())))
		}
		trees = append(trees, t)
	}
	n := len(trees)
	obs := make([]*Sexp, n)
	var arrived sync.WaitGroup
	arrived.Add(n)
	all := make(chan struct{})
	go func() { arrived.Wait(); close(all) }()
	var done sync.WaitGroup
	done.Add(n)
	for k := range trees {
		go func(k int) {
			defer done.Done()
			var once sync.Once
			arrive := func() { once.Do(arrived.Done) }
			defer arrive()
			obs[k] = c17one(r, trees[k], nil, nil, func(i int) {
				arrive()
				<-all
				runtime.Gosched()
			})
		}(k)
	}
	done.Wait()
	runs := L()
	for _, o := range obs {
		if o == nil {
			o = L(KV("panic", A("harness: no observation")))
		}
		runs.List = append(runs.List, o)
	}
	return L(KV("runs", runs))
}

// c17greedy: the callback KEEPS the proposals whose rank is in keep (Apply, no Undo) and lets the
// enumeration continue; every other proposal is applied, dumped and undone (dump again).
// Every visit: ((idx i) (kept T|F) (err e) (tree T) (audit ..) (nw s) [(utree T) (uaudit ..) (unw s)]).
// stop >= 0: the callback returns false after proposal number stop (kept or undone); calls made by
// the generator after that are only counted ((after k)), the callback answers false again.
func c17greedy(r *tree.NNIRearranger, t *tree.Tree, keep map[int]bool, stop int) (obs *Sexp) {
	defer func() {
		if p := recover(); p != nil {
			obs = L(KV("panic", A(c17panicStr(p))))
		}
	}()
	orig, oaudit, nw0, sane := c17dump(t)
	if !sane {
		return L(KV("panic", A("harness: the tree built fails the audit: "+oaudit.List[0].Atom)))
	}
	visits := L()
	var operr error
	n := 0
	stopped := false
	after := 0
	r.Rearrange(t, func(re tree.Rearrangement) bool {
		if stopped {
			after++
			return false
		}
		idx := n
		n++
		e := re.Apply()
		d, audit, nw, ok := c17dump(t)
		if e == nil && ok {
			e = t.CheckTreePostOrder()
		}
		v := L(KV("idx", I(idx)), KV("kept", B(keep[idx])), KV("err", A(errStr(e))), KV("tree", d), KV("audit", audit), KV("nw", A(nw)))
		if e == nil && ok && !keep[idx] {
			e = re.Undo()
			ud, uaudit, unw, uok := c17dump(t)
			if e == nil && uok {
				e = t.CheckTreePostOrder()
			}
			v.List = append(v.List, KV("uerr", A(errStr(e))), KV("utree", ud), KV("uaudit", uaudit), KV("unw", A(unw)))
			ok = uok
		}
		visits.List = append(visits.List, v)
		if e != nil || !ok {
			operr = e
			return false
		}
		if idx == stop {
			stopped = true
			return false
		}
		return true
	})
	final, faudit, nwf, _ := c17dump(t)
	return L(KV("err", A(errStr(operr))), KV("n", I(n)), KV("after", I(after)), KV("orig", orig), KV("nw0", A(nw0)),
		KV("visits", visits), KV("final", final), KV("audit", faudit), KV("nwf", A(nwf)))
}

// c17dump: structural dump + audit (cycle-safe), and the Newick text only when the audit is clean.
func c17dump(t *tree.Tree) (d, audit *Sexp, nw string, sane bool) {
	d, audit = ObserveTree(t)
	sane = len(audit.List) == 0
	if sane {
		nw = t.Newick()
	}
	return
}

func c17panicStr(p interface{}) string {
	if e, ok := p.(error); ok {
		return e.Error()
	}
	return fmt.Sprintf("%v", p)
}
