package main

import (
	"fmt"
	"math"
	"math/rand"
	"reflect"
	"strconv"
	"strings"
	"sync"
	"sync/atomic"
	"time"
	"unsafe"

	"github.com/evolbioinfo/gotree/hashmap"
	"github.com/evolbioinfo/gotree/tree"
)

func init() { register("C04", c04) }

func c04(c *Sexp) *Sexp {
	switch c.Str("kind") {
	case "index":
		return c04Index(c)
	case "edit":
		return c04Edit(c)
	case "handbuilt":
		return c04HandBuilt(c)
	case "indexseq":
		return c04IndexSeq(c)
	case "parmap":
		return c04ParMap(c)
	case "samebip":
		return c04SameBip(c)
	case "edgeindex":
		return c04EdgeIndex(c)
	case "hashmap":
		return c04HashMap(c)
	case "qmap":
		return c04QMap(c)
	case "quartet":
		return c04Quartet(c)
	}
	return L(KV("panic", A("unknown kind")))
}

func c04Build(s *Sexp) (*tree.Tree, error) {
	t, err := BuildTree(s)
	if err != nil {
		return nil, fmt.Errorf("build: %v", err)
	}
	return t, nil
}

func c04Bits(e *tree.Edge) string {
	var b strings.Builder
	bs := e.Bitset()
	if bs == nil {
		return "nil"
	}
	for i := uint(0); i < bs.Len(); i++ {
		if e.TipPresent(i) {
			b.WriteByte('1')
		} else {
			b.WriteByte('0')
		}
	}
	return b.String()
}

func c04BoolBits(l []bool) *Sexp {
	var b strings.Builder
	for _, x := range l {
		if x {
			b.WriteByte('1')
		} else {
			b.WriteByte('0')
		}
	}
	return A(b.String())
}

// index: every derived table of every branch after ReinitIndexes.
func c04Index(c *Sexp) *Sexp {
	t, err := c04Build(c.Get("tree"))
	if err != nil {
		return L(KV("panic", A(err.Error())))
	}
	if err := t.ReinitIndexes(); err != nil {
		return L(KV("err", A(errStr(err))))
	}
	return L(c04Tables(t)...)
}

// edit: an editing operation, then the tables as the operation left them (reinit F) or after an
// explicit ReinitIndexes (reinit T), together with the dump of the resulting tree.
func c04Edit(c *Sexp) *Sexp {
	t, err := c04Build(c.Get("tree"))
	if err != nil {
		return L(KV("panic", A(err.Error())))
	}
	if err := t.ReinitIndexes(); err != nil {
		return L(KV("operr", A("reinit: "+errStr(err))), KV("tree", L(A("N"), A(""), L(), L())), KV("audit", L()))
	}
	rand.Seed(int64(c.Int("seed")))
	var operr error
	switch c.Str("op") {
	case "reroot":
		nodes := t.Nodes()
		i := c.Int("i")
		if i >= len(nodes) {
			i = 0
		}
		operr = t.Reroot(nodes[i])
	case "unroot":
		t.UnRoot()
	case "removetips":
		operr = t.RemoveTips(c.Bool("revert"), c.StrList("names")...)
	case "collapselen":
		t.CollapseShortBranches(c.Float("x"), c.Bool("root"), c.Bool("tips"))
	case "collapsesup":
		t.CollapseLowSupport(c.Float("x"), c.Bool("root"))
	case "collapsedepth":
		operr = t.CollapseTopoDepth(c.Int("a"), c.Int("b"), c.Bool("root"), c.Bool("tips"))
	case "resolve":
		t.Resolve()
	case "shuffle":
		t.ShuffleTips()
	case "removesingle":
		t.RemoveSingleNodes()
	case "midpoint":
		operr = t.RerootMidPoint()
	case "outgroup":
		operr = t.RerootOutGroup(c.Bool("remove"), false, c.StrList("names")...)
	case "rotate":
		t.RotateInternalNodes()
	case "sort":
		t.SortNeighborsByTips()
	default:
		return L(KV("panic", A("unknown op")))
	}
	if operr == nil && c.Bool("reinit") {
		if err := t.ReinitIndexes(); err != nil {
			operr = fmt.Errorf("reinit: %v", err)
		}
	}
	d, audit := ObserveTree(t)
	obs := []*Sexp{KV("operr", A(errStr(operr))), KV("tree", d), KV("audit", audit)}
	if operr == nil {
		// the tables are reported whatever the structural audit says: the judge compares them
		// with the splits of the dumped tree
		obs = append(obs, c04SafeTables(t)...)
		obs = append(obs, c04AgainstCopy(t, d)...)
	}
	return L(obs...)
}

func c04SafeTables(t *tree.Tree) (r []*Sexp) {
	defer func() {
		if p := recover(); p != nil {
			r = []*Sexp{KV("err", A(fmt.Sprintf("panic while reading the tables: %v", p)))}
		}
	}()
	return c04Tables(t)
}

// c04AgainstCopy builds an independent tree from the dump of the edited tree, indexes it, and
// compares every branch of the edited tree with every branch of the copy.
func c04AgainstCopy(t *tree.Tree, dump *Sexp) (r []*Sexp) {
	defer func() {
		if p := recover(); p != nil {
			r = []*Sexp{KV("copyerr", A(fmt.Sprintf("panic: %v", p)))}
		}
	}()
	cp, err := BuildTree(dump)
	if err != nil {
		return []*Sexp{KV("copyerr", A("build: " + err.Error()))}
	}
	if err := cp.ReinitIndexes(); err != nil {
		return []*Sexp{KV("copyerr", A("reinit: " + errStr(err)))}
	}
	e1 := t.Edges()
	e2 := cp.Edges()
	for _, e := range e1 {
		if e.Bitset() == nil {
			return []*Sexp{KV("copyerr", A("a branch has no bitset"))}
		}
	}
	same := make([]bool, 0, len(e1)*len(e2))
	heq := make([]bool, 0, len(e1)*len(e2))
	for _, x := range e1 {
		for _, y := range e2 {
			same = append(same, x.SameBipartition(y))
			heq = append(heq, x.HashCode() == y.HashCode())
		}
	}
	return []*Sexp{KV("copyerr", A("")), KV("samecopy", c04BoolBits(same)), KV("heqcopy", c04BoolBits(heq))}
}

func c04Tables(t *tree.Tree) []*Sexp {
	for _, e := range t.Edges() {
		if e.Bitset() == nil {
			return []*Sexp{KV("err", A("a branch has no bitset"))}
		}
	}
	tips := L()
	for _, n := range t.Tips() {
		tips.List = append(tips.List, L(A(n.Name()), I(n.TipIndex())))
	}
	edges := L()
	for _, e := range t.Edges() {
		d, derr := e.TopoDepth()
		if derr != nil {
			d = -1
		}
		hl, hr := e.VerifHashes()
		edges.List = append(edges.List, L(A(c04Bits(e)), I(e.NumTipsRight()), I(e.NumTipsLeft()), I(d),
			U64(e.HashCode()), U64(hl), U64(hr), B(e.Right().Tip())))
	}
	return []*Sexp{KV("err", A("")), KV("tips", tips), KV("edges", edges)}
}

// samebip: SameBipartition and HashCode equality of all pairs of branches, FindEdge.
func c04SameBip(c *Sexp) *Sexp {
	t1, err := c04Build(c.Get("t1"))
	if err != nil {
		return L(KV("panic", A(err.Error())))
	}
	t2, err := c04Build(c.Get("t2"))
	if err != nil {
		return L(KV("panic", A(err.Error())))
	}
	if err := t1.ReinitIndexes(); err != nil {
		return L(KV("err", A(errStr(err))))
	}
	if err := t2.ReinitIndexes(); err != nil {
		return L(KV("err", A(errStr(err))))
	}
	e1 := t1.Edges()
	e2 := t2.Edges()
	matrix := func(a, b []*tree.Edge) (*Sexp, *Sexp) {
		same := make([]bool, 0, len(a)*len(b))
		heq := make([]bool, 0, len(a)*len(b))
		for _, x := range a {
			for _, y := range b {
				same = append(same, x.SameBipartition(y))
				heq = append(heq, x.HashCode() == y.HashCode())
			}
		}
		return c04BoolBits(same), c04BoolBits(heq)
	}
	s12, h12 := matrix(e1, e2)
	s11, h11 := matrix(e1, e1)
	find := L()
	for _, x := range e1 {
		f, ferr := x.FindEdge(e2)
		switch {
		case ferr != nil:
			find.List = append(find.List, A("E"))
		case f != nil:
			find.List = append(find.List, A("T"))
		default:
			find.List = append(find.List, A("F"))
		}
	}
	return L(KV("err", A("")), KV("same12", s12), KV("heq12", h12), KV("same11", s11), KV("heq11", h11), KV("find12", find))
}

// edgeindex: a history of PutEdgeValue / AddEdgeCount / Value on one EdgeIndex, keys presented
// through the branches of two trees on the same taxa.
func c04EdgeIndex(c *Sexp) *Sexp {
	t1, err := c04Build(c.Get("t1"))
	if err != nil {
		return L(KV("panic", A(err.Error())))
	}
	t2, err := c04Build(c.Get("t2"))
	if err != nil {
		return L(KV("panic", A(err.Error())))
	}
	if err := t1.ReinitIndexes(); err != nil {
		return L(KV("err", A(errStr(err))))
	}
	if err := t2.ReinitIndexes(); err != nil {
		return L(KV("err", A(errStr(err))))
	}
	edges := [][]*tree.Edge{t1.Edges(), t2.Edges()}
	where := map[*tree.Edge][2]int{}
	for ti, l := range edges {
		for ei, e := range l {
			where[e] = [2]int{ti, ei}
		}
	}
	capacity, _ := strconv.ParseUint(c.Str("cap"), 10, 64)
	idx := tree.NewEdgeIndex(capacity, c.Float("lf"))
	res := L()
	operr := ""
	for _, op := range c.Get("ops").List {
		kind := op.List[0].Atom
		ti, _ := strconv.Atoi(op.List[1].Atom)
		ei, _ := strconv.Atoi(op.List[2].Atom)
		e := edges[ti][ei]
		switch kind {
		case "put":
			cnt, _ := strconv.Atoi(op.List[3].Atom)
			ln, _ := ParseQ(op.List[4].Atom)
			if err := idx.PutEdgeValue(e, cnt, ln); err != nil && operr == "" {
				operr = errStr(err)
			}
			res.List = append(res.List, L(A("ok")))
		case "add":
			if err := idx.AddEdgeCount(e); err != nil && operr == "" {
				operr = errStr(err)
			}
			res.List = append(res.List, L(A("ok")))
		case "val":
			v, ok := idx.Value(e)
			if ok {
				res.List = append(res.List, L(A("v"), B(true), I(v.Count), F(v.Len)))
			} else {
				res.List = append(res.List, L(A("v"), B(false)))
			}
		}
	}
	dump := func(minc, maxc int) *Sexp {
		r := L()
		for _, kv := range idx.Edges(minc, maxc) {
			e, v := c04KeyValue(idx, kv)
			w, ok := where[e]
			if !ok {
				w = [2]int{9, 0}
			}
			r.List = append(r.List, L(I(w[0]), I(w[1]), I(v.Count), F(v.Len)))
		}
		return r
	}
	return L(KV("err", A(operr)), KV("res", res), KV("edges", dump(c.Int("min"), c.Int("max"))),
		KV("all", dump(math.MinInt, math.MaxInt)))
}

// The fields of tree.KeyValue (key *Edge, val *EdgeIndexInfo) are private and have no accessor:
// they are read through reflect + unsafe (harness only; nothing is written).
func c04KeyValue(idx *tree.EdgeIndex, kv *tree.KeyValue) (*tree.Edge, *tree.EdgeIndexInfo) {
	rv := reflect.ValueOf(kv).Elem()
	kf := rv.FieldByName("key")
	vf := rv.FieldByName("val")
	k := reflect.NewAt(kf.Type(), unsafe.Pointer(kf.UnsafeAddr())).Elem().Interface().(*tree.Edge)
	v := reflect.NewAt(vf.Type(), unsafe.Pointer(vf.UnsafeAddr())).Elem().Interface().(*tree.EdgeIndexInfo)
	return k, v
}

// hashmap: abstract keys (hash, class).
type c04Key struct {
	idx   int
	hash  uint64
	class int
}

func (k *c04Key) HashCode() uint64 { return k.hash }
func (k *c04Key) HashEquals(h hashmap.Hasher) bool {
	return k.class == h.(*c04Key).class
}

type c04Val struct{ v int }

func c04RunMap(c *Sexp, keys []hashmap.Hasher, keyIdx func(hashmap.Hasher) int) *Sexp {
	capacity, _ := strconv.ParseUint(c.Str("cap"), 10, 64)
	m := hashmap.NewHashMap(capacity, c.Float("lf"))
	res := L()
	for _, op := range c.Get("ops").List {
		ki, _ := strconv.Atoi(op.List[1].Atom)
		switch op.List[0].Atom {
		case "put":
			v, _ := strconv.Atoi(op.List[2].Atom)
			m.PutValue(keys[ki], &c04Val{v})
			res.List = append(res.List, L(A("ok")))
		case "val":
			v, ok := m.Value(keys[ki])
			if ok {
				res.List = append(res.List, L(A("v"), B(true), I(v.(*c04Val).v)))
			} else {
				res.List = append(res.List, L(A("v"), B(false)))
			}
		}
	}
	kvs := L()
	ks := m.Keys()
	for i, kv := range m.KeyValues() {
		if i >= len(ks) || ks[i] != kv.Key {
			return L(KV("panic", A("Keys() and KeyValues() disagree")))
		}
		kvs.List = append(kvs.List, L(I(keyIdx(kv.Key)), I(kv.Value.(*c04Val).v)))
	}
	if len(ks) != len(kvs.List) {
		return L(KV("panic", A("Keys() and KeyValues() have different lengths")))
	}
	return L(KV("res", res), KV("kvs", kvs))
}

func c04HashMap(c *Sexp) *Sexp {
	keys := []hashmap.Hasher{}
	for i, k := range c.Get("keys").List {
		h, _ := strconv.ParseUint(k.List[0].Atom, 10, 64)
		cl, _ := strconv.Atoi(k.List[1].Atom)
		keys = append(keys, &c04Key{i, h, cl})
	}
	return c04RunMap(c, keys, func(h hashmap.Hasher) int { return h.(*c04Key).idx })
}

func c04ParseQuartet(s *Sexp) *tree.Quartet {
	v := [4]uint{}
	for i := 0; i < 4; i++ {
		x, _ := strconv.ParseUint(s.List[i].Atom, 10, 64)
		v[i] = uint(x)
	}
	return &tree.Quartet{T1: v[0], T2: v[1], T3: v[2], T4: v[3]}
}

func c04QMap(c *Sexp) *Sexp {
	keys := []hashmap.Hasher{}
	pos := map[*tree.Quartet]int{}
	for i, k := range c.Get("keys").List {
		q := c04ParseQuartet(k)
		pos[q] = i
		keys = append(keys, q)
	}
	return c04RunMap(c, keys, func(h hashmap.Hasher) int { return pos[h.(*tree.Quartet)] })
}

// quartet: HashCode / Compare / HashEquals of all pairs qs1 x qs2.
func c04Quartet(c *Sexp) *Sexp {
	rows := L()
	for _, a := range c.Get("qs1").List {
		q1 := c04ParseQuartet(a)
		for _, b := range c.Get("qs2").List {
			q2 := c04ParseQuartet(b)
			rows.List = append(rows.List, L(U64(q1.HashCode()), U64(q2.HashCode()), I(q1.Compare(q2)),
				B(q1.HashEquals(q2)), B(q2.HashEquals(q1))))
		}
	}
	return L(KV("rows", rows))
}

// handbuilt: a tree assembled through the public API only (NewNode / ConnectNodes in arbitrary
// directions / SetRoot), oriented by the public sequences a user would run, then ReinitIndexes and
// the usual observation of the tables, judged against the structure that is dumped.
func c04HandBuilt(c *Sexp) *Sexp {
	flip := []bool{}
	for _, f := range c.Get("flip").List {
		flip = append(flip, f.Atom == "T")
	}
	t, err := BuildTreeAPI(c.Get("tree"), flip)
	if err != nil {
		return L(KV("panic", A("build: "+err.Error())))
	}
	var operr error
	switch c.Str("seq") {
	case "reroot_root":
		operr = t.Reroot(t.Root())
	case "setroot_reroot":
		nodes := t.Nodes()
		n := nodes[c.Int("i")%len(nodes)]
		t.SetRoot(n)
		operr = t.Reroot(n)
	case "rerootfirst":
		operr = t.RerootFirst()
	default:
		return L(KV("panic", A("unknown seq")))
	}
	if operr == nil {
		if err := t.ReinitIndexes(); err != nil {
			operr = fmt.Errorf("reinit: %v", err)
		}
	}
	d, audit := ObserveTree(t)
	obs := []*Sexp{KV("operr", A(errStr(operr))), KV("tree", d), KV("audit", audit)}
	if operr == nil {
		obs = append(obs, c04SafeTables(t)...)
		obs = append(obs, c04AgainstCopy(t, d)...)
	}
	return L(obs...)
}

// parmap: several goroutines write to ONE shared HashMap (it has a RWMutex for that purpose).
// Every key belongs to one goroutine, so the results of a goroutine and the final content do not
// depend on the interleaving.  To make writers meet resizes, a key notices when the map calls
// HashCode on it although no operation on it is in flight (that is rehash, under the write lock):
// the resizing goroutine then pauses a little and the other writers hurry to start their next put.
type c04Ctl struct {
	lastRehash int64 // UnixNano of the last HashCode call made from rehash
}

type c04PKey struct {
	idx      int
	hash     uint64
	class    int
	inflight int32
	ctl      *c04Ctl
}

func (k *c04PKey) HashCode() uint64 {
	if atomic.LoadInt32(&k.inflight) == 0 {
		now := time.Now().UnixNano()
		last := atomic.LoadInt64(&k.ctl.lastRehash)
		atomic.StoreInt64(&k.ctl.lastRehash, now)
		if now-last > int64(2*time.Millisecond) {
			// first call of this rehash: let the other writers arrive
			time.Sleep(300 * time.Microsecond)
			atomic.StoreInt64(&k.ctl.lastRehash, time.Now().UnixNano())
		}
	}
	return k.hash
}
func (k *c04PKey) HashEquals(h hashmap.Hasher) bool { return k.class == h.(*c04PKey).class }

func c04ParMapOnce(c *Sexp) *Sexp {
	capacity, _ := strconv.ParseUint(c.Str("cap"), 10, 64)
	m := hashmap.NewHashMap(capacity, c.Float("lf"))
	ctl := &c04Ctl{}
	type kd struct {
		hash  uint64
		class int
	}
	kds := []kd{}
	for _, k := range c.Get("keys").List {
		h, _ := strconv.ParseUint(k.List[0].Atom, 10, 64)
		cl, _ := strconv.Atoi(k.List[1].Atom)
		kds = append(kds, kd{h, cl})
	}
	gops := c.Get("gops").List
	results := make([]*Sexp, len(gops))
	var wg sync.WaitGroup
	start := make(chan struct{})
	for g := range gops {
		wg.Add(1)
		go func(g int) {
			defer wg.Done()
			defer func() {
				if r := recover(); r != nil {
					results[g] = L(L(A("panic"), A(fmt.Sprintf("%v", r))))
				}
			}()
			res := L()
			<-start
			for _, op := range gops[g].List {
				ki, _ := strconv.Atoi(op.List[1].Atom)
				key := &c04PKey{idx: ki, hash: kds[ki].hash, class: kds[ki].class, ctl: ctl}
				switch op.List[0].Atom {
				case "put":
					v, _ := strconv.Atoi(op.List[2].Atom)
					// hurry when somebody is resizing, otherwise wait a moment for a resize to meet
					for spin := 0; spin < 40; spin++ {
						if time.Now().UnixNano()-atomic.LoadInt64(&ctl.lastRehash) < int64(250*time.Microsecond) {
							break
						}
						time.Sleep(5 * time.Microsecond)
					}
					atomic.StoreInt32(&key.inflight, 1)
					m.PutValue(key, &c04Val{v})
					atomic.StoreInt32(&key.inflight, 0)
					res.List = append(res.List, L(A("ok")))
				case "val":
					atomic.StoreInt32(&key.inflight, 1)
					v, ok := m.Value(key)
					atomic.StoreInt32(&key.inflight, 0)
					if ok {
						res.List = append(res.List, L(A("v"), B(true), I(v.(*c04Val).v)))
					} else {
						res.List = append(res.List, L(A("v"), B(false)))
					}
				}
			}
			results[g] = res
		}(g)
	}
	close(start)
	wg.Wait()
	res := L()
	for _, r := range results {
		res.List = append(res.List, r.List...)
	}
	kvs := L()
	for _, kv := range m.KeyValues() {
		if kv == nil {
			kvs.List = append(kvs.List, L(I(-1), I(0)))
			continue
		}
		kvs.List = append(kvs.List, L(I(kv.Key.(*c04PKey).idx), I(kv.Value.(*c04Val).v)))
	}
	return L(KV("res", res), KV("kvs", kvs))
}

func c04ParMap(c *Sexp) *Sexp {
	reps := L()
	n := c.Int("reps")
	if n < 1 {
		n = 1
	}
	for i := 0; i < n; i++ {
		reps.List = append(reps.List, c04ParMapOnce(c))
	}
	return L(KV("reps", reps))
}

// indexseq: the indexing step is one of the sequences the public API allows, on a tree with or
// without an earlier (full or partial) indexing.
func c04ThreeCalls(t *tree.Tree) error {
	if err := t.UpdateTipIndex(); err != nil {
		return err
	}
	if err := t.ClearBitSets(); err != nil {
		return err
	}
	return t.UpdateBitSet()
}

func c04IndexSeq(c *Sexp) *Sexp {
	t, err := c04Build(c.Get("tree"))
	if err != nil {
		return L(KV("panic", A(err.Error())))
	}
	var operr error
	reroot := func() error {
		nodes := t.Nodes()
		return t.Reroot(nodes[c.Int("i")%len(nodes)])
	}
	switch c.Str("pre") {
	case "none":
	case "reinit":
		operr = t.ReinitIndexes()
	case "reroot":
		operr = reroot()
	case "hashes":
		t.ComputeEdgeHashes(nil, nil, nil)
	case "reinit_reroot":
		if operr = t.ReinitIndexes(); operr == nil {
			operr = reroot()
		}
	case "insert_one", "insert_many", "graft_tip", "graft_tree", "removetips", "rename", "setname", "shuffle":
		// public edits that touch the tip-name index, on a fully indexed tree
		if operr = t.ReinitIndexes(); operr == nil {
			operr = c04TipEdit(t, c)
		}
	default:
		return L(KV("panic", A("unknown pre")))
	}
	if operr == nil {
		switch c.Str("seq") {
		case "reinit":
			operr = t.ReinitIndexes()
		case "three":
			operr = c04ThreeCalls(t)
		case "three_hashes":
			if operr = c04ThreeCalls(t); operr == nil {
				t.ComputeEdgeHashes(nil, nil, nil)
			}
		case "tipindex":
			operr = t.UpdateTipIndex()
		case "nothing":
		default:
			return L(KV("panic", A("unknown seq")))
		}
	}
	d, audit := ObserveTree(t)
	obs := []*Sexp{KV("operr", A(errStr(operr))), KV("tree", d), KV("audit", audit)}
	if operr != nil {
		return L(obs...)
	}
	tips := L()
	for _, n := range t.Tips() {
		tips.List = append(tips.List, L(A(n.Name()), I(n.TipIndex())))
	}
	edges := L()
	allbits := true
	for _, e := range t.Edges() {
		dep, derr := e.TopoDepth()
		if derr != nil {
			dep = -1
		}
		if e.Bitset() == nil {
			allbits = false
		}
		hl, hr := e.VerifHashes()
		edges.List = append(edges.List, L(A(c04Bits(e)), I(e.NumTipsRight()), I(e.NumTipsLeft()), I(dep),
			U64(e.HashCode()), U64(hl), U64(hr), B(e.Right().Tip())))
	}
	obs = append(obs, KV("tips", tips), KV("edges", edges))
	// two independent copies of the dumped structure: fully indexed, and indexed by the three calls only
	if allbits {
		for _, how := range []string{"full", "three"} {
			cp, err := BuildTree(d)
			if err == nil {
				if how == "full" {
					err = cp.ReinitIndexes()
				} else {
					err = c04ThreeCalls(cp)
				}
			}
			if err != nil {
				obs = append(obs, KV("copyerr_"+how, A(errStr(err))))
				continue
			}
			e1 := t.Edges()
			e2 := cp.Edges()
			same := make([]bool, 0, len(e1)*len(e2))
			heq := make([]bool, 0, len(e1)*len(e2))
			for _, x := range e1 {
				for _, y := range e2 {
					same = append(same, x.SameBipartition(y))
					heq = append(heq, x.HashCode() == y.HashCode())
				}
			}
			obs = append(obs, KV("copyerr_"+how, A("")), KV("same_"+how, c04BoolBits(same)), KV("heq_"+how, c04BoolBits(heq)))
		}
	}
	return L(obs...)
}

func c04TipNode(t *tree.Tree, name string) *tree.Node {
	for _, n := range t.Tips() {
		if n.Name() == name {
			return n
		}
	}
	return nil
}

// c04TipEdit applies one public edit that touches the tip-name index.
func c04TipEdit(t *tree.Tree, c *Sexp) error {
	names := c.StrList("names")
	news := c.StrList("news")
	switch c.Str("pre") {
	case "insert_one":
		for i, nm := range names {
			n := c04TipNode(t, nm)
			if n == nil {
				return fmt.Errorf("no tip %q", nm)
			}
			if _, err := t.InsertIdenticalTip(n, news[i]); err != nil {
				return err
			}
		}
		return nil
	case "insert_many":
		groups := [][]string{}
		for i, nm := range names {
			groups = append(groups, []string{nm, news[i]})
		}
		return t.InsertIdenticalTips(groups)
	case "graft_tip":
		edges := t.Edges()
		n := t.NewNode()
		n.SetName(news[0])
		_, _, _, err := t.GraftTipOnEdge(n, edges[c.Int("j")%len(edges)])
		return err
	case "graft_tree":
		g, err := BuildTree(c.Get("graft"))
		if err != nil {
			return err
		}
		return t.GraftTreeOnTip(names[0], g)
	case "removetips":
		return t.RemoveTips(false, names...)
	case "rename":
		m := map[string]string{}
		for i, nm := range names {
			m[nm] = news[i]
		}
		return t.Rename(m)
	case "setname":
		for i, nm := range names {
			n := c04TipNode(t, nm)
			if n == nil {
				return fmt.Errorf("no tip %q", nm)
			}
			n.SetName(news[i])
		}
		return nil
	case "shuffle":
		rand.Seed(int64(c.Int("seed")))
		t.ShuffleTips()
		return nil
	}
	return fmt.Errorf("unknown edit")
}
