package main

import (
	"fmt"
	"time"

	"github.com/evolbioinfo/gotree/tree"
)

func init() { register("C09", c09) }

// case: ((trees (T ...)) (cutoff q))        q = the decimal threshold as a rational; the worker
//                                            gives Consensus the nearest float64, as the CLI does
// obs : ((cutoff64 q) (err "msg") (tree T) (audit (...)))   |   ((hang T))
func c09(c *Sexp) *Sexp {
	ts := c.Get("trees")
	if ts == nil || !ts.IsList {
		return L(KV("panic", A("no trees")))
	}
	trees := make([]*tree.Tree, 0, len(ts.List))
	for i, s := range ts.List {
		t, err := BuildTree(s)
		if err != nil {
			return L(KV("panic", A(fmt.Sprintf("build tree %d: %v", i, err))))
		}
		trees = append(trees, t)
	}
	cutoff := c.Float("cutoff")
	done := make(chan *Sexp, 1)
	go func() {
		defer func() {
			if r := recover(); r != nil {
				done <- L(KV("cutoff64", F(cutoff)), KV("panic", A(fmt.Sprintf("%v", r))))
			}
		}()
		ch := make(chan tree.Trees, len(trees)+1)
		for i, t := range trees {
			ch <- tree.Trees{Tree: t, Id: i, Err: nil}
		}
		close(ch)
		cons, err := tree.Consensus(ch, cutoff)
		obs := L(KV("cutoff64", F(cutoff)), KV("err", A(errStr(err))))
		if err == nil {
			d, audit := ObserveTree(cons)
			obs.List = append(obs.List, KV("tree", d), KV("audit", audit))
		}
		done <- obs
	}()
	select {
	case o := <-done:
		return o
	case <-time.After(8 * time.Second):
		return L(KV("hang", A("T")))
	}
}
