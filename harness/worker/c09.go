package main

import (
	"fmt"
	"math"
	"math/rand"
	"strconv"
	"time"

	"github.com/evolbioinfo/gotree/tree"
)

func init() { register("C09", c09) }

// case: ((trees (T ...)) (cutoff q))        q = the decimal threshold as a rational; the worker
//                                            gives Consensus the nearest float64, as the CLI does
// obs : ((cutoff64 q) (err "msg") (tree T) (audit (...)))   |   ((hang T))
// preUse09: the tree was used before: indexed (ReinitIndexes), then edited through the public API
// without (complete) re-indexing.  (none) | (rename "a" "b") | (setname "a" "b") | (reroot i) | (rotate seed)
func preUse09(t *tree.Tree, e *Sexp) string {
	if e == nil || !e.IsList || len(e.List) == 0 || e.List[0].Atom == "none" {
		return ""
	}
	if err := t.ReinitIndexes(); err != nil {
		return "reinit: " + err.Error()
	}
	arg := func(i int) string {
		if i < len(e.List) {
			return e.List[i].Atom
		}
		return ""
	}
	switch e.List[0].Atom {
	case "rename":
		if err := t.Rename(map[string]string{arg(1): arg(2), arg(2): arg(1)}); err != nil {
			return "rename: " + err.Error()
		}
	case "setname":
		var na, nb *tree.Node
		for _, n := range t.Tips() {
			if n.Name() == arg(1) {
				na = n
			} else if n.Name() == arg(2) {
				nb = n
			}
		}
		if na != nil && nb != nil {
			na.SetName(arg(2))
			nb.SetName(arg(1))
		}
	case "reroot":
		i, _ := strconv.Atoi(arg(1))
		nodes := t.Nodes()
		if i < len(nodes) {
			_ = t.Reroot(nodes[i])
		}
	case "rotate":
		seed, _ := strconv.ParseInt(arg(1), 10, 64)
		rand.Seed(seed)
		t.RotateInternalNodes()
	default:
		return "unknown edit " + e.List[0].Atom
	}
	return ""
}

func c09(c *Sexp) *Sexp {
	ts := c.Get("trees")
	if ts == nil || !ts.IsList {
		return L(KV("panic", A("no trees")))
	}
	trees := make([]*tree.Tree, 0, len(ts.List))
	for i, s := range ts.List {
		t, err := BuildTree(s)
		if err != nil {
			return L(KV("panic", A(fmt.Sprintf("build tree %d: %v", i, err))))
		}
		trees = append(trees, t)
	}
	// pre-used input trees: (pres (E ...)); the observation then carries the trees as they are when
	// Consensus receives them
	var after *Sexp
	if pres := c.Get("pres"); pres != nil && pres.IsList {
		for i, e := range pres.List {
			if i < len(trees) {
				if m := preUse09(trees[i], e); m != "" {
					return L(KV("panic", A(fmt.Sprintf("pres[%d]: %s", i, m))))
				}
			}
		}
		problems := []string{}
		after = L()
		for _, t := range trees {
			after.List = append(after.List, DumpTree(t, &problems))
		}
		if len(problems) > 0 {
			return L(KV("panic", A("pre-use edit broke the structure: "+problems[0])))
		}
	}
	cutoff := c.Float("cutoff")
	// non-finite thresholds are given as symbols
	switch c.Str("cutoff") {
	case "nan":
		cutoff = math.NaN()
	case "inf":
		cutoff = math.Inf(1)
	case "-inf":
		cutoff = math.Inf(-1)
	}
	done := make(chan *Sexp, 1)
	go func() {
		defer func() {
			if r := recover(); r != nil {
				done <- L(KV("cutoff64", F(cutoff)), KV("panic", A(fmt.Sprintf("%v", r))))
			}
		}()
		ch := make(chan tree.Trees, len(trees)+1)
		for i, t := range trees {
			ch <- tree.Trees{Tree: t, Id: i, Err: nil}
		}
		close(ch)
		cons, err := tree.Consensus(ch, cutoff)
		obs := L(KV("cutoff64", F(cutoff)), KV("err", A(errStr(err))))
		if after != nil {
			obs.List = append(obs.List, KV("treesafter", after))
		}
		if err == nil {
			d, audit := ObserveTree(cons)
			obs.List = append(obs.List, KV("tree", d), KV("audit", audit))
		}
		done <- obs
	}()
	select {
	case o := <-done:
		return o
	case <-time.After(8 * time.Second):
		return L(KV("hang", A("T")))
	}
}
