package main

import (
	"fmt"
	"math"
	"math/big"
	"strconv"
	"strings"
)

// Sexp is the wire format shared with the Coq judge: an atom or a list.
type Sexp struct {
	Atom   string
	IsList bool
	List   []*Sexp
}

func A(s string) *Sexp           { return &Sexp{Atom: s} }
func L(items ...*Sexp) *Sexp     { return &Sexp{IsList: true, List: items} }
func KV(k string, v *Sexp) *Sexp { return L(A(k), v) }
func B(b bool) *Sexp {
	if b {
		return A("T")
	}
	return A("F")
}
func I(i int) *Sexp       { return A(strconv.Itoa(i)) }
func U64(u uint64) *Sexp  { return A(strconv.FormatUint(u, 10)) }
func Strs(l []string) *Sexp {
	r := L()
	for _, s := range l {
		r.List = append(r.List, A(s))
	}
	return r
}
func Ints(l []int) *Sexp {
	r := L()
	for _, s := range l {
		r.List = append(r.List, I(s))
	}
	return r
}

// F encodes a float64 exactly as num/den ("nan" when not finite).
func F(x float64) *Sexp {
	if math.IsNaN(x) || math.IsInf(x, 0) {
		return A("nan")
	}
	r := new(big.Rat)
	r.SetFloat64(x)
	if r.IsInt() {
		return A(r.Num().String())
	}
	return A(r.Num().String() + "/" + r.Denom().String())
}

func needQuote(s string) bool {
	if s == "" {
		return true
	}
	for i := 0; i < len(s); i++ {
		c := s[i]
		if c <= ' ' || c == '(' || c == ')' || c == '"' || c == '\\' || c >= 127 {
			return true
		}
	}
	return false
}

func (s *Sexp) write(b *strings.Builder) {
	if !s.IsList {
		if needQuote(s.Atom) {
			b.WriteByte('"')
			for i := 0; i < len(s.Atom); i++ {
				c := s.Atom[i]
				switch {
				case c == '"' || c == '\\':
					b.WriteByte('\\')
					b.WriteByte(c)
				case c < ' ' || c >= 127:
					fmt.Fprintf(b, "\\x%02x", c)
				default:
					b.WriteByte(c)
				}
			}
			b.WriteByte('"')
		} else {
			b.WriteString(s.Atom)
		}
		return
	}
	b.WriteByte('(')
	for i, it := range s.List {
		if i > 0 {
			b.WriteByte(' ')
		}
		it.write(b)
	}
	b.WriteByte(')')
}

func (s *Sexp) String() string {
	var b strings.Builder
	s.write(&b)
	return b.String()
}

// ParseSexp parses one s-expression.
func ParseSexp(in string) (*Sexp, error) {
	pos := 0
	n := len(in)
	var item func() (*Sexp, error)
	skip := func() {
		for pos < n && (in[pos] == ' ' || in[pos] == '\n' || in[pos] == '\r') {
			pos++
		}
	}
	item = func() (*Sexp, error) {
		skip()
		if pos >= n {
			return nil, fmt.Errorf("eof")
		}
		switch in[pos] {
		case '(':
			pos++
			r := L()
			for {
				skip()
				if pos >= n {
					return nil, fmt.Errorf("unterminated list")
				}
				if in[pos] == ')' {
					pos++
					return r, nil
				}
				it, err := item()
				if err != nil {
					return nil, err
				}
				r.List = append(r.List, it)
			}
		case ')':
			return nil, fmt.Errorf("unexpected )")
		case '"':
			pos++
			var b strings.Builder
			for {
				if pos >= n {
					return nil, fmt.Errorf("unterminated string")
				}
				c := in[pos]
				if c == '"' {
					pos++
					return A(b.String()), nil
				}
				if c == '\\' {
					if pos+1 >= n {
						return nil, fmt.Errorf("bad escape")
					}
					d := in[pos+1]
					switch d {
					case 'n':
						b.WriteByte('\n')
					case 't':
						b.WriteByte('\t')
					case 'r':
						b.WriteByte('\r')
					case 'x':
						if pos+3 >= n {
							return nil, fmt.Errorf("bad hex escape")
						}
						v, err := strconv.ParseUint(in[pos+2:pos+4], 16, 8)
						if err != nil {
							return nil, err
						}
						b.WriteByte(byte(v))
						pos += 2
					default:
						b.WriteByte(d)
					}
					pos += 2
					continue
				}
				b.WriteByte(c)
				pos++
			}
		default:
			start := pos
			for pos < n && !strings.ContainsRune(" ()\"\n\r", rune(in[pos])) {
				pos++
			}
			return A(in[start:pos]), nil
		}
	}
	r, err := item()
	if err != nil {
		return nil, err
	}
	skip()
	if pos != n {
		return nil, fmt.Errorf("trailing input")
	}
	return r, nil
}

// Get looks up key k in an association list ((k v) ...).
func (s *Sexp) Get(k string) *Sexp {
	if s == nil || !s.IsList {
		return nil
	}
	for _, it := range s.List {
		if it.IsList && len(it.List) == 2 && !it.List[0].IsList && it.List[0].Atom == k {
			return it.List[1]
		}
	}
	return nil
}

func (s *Sexp) Str(k string) string {
	v := s.Get(k)
	if v == nil || v.IsList {
		return ""
	}
	return v.Atom
}

func (s *Sexp) Int(k string) int {
	v, _ := strconv.Atoi(s.Str(k))
	return v
}

func (s *Sexp) Bool(k string) bool { return s.Str(k) == "T" }

func (s *Sexp) IntList(k string) []int {
	v := s.Get(k)
	r := []int{}
	if v == nil {
		return r
	}
	for _, it := range v.List {
		x, _ := strconv.Atoi(it.Atom)
		r = append(r, x)
	}
	return r
}

func (s *Sexp) StrList(k string) []string {
	v := s.Get(k)
	r := []string{}
	if v == nil {
		return r
	}
	for _, it := range v.List {
		r = append(r, it.Atom)
	}
	return r
}

// ParseQ parses "num/den" or "num" into a float64 (exact for the dyadic values the driver uses).
func ParseQ(a string) (float64, error) {
	r := new(big.Rat)
	if _, ok := r.SetString(a); !ok {
		return 0, fmt.Errorf("bad rational %q", a)
	}
	f, _ := r.Float64()
	return f, nil
}

func (s *Sexp) Float(k string) float64 {
	f, _ := ParseQ(s.Str(k))
	return f
}
