//go:build verif

package main

import (
	"bufio"
	"strings"
	"time"

	"github.com/evolbioinfo/gotree/io/utils"
)

// C02, family "chan": the channel hand-off of utils.ReadMultiTrees against Model/C02Extra8.v.
//
//	case: ((fmt chan) (src multi|phyloxml) (text "bytes") (policy drain|stop))
//	obs : ((chan T) (sent (T|F ...)) (got n) (buf n) (rest n))
//
// run 1 drains the channel: sent = the error flag of every record the reader goroutine sends.
// run 2 consumes with the policy (stop: leave the loop at the first error record), waits until
// the buffer length is stable, reports the number of records received, len(channel), then
// drains what is left (buffer + what the goroutine was still holding) and reports its count.
func c02chan(c *Sexp, text string) *Sexp {
	format := utils.FORMAT_NEWICK
	if c.Str("src") == "phyloxml" {
		format = utils.FORMAT_PHYLOXML
	}
	sent := L()
	for t := range utils.ReadMultiTrees(bufio.NewReader(strings.NewReader(text)), format) {
		sent.List = append(sent.List, B(t.Err != nil))
	}
	ch := utils.ReadMultiTrees(bufio.NewReader(strings.NewReader(text)), format)
	got := 0
	stop := c.Str("policy") == "stop"
	for t := range ch {
		got++
		if stop && t.Err != nil {
			break
		}
	}
	prev, same := -1, 0
	for i := 0; i < 400 && same < 6; i++ {
		time.Sleep(2 * time.Millisecond)
		if n := len(ch); n == prev {
			same++
		} else {
			prev, same = n, 0
		}
	}
	buflen := len(ch)
	rest := 0
	for range ch {
		rest++
	}
	return L(KV("chan", B(true)), KV("sent", sent), KV("got", I(got)), KV("buf", I(buflen)), KV("rest", I(rest)))
}
