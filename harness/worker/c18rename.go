package main

import (
	"fmt"
	"math/rand"
	"strings"

	"github.com/evolbioinfo/gotree/tree"
)

// c18rename: library call Tree.Rename with a map whose NEW names are also OLD-name keys
// (a rotation of the first k tip names, k = ntrees; foreign = 1 adds a chain a tail -> fresh name).
// The result must be the one obtained from the names as they were BEFORE the call, whatever the
// order in which the map is ranged over; the driver repeats the call in fresh processes.
//
//	(op rename) (seed s) (ntips n) (ntrees k) (foreign 0|1) (cpus c)
func c18rename(c *Sexp) *Sexp {
	rand.Seed(int64(c.Int("seed")))
	n, k := c.Int("ntips"), c.Int("ntrees")
	t, err := tree.RandomYuleBinaryTree(n, false)
	if err != nil {
		return L(KV("panic", A(err.Error())))
	}
	names := []string{}
	for _, tip := range t.Tips() {
		names = append(names, tip.Name())
	}
	if k > len(names) {
		k = len(names)
	}
	namemap := make(map[string]string)
	for i := 0; i < k; i++ {
		namemap[names[i]] = names[(i+1)%k]
	}
	if c.Int("foreign") == 1 && k > 1 {
		namemap[names[k-1]] = "fresh_name" // chain instead of cycle
	}
	ferr := errStr(t.Rename(namemap))
	after := []string{}
	for _, tip := range t.Tips() {
		after = append(after, tip.Name())
	}
	rec := fmt.Sprintf("%s %s", strings.Join(after, ","), t.Newick())
	return L(KV("err", A(ferr)), KV("n", I(len(namemap))), KV("records", A(rec)))
}
