package main

import (
	"strconv"

	"github.com/evolbioinfo/gotree/tree"
)

func init() { register("C06", c06) }

// case: ((tree T) (names ("a" ...)) (revert T|F))
// obs : ((err msg) (tree T') (audit (...)) (lookups ((name exists tipnode tipindex) ...))
//
//	(nbtips n) (ntips n) (nalltips n))
//
// exists: T | F | E (error);  tipnode: T (a node that is a tip of the tree now, with that name)
// | S (a node that is not a tip of the tree any more) | F (error);  tipindex: T | F (error)
func c06(c *Sexp) *Sexp {
	t, err := BuildTree(c.Get("tree"))
	if err != nil {
		return L(KV("panic", A("build: "+err.Error())))
	}
	if !c.Bool("noindex") {
		if err := t.ReinitIndexes(); err != nil {
			return L(KV("panic", A("reinit: "+err.Error())))
		}
	}
	// pre-history: edits through the public API, without reindexing unless asked
	//   (pre ((index) (graft name i) (rename old new) (prune T|F (names...)) (clone)))
	hasPre := false
	if pre := c.Get("pre"); pre != nil && pre.IsList {
		for _, op := range pre.List {
			if !op.IsList || len(op.List) == 0 {
				continue
			}
			hasPre = true
			switch op.List[0].Atom {
			case "index":
				if err := t.ReinitIndexes(); err != nil {
					return L(KV("preerr", A("index: "+err.Error())))
				}
			case "graft":
				edges := t.Edges()
				if len(op.List) < 3 || len(edges) == 0 {
					return L(KV("preerr", A("graft: bad op")))
				}
				i, _ := strconv.Atoi(op.List[2].Atom)
				n := t.NewNode()
				n.SetName(op.List[1].Atom)
				if _, _, _, err := t.GraftTipOnEdge(n, edges[i%len(edges)]); err != nil {
					return L(KV("preerr", A("graft: "+err.Error())))
				}
			case "rename":
				if len(op.List) < 3 {
					return L(KV("preerr", A("rename: bad op")))
				}
				for _, tip := range t.Tips() {
					if tip.Name() == op.List[1].Atom {
						tip.SetName(op.List[2].Atom)
						break
					}
				}
			case "prune":
				if len(op.List) < 3 {
					return L(KV("preerr", A("prune: bad op")))
				}
				ns := []string{}
				for _, x := range op.List[2].List {
					ns = append(ns, x.Atom)
				}
				if err := t.RemoveTips(op.List[1].Atom == "T", ns...); err != nil {
					return L(KV("preerr", A("prune: "+err.Error())))
				}
			case "clone":
				t = t.Clone()
			}
		}
	}
	var pretree, preaudit *Sexp
	if hasPre {
		// the tree as it is when RemoveTips is called: the judge takes it as the input
		pretree, preaudit = ObserveTree(t)
	}
	names := c.StrList("names")
	queries := []string{}
	seen := map[string]bool{}
	for _, tip := range t.Tips() {
		if !seen[tip.Name()] {
			seen[tip.Name()] = true
			queries = append(queries, tip.Name())
		}
	}
	for _, n := range names {
		if !seen[n] {
			seen[n] = true
			queries = append(queries, n)
		}
	}
	operr := t.RemoveTips(c.Bool("revert"), names...)
	if operr != nil {
		// the tree is left half-modified: nothing else is observed
		res := L(KV("err", A(errStr(operr))))
		if hasPre {
			res.List = append(res.List, KV("pretree", pretree), KV("preaudit", preaudit))
		}
		return res
	}
	d, audit := ObserveTree(t)
	live := map[*tree.Node]bool{}
	tips := t.Tips()
	for _, tip := range tips {
		live[tip] = true
	}
	lookups := L()
	for _, q := range queries {
		ex := "F"
		if ok, e := t.ExistsTip(q); e != nil {
			ex = "E"
		} else if ok {
			ex = "T"
		}
		tn := "F"
		if n, e := t.TipNode(q); e == nil {
			if n != nil && live[n] && n.Name() == q {
				tn = "T"
			} else {
				tn = "S"
			}
		}
		ti := "F"
		if _, e := t.TipIndex(q); e == nil {
			ti = "T"
		}
		lookups.List = append(lookups.List, L(A(q), A(ex), A(tn), A(ti)))
	}
	nb := -1
	if n, e := t.NbTips(); e == nil {
		nb = n
	}
	res := L(KV("err", A("")), KV("tree", d), KV("audit", audit), KV("lookups", lookups),
		KV("nbtips", I(nb)), KV("ntips", I(len(tips))), KV("nalltips", I(len(t.AllTipNames()))))
	if hasPre {
		res.List = append(res.List, KV("pretree", pretree), KV("preaudit", preaudit))
	}
	return res
}
