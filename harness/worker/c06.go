package main

import (
	"github.com/evolbioinfo/gotree/tree"
)

func init() { register("C06", c06) }

// case: ((tree T) (names ("a" ...)) (revert T|F))
// obs : ((err msg) (tree T') (audit (...)) (lookups ((name exists tipnode tipindex) ...))
//
//	(nbtips n) (ntips n) (nalltips n))
//
// exists: T | F | E (error);  tipnode: T (a node that is a tip of the tree now, with that name)
// | S (a node that is not a tip of the tree any more) | F (error);  tipindex: T | F (error)
func c06(c *Sexp) *Sexp {
	t, err := BuildTree(c.Get("tree"))
	if err != nil {
		return L(KV("panic", A("build: "+err.Error())))
	}
	if err := t.ReinitIndexes(); err != nil {
		return L(KV("panic", A("reinit: "+err.Error())))
	}
	names := c.StrList("names")
	queries := []string{}
	seen := map[string]bool{}
	for _, tip := range t.Tips() {
		if !seen[tip.Name()] {
			seen[tip.Name()] = true
			queries = append(queries, tip.Name())
		}
	}
	for _, n := range names {
		if !seen[n] {
			seen[n] = true
			queries = append(queries, n)
		}
	}
	operr := t.RemoveTips(c.Bool("revert"), names...)
	if operr != nil {
		// the tree is left half-modified: nothing else is observed
		return L(KV("err", A(errStr(operr))))
	}
	d, audit := ObserveTree(t)
	live := map[*tree.Node]bool{}
	tips := t.Tips()
	for _, tip := range tips {
		live[tip] = true
	}
	lookups := L()
	for _, q := range queries {
		ex := "F"
		if ok, e := t.ExistsTip(q); e != nil {
			ex = "E"
		} else if ok {
			ex = "T"
		}
		tn := "F"
		if n, e := t.TipNode(q); e == nil {
			if n != nil && live[n] && n.Name() == q {
				tn = "T"
			} else {
				tn = "S"
			}
		}
		ti := "F"
		if _, e := t.TipIndex(q); e == nil {
			ti = "T"
		}
		lookups.List = append(lookups.List, L(A(q), A(ex), A(tn), A(ti)))
	}
	nb := -1
	if n, e := t.NbTips(); e == nil {
		nb = n
	}
	return L(KV("err", A("")), KV("tree", d), KV("audit", audit), KV("lookups", lookups),
		KV("nbtips", I(nb)), KV("ntips", I(len(tips))), KV("nalltips", I(len(t.AllTipNames()))))
}
