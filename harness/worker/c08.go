package main

import (
	"fmt"
	"math/rand"
	"strconv"
	"time"

	"github.com/evolbioinfo/gotree/tree"
)

func init() { register("C08", c08) }

// case: ((op compare|weighted) (t1 T) (t2s (T ...)) (tips T|F) (ident T|F))     a STREAM of compared trees, one call, cpus=1
//       ((op common) (t1 T) (t2 T) (tips T|F) (ident F))
//       optional (pre1 E) (pres (E ...)): pre-used trees, see preUse; the observation then carries
//       (t1after T) (t2after (T ...)) (audit (..)): the trees as they are at comparison time
// obs : ((err "msg") (stats (((id i) (tree1 n) (tree2 n) (common n) (same T|F) (serr "msg")) ...)))           compare
//       ((err "msg") (wstats (((id i) (tree1 (q..)) (tree2 (q..)) (common (q..)) (same T|F) (serr "msg")) ...)))  weighted
//       ((err "msg") (tree1 n) (common n))                                                      common
//       ((hang T))   when the stats channel was not closed within 8 s
// preUse gives a tree a history: it is indexed (ReinitIndexes), then goes through public edits that
// a caller could perform before comparing, none of which is followed by a re-indexing of ours.
//   (none) | (rename "a" "b") | (setname "a" "b") | (reroot i) | (rotate seed) | (unroot)
//   | (removetips "x" ...) | (collapse len) | (reinit) | (clone) | (seq E ...)
// (none) leaves the freshly built tree untouched (not even indexed).  The (possibly new) tree is returned.
func preUse(t *tree.Tree, e *Sexp) (*tree.Tree, string) {
	if e == nil || !e.IsList || len(e.List) == 0 || e.List[0].Atom == "none" {
		return t, ""
	}
	if err := t.ReinitIndexes(); err != nil {
		return t, "reinit: " + err.Error()
	}
	return applyEdit(t, e)
}

func applyEdit(t *tree.Tree, e *Sexp) (*tree.Tree, string) {
	arg := func(i int) string {
		if i < len(e.List) {
			return e.List[i].Atom
		}
		return ""
	}
	switch e.List[0].Atom {
	case "none":
	case "seq":
		for _, sub := range e.List[1:] {
			var m string
			if t, m = applyEdit(t, sub); m != "" {
				return t, m
			}
		}
	case "rename":
		if err := t.Rename(map[string]string{arg(1): arg(2), arg(2): arg(1)}); err != nil {
			return t, "rename: " + err.Error()
		}
	case "setname":
		var na, nb *tree.Node
		for _, n := range t.Tips() {
			if n.Name() == arg(1) {
				na = n
			} else if n.Name() == arg(2) {
				nb = n
			}
		}
		if na != nil && nb != nil {
			na.SetName(arg(2))
			nb.SetName(arg(1))
		}
	case "reroot":
		i, _ := strconv.Atoi(arg(1))
		nodes := t.Nodes()
		if i < len(nodes) {
			_ = t.Reroot(nodes[i])
		}
	case "rotate":
		seed, _ := strconv.ParseInt(arg(1), 10, 64)
		rand.Seed(seed)
		t.RotateInternalNodes()
	case "unroot":
		t.UnRoot()
	case "removetips":
		names := []string{}
		for _, a := range e.List[1:] {
			names = append(names, a.Atom)
		}
		if err := t.RemoveTips(false, names...); err != nil {
			return t, "removetips: " + err.Error()
		}
	case "collapse":
		l, _ := ParseQ(arg(1))
		t.CollapseShortBranches(l, false, false)
	case "reinit":
		if err := t.ReinitIndexes(); err != nil {
			return t, "reinit: " + err.Error()
		}
	case "clone":
		t = t.Clone()
	case "shuffle":
		seed, _ := strconv.ParseInt(arg(1), 10, 64)
		rand.Seed(seed)
		t.ShuffleTips()
	default:
		return t, "unknown edit " + e.List[0].Atom
	}
	return t, ""
}

func c08(c *Sexp) *Sexp {
	t1, err := BuildTree(c.Get("t1"))
	if err != nil {
		return L(KV("panic", A("build t1: "+err.Error())))
	}
	tips := c.Bool("tips")
	ident := c.Bool("ident")
	op := c.Str("op")
	var t2s []*tree.Tree
	if l := c.Get("t2s"); l != nil && l.IsList {
		for i, s := range l.List {
			t, err := BuildTree(s)
			if err != nil {
				return L(KV("panic", A(fmt.Sprintf("build t2s[%d]: %v", i, err))))
			}
			t2s = append(t2s, t)
		}
	}
	// pre-used trees: (pre1 E) for the reference, (pres (E ...)) for the compared trees
	after := L()
	problems := []string{}
	var pm string
	isHead := func(e *Sexp, h string) bool {
		return e != nil && e.IsList && len(e.List) > 0 && e.List[0].Atom == h
	}
	// (pre1 (fromcmp i E ...)): the reference is a Clone() of the i-th compared tree, taken after that tree
	// was indexed, then edited (no re-indexing)
	if p1 := c.Get("pre1"); isHead(p1, "fromcmp") {
		i, _ := strconv.Atoi(p1.List[1].Atom)
		if i < len(t2s) {
			if err := t2s[i].ReinitIndexes(); err != nil {
				return L(KV("panic", A("fromcmp reinit: "+err.Error())))
			}
			t1 = t2s[i].Clone()
			for _, sub := range p1.List[2:] {
				if t1, pm = applyEdit(t1, sub); pm != "" {
					return L(KV("panic", A("pre1: "+pm)))
				}
			}
		}
	} else if t1, pm = preUse(t1, p1); pm != "" {
		return L(KV("panic", A("pre1: "+pm)))
	}
	if pres := c.Get("pres"); pres != nil && pres.IsList {
		for i, e := range pres.List {
			if i < len(t2s) {
				var m string
				if isHead(e, "fromref") {
					// the compared tree is a Clone() of the (already indexed) reference, then edited
					if err := t1.ReinitIndexes(); err != nil {
						return L(KV("panic", A("fromref reinit: "+err.Error())))
					}
					t2s[i] = t1.Clone()
					for _, sub := range e.List[1:] {
						if t2s[i], m = applyEdit(t2s[i], sub); m != "" {
							return L(KV("panic", A(fmt.Sprintf("pres[%d]: %s", i, m))))
						}
					}
				} else if t2s[i], m = preUse(t2s[i], e); m != "" {
					return L(KV("panic", A(fmt.Sprintf("pres[%d]: %s", i, m))))
				}
			}
		}
	}
	hasPre := c.Get("pre1") != nil || c.Get("pres") != nil
	if hasPre {
		// the trees as they are at comparison time (read through Neigh()/Edges() only)
		after.List = append(after.List, KV("t1after", DumpTree(t1, &problems)))
		l := L()
		for _, t := range t2s {
			l.List = append(l.List, DumpTree(t, &problems))
		}
		after.List = append(after.List, KV("t2after", l), KV("audit", Strs(problems)))
	}
	// (rep k): the single compared tree is sent k times (k separately built copies)
	if c.Get("rep") != nil && len(t2s) == 1 {
		k := c.Int("rep")
		src := c.Get("t2s").List[0]
		for i := 1; i < k; i++ {
			t, err := BuildTree(src)
			if err != nil {
				return L(KV("panic", A("build copy: "+err.Error())))
			}
			t2s = append(t2s, t)
		}
	}
	if op == "common" {
		t2, err := BuildTree(c.Get("t2"))
		if err != nil {
			return L(KV("panic", A("build t2: "+err.Error())))
		}
		if pres := c.Get("pres"); pres != nil && pres.IsList && len(pres.List) > 0 {
			var m string
			if isHead(pres.List[0], "fromref") {
				if err := t1.ReinitIndexes(); err != nil {
					return L(KV("panic", A("fromref reinit: "+err.Error())))
				}
				t2 = t1.Clone()
				for _, sub := range pres.List[0].List[1:] {
					if t2, m = applyEdit(t2, sub); m != "" {
						return L(KV("panic", A("pres[0]: "+m)))
					}
				}
			} else if t2, m = preUse(t2, pres.List[0]); m != "" {
				return L(KV("panic", A("pres[0]: "+m)))
			}
		}
		if hasPre {
			problems = []string{}
			after = L(KV("t1after", DumpTree(t1, &problems)), KV("t2after", L(DumpTree(t2, &problems))), KV("audit", Strs(problems)))
		}
		// preparation of both trees: ReinitIndexes, or (prep three) the three calls the documentation of
		// CommonEdges / FindEdge / SameBipartition names: UpdateTipIndex(); ClearBitSets(); UpdateBitSet()
		prep := func(t *tree.Tree) error {
			if c.Str("prep") == "three" {
				if e := t.UpdateTipIndex(); e != nil {
					return e
				}
				if e := t.ClearBitSets(); e != nil {
					return e
				}
				return t.UpdateBitSet()
			}
			return t.ReinitIndexes()
		}
		if e := prep(t1); e != nil {
			return L(KV("err", A("reinit t1: "+e.Error())))
		}
		if e := prep(t2); e != nil {
			return L(KV("err", A("reinit t2: "+e.Error())))
		}
		tr1, com, e := t1.CommonEdges(t2, tips)
		r := L(KV("err", A(errStr(e))), KV("tree1", I(tr1)), KV("common", I(com)))
		r.List = append(r.List, after.List...)
		return r
	}
	cpus := 1
	if c.Get("cpus") != nil {
		cpus = c.Int("cpus")
	}
	done := make(chan *Sexp, 1)
	go func() {
		defer func() {
			if r := recover(); r != nil {
				done <- L(KV("panic", A(fmt.Sprintf("%v", r))))
			}
		}()
		ch := make(chan tree.Trees, len(t2s)+1)
		for i, t2 := range t2s {
			ch <- tree.Trees{Tree: t2, Id: i, Err: nil}
		}
		close(ch)
		switch op {
		case "compare":
			stats, e := tree.Compare(t1, ch, tips, ident, cpus)
			if e != nil {
				done <- L(KV("err", A(errStr(e))))
				return
			}
			recs := L()
			for st := range stats {
				if cpus > 1 {
					// a slow consumer: workers wait on the unbuffered channel with their record ready
					time.Sleep(50 * time.Microsecond)
				}
				recs.List = append(recs.List, L(KV("id", I(st.Id)), KV("tree1", I(st.Tree1)), KV("tree2", I(st.Tree2)), KV("common", I(st.Common)),
					KV("same", B(st.Sametree)), KV("serr", A(errStr(st.Err)))))
			}
			r := L(KV("err", A("")), KV("stats", recs))
			r.List = append(r.List, after.List...)
			done <- r
		case "weighted":
			stats, e := tree.CompareWeighted(t1, ch, tips, ident, cpus)
			if e != nil {
				done <- L(KV("err", A(errStr(e))))
				return
			}
			recs := L()
			fl := func(l []float64) *Sexp {
				r := L()
				for _, x := range l {
					r.List = append(r.List, F(x))
				}
				return r
			}
			for st := range stats {
				recs.List = append(recs.List, L(KV("id", I(st.Id)), KV("tree1", fl(st.Tree1)), KV("tree2", fl(st.Tree2)), KV("common", fl(st.Common)),
					KV("same", B(st.Sametree)), KV("serr", A(errStr(st.Err)))))
			}
			r := L(KV("err", A("")), KV("wstats", recs))
			r.List = append(r.List, after.List...)
			done <- r
		default:
			done <- L(KV("panic", A("unknown op")))
		}
	}()
	select {
	case o := <-done:
		return o
	case <-time.After(8 * time.Second):
		return L(KV("hang", A("T")))
	}
}
