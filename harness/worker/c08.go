package main

import (
	"fmt"
	"time"

	"github.com/evolbioinfo/gotree/tree"
)

func init() { register("C08", c08) }

// case: ((op compare|weighted) (t1 T) (t2s (T ...)) (tips T|F) (ident T|F))     a STREAM of compared trees, one call, cpus=1
//       ((op common) (t1 T) (t2 T) (tips T|F) (ident F))
// obs : ((err "msg") (stats (((id i) (tree1 n) (tree2 n) (common n) (same T|F) (serr "msg")) ...)))           compare
//       ((err "msg") (wstats (((id i) (tree1 (q..)) (tree2 (q..)) (common (q..)) (same T|F) (serr "msg")) ...)))  weighted
//       ((err "msg") (tree1 n) (common n))                                                      common
//       ((hang T))   when the stats channel was not closed within 8 s
func c08(c *Sexp) *Sexp {
	t1, err := BuildTree(c.Get("t1"))
	if err != nil {
		return L(KV("panic", A("build t1: "+err.Error())))
	}
	tips := c.Bool("tips")
	ident := c.Bool("ident")
	op := c.Str("op")
	var t2s []*tree.Tree
	if l := c.Get("t2s"); l != nil && l.IsList {
		for i, s := range l.List {
			t, err := BuildTree(s)
			if err != nil {
				return L(KV("panic", A(fmt.Sprintf("build t2s[%d]: %v", i, err))))
			}
			t2s = append(t2s, t)
		}
	}
	if op == "common" {
		t2, err := BuildTree(c.Get("t2"))
		if err != nil {
			return L(KV("panic", A("build t2: "+err.Error())))
		}
		if e := t1.ReinitIndexes(); e != nil {
			return L(KV("err", A("reinit t1: "+e.Error())))
		}
		if e := t2.ReinitIndexes(); e != nil {
			return L(KV("err", A("reinit t2: "+e.Error())))
		}
		tr1, com, e := t1.CommonEdges(t2, tips)
		return L(KV("err", A(errStr(e))), KV("tree1", I(tr1)), KV("common", I(com)))
	}
	done := make(chan *Sexp, 1)
	go func() {
		defer func() {
			if r := recover(); r != nil {
				done <- L(KV("panic", A(fmt.Sprintf("%v", r))))
			}
		}()
		ch := make(chan tree.Trees, len(t2s)+1)
		for i, t2 := range t2s {
			ch <- tree.Trees{Tree: t2, Id: i, Err: nil}
		}
		close(ch)
		switch op {
		case "compare":
			stats, e := tree.Compare(t1, ch, tips, ident, 1)
			if e != nil {
				done <- L(KV("err", A(errStr(e))))
				return
			}
			recs := L()
			for st := range stats {
				recs.List = append(recs.List, L(KV("id", I(st.Id)), KV("tree1", I(st.Tree1)), KV("tree2", I(st.Tree2)), KV("common", I(st.Common)),
					KV("same", B(st.Sametree)), KV("serr", A(errStr(st.Err)))))
			}
			done <- L(KV("err", A("")), KV("stats", recs))
		case "weighted":
			stats, e := tree.CompareWeighted(t1, ch, tips, ident, 1)
			if e != nil {
				done <- L(KV("err", A(errStr(e))))
				return
			}
			recs := L()
			fl := func(l []float64) *Sexp {
				r := L()
				for _, x := range l {
					r.List = append(r.List, F(x))
				}
				return r
			}
			for st := range stats {
				recs.List = append(recs.List, L(KV("id", I(st.Id)), KV("tree1", fl(st.Tree1)), KV("tree2", fl(st.Tree2)), KV("common", fl(st.Common)),
					KV("same", B(st.Sametree)), KV("serr", A(errStr(st.Err)))))
			}
			done <- L(KV("err", A("")), KV("wstats", recs))
		default:
			done <- L(KV("panic", A("unknown op")))
		}
	}()
	select {
	case o := <-done:
		return o
	case <-time.After(8 * time.Second):
		return L(KV("hang", A("T")))
	}
}
