package main

import (
	"errors"
	"io/ioutil"
	"log"
	"sort"
	"strconv"

	"github.com/evolbioinfo/gotree/tree"
)

func init() { register("C05", c05) }

// outgroupMulti applies ONE outgroup slice to several trees in a loop, as cmd/reroot does over a
// multi-tree file: RerootOutGroup(remove, strict, names...) with the same slice every time.
//
//	case: ((op outgroup_multi) (trees (T ...)) (names (...)) (remove b) (strict b))
//	obs : ((results (OBS ...)) (names_after (...)))   OBS as for op outgroup
func outgroupMulti(c *Sexp) *Sexp {
	log.SetOutput(ioutil.Discard)
	names := c.StrList("names")
	res := L()
	for _, ts := range c.Get("trees").List {
		t, err := BuildTree(ts)
		if err != nil {
			return L(KV("panic", A("build: "+err.Error())))
		}
		if err := t.ReinitIndexes(); err != nil {
			return L(KV("panic", A("reinit: "+err.Error())))
		}
		operr := t.RerootOutGroup(c.Bool("remove"), c.Bool("strict"), names...)
		if operr != nil {
			res.List = append(res.List, L(KV("err", A(errStr(operr)))))
			continue
		}
		d, audit := ObserveTree(t)
		o := L(KV("err", A("")), KV("tree", d), KV("audit", audit))
		o.List = append(o.List, indexState(t)...)
		res.List = append(res.List, o)
	}
	return L(KV("results", res), KV("names_after", Strs(names)))
}

// preEdit leaves the tip-name index STALE before the operation, through public functions only:
//
//	(pre (rename "old" "new"))  the case tree carries "new"; the tip is renamed to "old", the tree
//	                            indexed, and the tip renamed back to "new" with Node.SetName
//	(pre (graft i "name"))      a new tip "name" is grafted on branch i of Edges() (GraftTipOnEdge)
//	                            after indexing; the tree at that point is reported as (mid T)
func preEdit(t *tree.Tree, pre *Sexp, obs *Sexp) error {
	if pre == nil || !pre.IsList || len(pre.List) != 3 {
		return t.ReinitIndexes()
	}
	switch pre.List[0].Atom {
	case "rename":
		old, nw := pre.List[1].Atom, pre.List[2].Atom
		var tip *tree.Node
		for _, x := range t.Tips() {
			if x.Name() == nw {
				tip = x
			}
		}
		if tip == nil {
			return errors.New("no such tip")
		}
		tip.SetName(old)
		if err := t.ReinitIndexes(); err != nil {
			return err
		}
		tip.SetName(nw)
	case "graft":
		if err := t.ReinitIndexes(); err != nil {
			return err
		}
		i, _ := strconv.Atoi(pre.List[1].Atom)
		edges := t.Edges()
		if i >= len(edges) {
			return errors.New("no such branch")
		}
		n := t.NewNode()
		n.SetName(pre.List[2].Atom)
		if _, _, _, err := t.GraftTipOnEdge(n, edges[i]); err != nil {
			return err
		}
		d, audit := ObserveTree(t)
		obs.List = append(obs.List, KV("mid", d), KV("midaudit", audit))
	default:
		return t.ReinitIndexes()
	}
	return nil
}

// handBuilt assembles the tree through NewNode/ConnectNodes with arbitrary branch directions
// (BuildTreeAPI), then does what a library user does: Reroot on a node of the tree (the library's
// way to orient a hand-made tree), then ReinitIndexes.
//
//	case: ((op handbuilt) (tree T) (flip (T|F ...)) (i n))     T with the parent slot first everywhere
func handBuilt(c *Sexp) *Sexp {
	flips := []bool{}
	if f := c.Get("flip"); f != nil {
		for _, b := range f.List {
			flips = append(flips, b.Atom == "T")
		}
	}
	t, err := BuildTreeAPI(c.Get("tree"), flips)
	if err != nil {
		return L(KV("panic", A("build: "+err.Error())))
	}
	nodes := t.Nodes()
	i := c.Int("i")
	var n *tree.Node
	if i < len(nodes) {
		n = nodes[i]
	} else {
		n = t.NewNode()
	}
	operr := t.Reroot(n)
	if operr == nil {
		if err := t.ReinitIndexes(); err != nil {
			return L(KV("panic", A("indexing after Reroot: "+err.Error())))
		}
	}
	d, audit := ObserveTree(t)
	obs := L(KV("err", A(errStr(operr))), KV("tree", d), KV("audit", audit))
	if operr == nil {
		obs.List = append(obs.List, indexState(t)...)
	}
	return obs
}

func c05(c *Sexp) *Sexp {
	if c.Str("op") == "outgroup_multi" {
		return outgroupMulti(c)
	}
	if c.Str("op") == "handbuilt" {
		return handBuilt(c)
	}
	if c.Str("op") == "outgroup" && c.Get("pre") != nil {
		log.SetOutput(ioutil.Discard)
		t, err := BuildTree(c.Get("tree"))
		if err != nil {
			return L(KV("panic", A("build: "+err.Error())))
		}
		obs := L()
		if err := preEdit(t, c.Get("pre"), obs); err != nil {
			return L(KV("panic", A("reinit: "+err.Error())))
		}
		operr := t.RerootOutGroup(c.Bool("remove"), c.Bool("strict"), c.StrList("names")...)
		if operr != nil {
			obs.List = append(obs.List, KV("err", A(errStr(operr))))
			return obs
		}
		d, audit := ObserveTree(t)
		obs.List = append(obs.List, KV("err", A("")), KV("tree", d), KV("audit", audit))
		return obs
	}
	t, err := BuildTree(c.Get("tree"))
	if err != nil {
		return L(KV("panic", A("build: "+err.Error())))
	}
	if err := t.ReinitIndexes(); err != nil {
		return L(KV("panic", A("reinit: "+err.Error())))
	}
	var operr error
	obs := L()
	switch c.Str("op") {
	case "reroot":
		nodes := t.Nodes()
		i := c.Int("i")
		var n *tree.Node
		if i < len(nodes) {
			n = nodes[i]
		} else {
			n = t.NewNode()
		}
		operr = t.Reroot(n)
	case "unroot":
		t.UnRoot()
	case "rotate":
		obs.List = append(obs.List, KV("raw", rawStream(int64(c.Int("seed")), c.Int("nraw"))))
		t.RotateInternalNodes()
	case "sort":
		t.SortNeighborsByTips()
	case "outgroup":
		// RerootOutGroup logs a warning for a non-monophyletic outgroup; keep stderr quiet
		log.SetOutput(ioutil.Discard)
		operr = t.RerootOutGroup(c.Bool("remove"), c.Bool("strict"), c.StrList("names")...)
		if operr != nil {
			// the tree may be half modified when the function refuses: only the refusal is observed
			return L(KV("err", A(errStr(operr))))
		}
	case "midpoint":
		operr = t.RerootMidPoint()
		if operr != nil {
			return L(KV("err", A(errStr(operr))))
		}
	default:
		return L(KV("panic", A("unknown op")))
	}
	d, audit := ObserveTree(t)
	obs.List = append(obs.List, KV("err", A(errStr(operr))), KV("tree", d), KV("audit", audit))
	switch c.Str("op") {
	case "reroot", "unroot", "outgroup", "midpoint":
		if operr == nil {
			obs.List = append(obs.List, indexState(t)...)
		}
	}
	return obs
}

// indexState observes the name index and the bitsets after an operation:
//
//	(tipidx ("name" ...))            keys of the tip-name index, sorted
//	(tipstate (("name" T|F id) ...)) for every tip of Tips(): ExistsTip(name), TipIndex(name) (-1 on error)
//	(bitsets (w ...))                for every branch of Edges(): width of its bitset, -1 when nil
func indexState(t *tree.Tree) []*Sexp {
	names := t.VerifTipIndexNames()
	sort.Strings(names)
	st := L()
	for _, tip := range t.Tips() {
		ex, err := t.ExistsTip(tip.Name())
		if err != nil {
			ex = false
		}
		id, err := t.TipIndex(tip.Name())
		if err != nil {
			id = -1
		}
		st.List = append(st.List, L(A(tip.Name()), B(ex), I(id)))
	}
	bs := L()
	for _, e := range t.Edges() {
		if e.Bitset() == nil {
			bs.List = append(bs.List, I(-1))
		} else {
			bs.List = append(bs.List, I(int(e.Bitset().Len())))
		}
	}
	return []*Sexp{KV("tipidx", Strs(names)), KV("tipstate", st), KV("bitsets", bs)}
}
