package main

import (
	"io/ioutil"
	"log"
	"sort"

	"github.com/evolbioinfo/gotree/tree"
)

func init() { register("C05", c05) }

func c05(c *Sexp) *Sexp {
	t, err := BuildTree(c.Get("tree"))
	if err != nil {
		return L(KV("panic", A("build: "+err.Error())))
	}
	if err := t.ReinitIndexes(); err != nil {
		return L(KV("panic", A("reinit: "+err.Error())))
	}
	var operr error
	obs := L()
	switch c.Str("op") {
	case "reroot":
		nodes := t.Nodes()
		i := c.Int("i")
		var n *tree.Node
		if i < len(nodes) {
			n = nodes[i]
		} else {
			n = t.NewNode()
		}
		operr = t.Reroot(n)
	case "unroot":
		t.UnRoot()
	case "rotate":
		obs.List = append(obs.List, KV("raw", rawStream(int64(c.Int("seed")), c.Int("nraw"))))
		t.RotateInternalNodes()
	case "sort":
		t.SortNeighborsByTips()
	case "outgroup":
		// RerootOutGroup logs a warning for a non-monophyletic outgroup; keep stderr quiet
		log.SetOutput(ioutil.Discard)
		operr = t.RerootOutGroup(c.Bool("remove"), c.Bool("strict"), c.StrList("names")...)
		if operr != nil {
			// the tree may be half modified when the function refuses: only the refusal is observed
			return L(KV("err", A(errStr(operr))))
		}
	case "midpoint":
		operr = t.RerootMidPoint()
		if operr != nil {
			return L(KV("err", A(errStr(operr))))
		}
	default:
		return L(KV("panic", A("unknown op")))
	}
	d, audit := ObserveTree(t)
	obs.List = append(obs.List, KV("err", A(errStr(operr))), KV("tree", d), KV("audit", audit))
	switch c.Str("op") {
	case "reroot", "unroot", "outgroup", "midpoint":
		if operr == nil {
			obs.List = append(obs.List, indexState(t)...)
		}
	}
	return obs
}

// indexState observes the name index and the bitsets after an operation:
//
//	(tipidx ("name" ...))            keys of the tip-name index, sorted
//	(tipstate (("name" T|F id) ...)) for every tip of Tips(): ExistsTip(name), TipIndex(name) (-1 on error)
//	(bitsets (w ...))                for every branch of Edges(): width of its bitset, -1 when nil
func indexState(t *tree.Tree) []*Sexp {
	names := t.VerifTipIndexNames()
	sort.Strings(names)
	st := L()
	for _, tip := range t.Tips() {
		ex, err := t.ExistsTip(tip.Name())
		if err != nil {
			ex = false
		}
		id, err := t.TipIndex(tip.Name())
		if err != nil {
			id = -1
		}
		st.List = append(st.List, L(A(tip.Name()), B(ex), I(id)))
	}
	bs := L()
	for _, e := range t.Edges() {
		if e.Bitset() == nil {
			bs.List = append(bs.List, I(-1))
		} else {
			bs.List = append(bs.List, I(int(e.Bitset().Len())))
		}
	}
	return []*Sexp{KV("tipidx", Strs(names)), KV("tipstate", st), KV("bitsets", bs)}
}
