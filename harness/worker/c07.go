package main

func init() { register("C07", c07) }

// case: ((op collapse_len|collapse_sup|collapse_depth|resolve) (tree T)
//
//	(l q) (s q) (min n) (max n) (rr T|F) (rt T|F) (seed n) (nraw n))
//
// obs : ((raw (...))? (err msg) (tree T') (audit (...)))
func c07(c *Sexp) *Sexp {
	t, err := BuildTree(c.Get("tree"))
	if err != nil {
		return L(KV("panic", A("build: "+err.Error())))
	}
	if err := t.ReinitIndexes(); err != nil {
		return L(KV("panic", A("reinit: "+err.Error())))
	}
	var operr error
	obs := L()
	rr, rt := c.Bool("rr"), c.Bool("rt")
	switch c.Str("op") {
	case "collapse_len":
		t.CollapseShortBranches(c.Float("l"), rr, rt)
	case "collapse_sup":
		t.CollapseLowSupport(c.Float("s"), rr)
	case "collapse_depth":
		operr = t.CollapseTopoDepth(c.Int("min"), c.Int("max"), rr, rt)
	case "resolve":
		obs.List = append(obs.List, KV("raw", rawStream(int64(c.Int("seed")), c.Int("nraw"))))
		t.Resolve()
	default:
		return L(KV("panic", A("unknown op")))
	}
	d, audit := ObserveTree(t)
	obs.List = append(obs.List, KV("err", A(errStr(operr))), KV("tree", d), KV("audit", audit))
	return obs
}
