package main

import (
	"math"

	"github.com/evolbioinfo/gotree/tree"
)

func init() { register("C07", c07) }

// case: ((op collapse_len|collapse_sup|collapse_depth|resolve) (tree T)
//
//	(l q) (s q) (min n) (max n) (rr T|F) (rt T|F) (seed n) (nraw n))
//
// obs : ((raw (...))? (err msg) (tree T') (audit (...)))
//
// Non-finite numbers (outside the rationals of the wire format and of the model):
//
//	(nanlen (i ...)) (lenspecial nan|inf|ninf)   the lengths of Edges()[i] are replaced by NaN / +Inf / -Inf
//	(nansup (i ...)) (supspecial nan|inf|ninf)   same for supports
//	(lspecial k) / (sspecial k)                  the threshold passed to the code is NaN / +Inf / -Inf
//
// before the operation; afterwards the marked branches get their placeholder value back so that
// the tree can be dumped.  The generator chooses placeholders (and the rational threshold the
// judge sees) on the same side of the comparison as the non-finite value: NaN <= t and NaN < s
// are false.
func c07(c *Sexp) *Sexp {
	t, err := BuildTree(c.Get("tree"))
	if err != nil {
		return L(KV("panic", A("build: "+err.Error())))
	}
	if err := t.ReinitIndexes(); err != nil {
		return L(KV("panic", A("reinit: "+err.Error())))
	}
	var operr error
	obs := L()
	special := func(k string) (float64, bool) {
		switch k {
		case "nan":
			return math.NaN(), true
		case "inf":
			return math.Inf(1), true
		case "ninf":
			return math.Inf(-1), true
		}
		return 0, false
	}
	savedLen := map[*tree.Edge]float64{}
	savedSup := map[*tree.Edge]float64{}
	edges := t.Edges()
	if v, ok := special(c.Str("lenspecial")); ok {
		for _, i := range c.IntList("nanlen") {
			if i < len(edges) {
				savedLen[edges[i]] = edges[i].Length()
				edges[i].SetLength(v)
			}
		}
	}
	if v, ok := special(c.Str("supspecial")); ok {
		for _, i := range c.IntList("nansup") {
			if i < len(edges) {
				savedSup[edges[i]] = edges[i].Support()
				edges[i].SetSupport(v)
			}
		}
	}
	lthr, sthr := c.Float("l"), c.Float("s")
	if v, ok := special(c.Str("lspecial")); ok {
		lthr = v
	}
	if v, ok := special(c.Str("sspecial")); ok {
		sthr = v
	}
	rr, rt := c.Bool("rr"), c.Bool("rt")
	switch c.Str("op") {
	case "collapse_len":
		t.CollapseShortBranches(lthr, rr, rt)
	case "collapse_sup":
		t.CollapseLowSupport(sthr, rr)
	case "collapse_depth":
		operr = t.CollapseTopoDepth(c.Int("min"), c.Int("max"), rr, rt)
	case "resolve":
		obs.List = append(obs.List, KV("raw", rawStream(int64(c.Int("seed")), c.Int("nraw"))))
		t.Resolve()
	default:
		return L(KV("panic", A("unknown op")))
	}
	for e, v := range savedLen {
		e.SetLength(v)
	}
	for e, v := range savedSup {
		e.SetSupport(v)
	}
	d, audit := ObserveTree(t)
	obs.List = append(obs.List, KV("err", A(errStr(operr))), KV("tree", d), KV("audit", audit))
	return obs
}
