package main

import (
	"bufio"
	"fmt"
	"io"
	"log"
	"strings"
	"time"

	"github.com/evolbioinfo/gotree/io/nexus"
	"github.com/evolbioinfo/gotree/io/phyloxml"
	"github.com/evolbioinfo/gotree/io/utils"
	"github.com/evolbioinfo/gotree/tree"
)

func init() { register("C13", c13) }

// C13: format conversions and reader entry points agree.
//
//	case: ((trees (T ...)) (translate T|F) (seps ("\n" ...)) (breaks T|F) (breakat (i ...)) (nsjson "nextstrain json of the first tree"))
//
// The handler does what `gotree reformat nexus|phyloxml|newick` do (cmd/reformat*.go): the
// input file is read with utils.ReadMultiTrees and the channel is handed to
// nexus.WriteNexus / phyloxml.WritePhyloXML; the result is read back with
// utils.ReadMultiTrees in the other format and every tree is written with Newick().
//
//	texts   : Newick() of every input tree
//	src     : the multi-tree Newick file in the requested layout: text_i (with a line break
//	          after every comma when breaks; with brk_before = LF or CRLF before every brk_every-th ',' ')' ':' of the
//	          file, i.e. after labels and numbers) followed by seps_i
//	multi   : records of ReadMultiTrees(src, newick)
//	nexus   : WriteNexus(ReadMultiTrees(one tree per line), translate); nexus_err
//	nexus_recs : records of ReadMultiTrees(nexus text, nexus)
//	px, px_err, px_recs : the same through WritePhyloXML / the PhyloXML reader
//	px_b, nexus_b (+_err, _recs) : WritePhyloXML / WriteNexus fed with the trees as built (not re-parsed), ids 0,1,...
//	nexus_z (+_err, _recs) : WriteNexus fed with records whose Id was never set (every tree is written as tree0)
//	tnexus, tnexus_recs : Tree.Nexus() of the first tree and its records
//	pxdoc (optional, in the case): the same trees as a PhyloXML document rendered by the generator, not by the writer under
//	          test (a clade may carry <name> and <confidence> together, as files of other tools do):
//	          pxd_recs = records of ReadMultiTrees(pxdoc, phyloxml); pxd_px(+_err,_recs) = WritePhyloXML of these records and
//	          its records; pxd_nwk = Newick() of every tree read, one per line, pxd_nwk_recs its records;
//	          pxd_nexus(+_err,_recs) = WriteNexus of the records read
//	nxdoc (optional, in the case): the same trees as a Nexus file with several TREES blocks, rendered by the generator:
//	          nxd_recs = records of ReadMultiTrees(nxdoc, nexus)
//	first   : for newick (src), nexus, phyloxml, nextstrain: ((fmt f) (first REC) (head REC|()))
//	          = utils.ReadTreeReader against the first record of utils.ReadMultiTrees
//	REC     : ((id n) (err msg)) | ((id n) (err "") (nwk text) (tree T) (audit (...)))
func c13(c *Sexp) *Sexp {
	log.SetOutput(io.Discard)
	done := make(chan *Sexp, 1)
	go func() {
		defer func() {
			if r := recover(); r != nil {
				done <- L(KV("panic", A(fmt.Sprintf("%v", r))))
			}
		}()
		done <- c13run(c)
	}()
	select {
	case o := <-done:
		return o
	case <-time.After(20 * time.Second):
		return L(KV("panic", A("hang: no result after 20s")))
	}
}

func c13rec(t tree.Trees) *Sexp {
	if t.Err != nil {
		return L(KV("id", I(t.Id)), KV("err", A(errStr(t.Err))))
	}
	if t.Tree == nil {
		return L(KV("id", I(t.Id)), KV("err", A("nil tree without an error")))
	}
	d, audit := ObserveTree(t.Tree)
	return L(KV("id", I(t.Id)), KV("err", A("")), KV("nwk", A(t.Tree.Newick())), KV("tree", d), KV("audit", audit))
}

func c13multi(text string, format int) *Sexp {
	l := L()
	for t := range utils.ReadMultiTrees(bufio.NewReader(strings.NewReader(text)), format) {
		l.List = append(l.List, c13rec(t))
	}
	return l
}

func c13first(name, text string, format int) *Sexp {
	t, err := utils.ReadTreeReader(bufio.NewReader(strings.NewReader(text)), format)
	first := c13rec(tree.Trees{Tree: t, Id: 0, Err: err})
	head := L()
	for r := range utils.ReadMultiTrees(bufio.NewReader(strings.NewReader(text)), format) {
		if len(head.List) == 0 {
			head = c13rec(r)
		}
	}
	return L(KV("fmt", A(name)), KV("first", first), KV("head", head))
}

func c13run(c *Sexp) *Sexp {
	tl := c.Get("trees")
	if tl == nil || !tl.IsList || len(tl.List) == 0 {
		return L(KV("bad", A("no trees")))
	}
	seps := c.StrList("seps")
	if len(seps) != len(tl.List) {
		return L(KV("bad", A("seps")))
	}
	var trees []*tree.Tree
	var texts []string
	for _, s := range tl.List {
		t, err := BuildTree(s)
		if err != nil {
			return L(KV("bad", A("build: "+err.Error())))
		}
		trees = append(trees, t)
		texts = append(texts, t.Newick())
	}
	var lines, src strings.Builder
	breakat := c.IntList("breakat") // increasing indices of the commas (counted over the whole file) followed by a line break
	comma := 0
	delim := 0
	for i, x := range texts {
		lines.WriteString(x)
		lines.WriteString("\n")
		if e := c.Str("brk_before"); e != "" {
			// a line break (LF or CRLF) BEFORE every n-th ',' ')' ':' of the file, i.e. right after a label or a number
			n := c.Int("brk_every")
			if n < 1 {
				n = 1
			}
			var b strings.Builder
			for j := 0; j < len(x); j++ {
				if x[j] == ',' || x[j] == ')' || x[j] == ':' {
					if delim%n == 0 {
						b.WriteString(e)
					}
					delim++
				}
				b.WriteByte(x[j])
			}
			x = b.String()
		} else if c.Bool("breaks") {
			x = strings.ReplaceAll(x, ",", ",\n")
		} else if len(breakat) > 0 {
			var b strings.Builder
			for j := 0; j < len(x); j++ {
				b.WriteByte(x[j])
				if x[j] == ',' {
					if len(breakat) > 0 && breakat[0] == comma {
						b.WriteByte('\n')
						breakat = breakat[1:]
					}
					comma++
				}
			}
			x = b.String()
		}
		src.WriteString(x)
		src.WriteString(seps[i])
	}
	obs := L(KV("texts", Strs(texts)), KV("src", A(src.String())))
	add := func(k string, v *Sexp) { obs.List = append(obs.List, KV(k, v)) }
	add("multi", c13multi(src.String(), utils.FORMAT_NEWICK))

	// gotree reformat nexus [--translate]
	nex, err := nexus.WriteNexus(utils.ReadMultiTrees(bufio.NewReader(strings.NewReader(lines.String())), utils.FORMAT_NEWICK), c.Bool("translate"))
	add("nexus", A(nex))
	add("nexus_err", A(errStr(err)))
	if err == nil {
		add("nexus_recs", c13multi(nex, utils.FORMAT_NEXUS))
	} else {
		add("nexus_recs", L())
	}
	// gotree reformat phyloxml
	px, err := phyloxml.WritePhyloXML(utils.ReadMultiTrees(bufio.NewReader(strings.NewReader(lines.String())), utils.FORMAT_NEWICK))
	add("px", A(px))
	add("px_err", A(errStr(err)))
	if err == nil {
		add("px_recs", c13multi(px, utils.FORMAT_PHYLOXML))
	} else {
		add("px_recs", L())
	}
	// the same writers fed with the trees as built through the API (parent at any position in
	// a node's neighbour list, as after a reroot), not with re-parsed trees: ids 0,1,...
	feed := func(zero bool) <-chan tree.Trees {
		ch := make(chan tree.Trees, len(trees))
		for i, t := range trees {
			id := i
			if zero {
				id = 0 // a tree.Trees value whose Id was never set
			}
			ch <- tree.Trees{Tree: t, Id: id}
		}
		close(ch)
		return ch
	}
	chain := func(name string, text string, err error, format int) {
		add(name, A(text))
		add(name+"_err", A(errStr(err)))
		if err == nil {
			add(name+"_recs", c13multi(text, format))
		} else {
			add(name+"_recs", L())
		}
	}
	pxb, err := phyloxml.WritePhyloXML(feed(false))
	chain("px_b", pxb, err, utils.FORMAT_PHYLOXML)
	nexb, err := nexus.WriteNexus(feed(false), c.Bool("translate"))
	chain("nexus_b", nexb, err, utils.FORMAT_NEXUS)
	nexz, err := nexus.WriteNexus(feed(true), c.Bool("translate"))
	chain("nexus_z", nexz, err, utils.FORMAT_NEXUS)

	// chains that start from a PhyloXML document (gotree reformat phyloxml|newick|nexus -f phyloxml)
	var pxdoc string
	hasDoc := false
	if v := c.Get("pxdoc"); v != nil && !v.IsList {
		pxdoc, hasDoc = v.Atom, true
		rd := func() <-chan tree.Trees {
			return utils.ReadMultiTrees(bufio.NewReader(strings.NewReader(pxdoc)), utils.FORMAT_PHYLOXML)
		}
		add("pxd_recs", c13multi(pxdoc, utils.FORMAT_PHYLOXML))
		pp, err := phyloxml.WritePhyloXML(rd())
		chain("pxd_px", pp, err, utils.FORMAT_PHYLOXML)
		var nl strings.Builder
		for r := range rd() {
			if r.Err == nil && r.Tree != nil {
				nl.WriteString(r.Tree.Newick())
				nl.WriteString("\n")
			}
		}
		add("pxd_nwk", A(nl.String()))
		add("pxd_nwk_recs", c13multi(nl.String(), utils.FORMAT_NEWICK))
		pn, err := nexus.WriteNexus(rd(), c.Bool("translate"))
		chain("pxd_nexus", pn, err, utils.FORMAT_NEXUS)
	}

	// Tree.Nexus()
	tn := trees[0].Nexus()
	add("tnexus", A(tn))
	add("tnexus_recs", c13multi(tn, utils.FORMAT_NEXUS))

	// single-tree accessor against the iterator
	first := L(c13first("newick", src.String(), utils.FORMAT_NEWICK),
		c13first("nexus", nex, utils.FORMAT_NEXUS),
		c13first("phyloxml", px, utils.FORMAT_PHYLOXML))
	if v := c.Get("nsjson"); v != nil && !v.IsList {
		first.List = append(first.List, c13first("nextstrain", v.Atom, utils.FORMAT_NEXTSTRAIN))
	}
	if hasDoc {
		first.List = append(first.List, c13first("phyloxml document", pxdoc, utils.FORMAT_PHYLOXML))
	}
	if v := c.Get("nxdoc"); v != nil && !v.IsList {
		add("nxd_recs", c13multi(v.Atom, utils.FORMAT_NEXUS))
		first.List = append(first.List, c13first("nexus file with several TREES blocks", v.Atom, utils.FORMAT_NEXUS))
	}
	add("first", first)
	return obs
}
