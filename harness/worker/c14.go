package main

import (
	"github.com/evolbioinfo/gotree/tree"
)

func init() { register("C14", c14) }

func c14metric(s string) int {
	// as cmd/matrix.go maps --metric
	switch s {
	case "boot":
		return tree.DISTANCE_METRIC_BOOTS
	case "none":
		return tree.DISTANCE_METRIC_NONE
	default:
		return tree.DISTANCE_METRIC_BRLEN
	}
}

func c14matrix(mat [][]float64, tips []*tree.Node) (*Sexp, *Sexp) {
	names := L()
	for _, t := range tips {
		names.List = append(names.List, A(t.Name()))
	}
	m := L()
	for i := range tips {
		row := L()
		for j := range tips {
			row.List = append(row.List, F(mat[i][j]))
		}
		m.List = append(m.List, row)
	}
	return names, m
}

// cases:
//
//	((op matrix) (metric brlen|boot|none) (tree T))   obs ((names (...)) (matrix ((q ...) ...)))
//	((op avg) (metric m) (trees (T ...)))             obs ((err msg) (names (...)) (matrix (...)))
//	((op cut) (maxlen q) (tree T))                    obs ((err msg) (bags (("a" ...) ...)))
//
// The library is called the way cmd/matrix.go and cmd/brlencut.go call it (trees as the
// parser leaves them: no index is computed); the rows and
// columns are read over the returned tips and the bags through TipBag.Tips(), as the
// commands print them.
func c14(c *Sexp) *Sexp {
	switch c.Str("op") {
	case "matrix":
		t, err := BuildTree(c.Get("tree"))
		if err != nil {
			return L(KV("panic", A("build: "+err.Error())))
		}
		mat, tips := t.ToDistanceMatrix(c14metric(c.Str("metric")))
		names, m := c14matrix(mat, tips)
		return L(KV("names", names), KV("matrix", m))
	case "avg":
		tl := c.Get("trees")
		if tl == nil || !tl.IsList {
			return L(KV("panic", A("no trees")))
		}
		trees := make([]*tree.Tree, 0, len(tl.List))
		for _, s := range tl.List {
			t, err := BuildTree(s)
			if err != nil {
				return L(KV("panic", A("build: "+err.Error())))
			}
			trees = append(trees, t)
		}
		// as utils.ReadMultiTrees: a producer goroutine and a channel closed at the end
		ch := make(chan tree.Trees, len(trees)+1)
		for i, t := range trees {
			ch <- tree.Trees{Tree: t, Id: i, Err: nil}
		}
		close(ch)
		mat, tips, err := tree.AvgDistanceMatrix(c14metric(c.Str("metric")), ch)
		if err != nil {
			return L(KV("err", A(errStr(err))))
		}
		names, m := c14matrix(mat, tips)
		return L(KV("err", A("")), KV("names", names), KV("matrix", m))
	case "cut":
		t, err := BuildTree(c.Get("tree"))
		if err != nil {
			return L(KV("panic", A("build: "+err.Error())))
		}
		bags, cerr := t.CutEdgesMaxLength(c.Float("maxlen"))
		bl := L()
		for _, b := range bags {
			g := L()
			for _, tip := range b.Tips() {
				g.List = append(g.List, A(tip.Name()))
			}
			bl.List = append(bl.List, g)
		}
		return L(KV("err", A(errStr(cerr))), KV("bags", bl))
	}
	return L(KV("panic", A("unknown op")))
}
