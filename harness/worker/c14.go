package main

import (
	"math/rand"

	"github.com/evolbioinfo/gotree/tree"
)

func init() { register("C14", c14) }

func c14metric(s string) int {
	// as cmd/matrix.go maps --metric
	switch s {
	case "boot":
		return tree.DISTANCE_METRIC_BOOTS
	case "none":
		return tree.DISTANCE_METRIC_NONE
	default:
		return tree.DISTANCE_METRIC_BRLEN
	}
}

func c14matrix(mat [][]float64, tips []*tree.Node) (*Sexp, *Sexp) {
	names := L()
	for _, t := range tips {
		names.List = append(names.List, A(t.Name()))
	}
	m := L()
	for i := range tips {
		row := L()
		for j := range tips {
			row.List = append(row.List, F(mat[i][j]))
		}
		m.List = append(m.List, row)
	}
	return names, m
}

// c14pre puts the tree in a "used" state before the call under test: the steps of the case are
// applied in order and nothing is re-indexed afterwards.
//
//	reinit     ReinitIndexes()
//	matrix     a first ToDistanceMatrix (brlen)
//	matrixnone a first ToDistanceMatrix (none)
//	swap       Node.SetName: the names of the first and last tips of Tips() are exchanged
//	renamehi   Node.SetName: the first tip gets a name that sorts after all others
//	renamelo   Node.SetName: the last tip gets a name that sorts before all others
//	reroot     Reroot on the last inner node of Nodes()
//	rotate     RotateInternalNodes (seeded)
//
// It returns the dump of the tree as it is then: the model and the oracle judge the call on it.
func c14pre(t *tree.Tree, c *Sexp) (*Sexp, *Sexp) {
	for _, st := range c.StrList("pre") {
		switch st {
		case "reinit":
			t.ReinitIndexes()
		case "matrix":
			t.ToDistanceMatrix(tree.DISTANCE_METRIC_BRLEN)
		case "matrixnone":
			t.ToDistanceMatrix(tree.DISTANCE_METRIC_NONE)
		case "swap":
			tips := t.Tips()
			if len(tips) >= 2 {
				a, b := tips[0], tips[len(tips)-1]
				na, nb := a.Name(), b.Name()
				a.SetName(nb)
				b.SetName(na)
			}
		case "renamehi":
			tips := t.Tips()
			if len(tips) >= 1 {
				tips[0].SetName("zz_" + tips[0].Name())
			}
		case "renamelo":
			tips := t.Tips()
			if len(tips) >= 1 {
				tips[len(tips)-1].SetName("A_" + tips[len(tips)-1].Name())
			}
		case "reroot":
			var target *tree.Node
			for _, n := range t.Nodes() {
				if n != t.Root() && n.Nneigh() >= 2 {
					target = n
				}
			}
			if target != nil {
				t.Reroot(target)
			}
		case "rotate":
			rand.Seed(int64(c.Int("seed")) + 1)
			t.RotateInternalNodes()
		}
	}
	return ObserveTree(t)
}

// cases:
//
//	((op matrix) (metric brlen|boot|none) (tree T))   obs ((names (...)) (matrix ((q ...) ...)))
//	((op avg) (metric m) (trees (T ...)))             obs ((err msg) (names (...)) (matrix (...)))
//	((op cut) (maxlen q) (tree T))                    obs ((err msg) (bags (("a" ...) ...)))
//
// The library is called the way cmd/matrix.go and cmd/brlencut.go call it (trees as the
// parser leaves them: no index is computed); the rows and
// columns are read over the returned tips and the bags through TipBag.Tips(), as the
// commands print them.
func c14(c *Sexp) *Sexp {
	switch c.Str("op") {
	case "matrix":
		t, err := BuildTree(c.Get("tree"))
		if err != nil {
			return L(KV("panic", A("build: "+err.Error())))
		}
		used, audit := c14pre(t, c)
		mat, tips := t.ToDistanceMatrix(c14metric(c.Str("metric")))
		names, m := c14matrix(mat, tips)
		return L(KV("used", used), KV("audit", audit), KV("names", names), KV("matrix", m))
	case "avg":
		tl := c.Get("trees")
		if tl == nil || !tl.IsList {
			return L(KV("panic", A("no trees")))
		}
		trees := make([]*tree.Tree, 0, len(tl.List))
		usedl := L()
		audits := L()
		for _, s := range tl.List {
			t, err := BuildTree(s)
			if err != nil {
				return L(KV("panic", A("build: "+err.Error())))
			}
			d, a := c14pre(t, c)
			usedl.List = append(usedl.List, d)
			audits.List = append(audits.List, a.List...)
			trees = append(trees, t)
		}
		// as utils.ReadMultiTrees: a producer goroutine and a channel closed at the end
		ch := make(chan tree.Trees, len(trees)+1)
		// the Id field of the records follows the policy of the case (a reader numbers 0,1,2,...; a
		// filter or a caller of the library may send anything): the average must not depend on it
		ids := c.IntList("ids")
		for i, t := range trees {
			id := i
			if i < len(ids) {
				id = ids[i]
			}
			ch <- tree.Trees{Tree: t, Id: id, Err: nil}
		}
		close(ch)
		mat, tips, err := tree.AvgDistanceMatrix(c14metric(c.Str("metric")), ch)
		if err != nil {
			return L(KV("used", usedl), KV("audit", audits), KV("err", A(errStr(err))))
		}
		names, m := c14matrix(mat, tips)
		return L(KV("used", usedl), KV("audit", audits), KV("err", A("")), KV("names", names), KV("matrix", m))
	case "cut":
		t, err := BuildTree(c.Get("tree"))
		if err != nil {
			return L(KV("panic", A("build: "+err.Error())))
		}
		used, audit := c14pre(t, c)
		bags, cerr := t.CutEdgesMaxLength(c.Float("maxlen"))
		bl := L()
		for _, b := range bags {
			g := L()
			for _, tip := range b.Tips() {
				g.List = append(g.List, A(tip.Name()))
			}
			bl.List = append(bl.List, g)
		}
		return L(KV("used", used), KV("audit", audit), KV("err", A(errStr(cerr))), KV("bags", bl))
	}
	return L(KV("panic", A("unknown op")))
}
