package main

import (
	"fmt"
	"os"
	"time"

	"github.com/evolbioinfo/gotree/support"
	"github.com/evolbioinfo/gotree/tree"
)

func init() { register("C10", c10) }

// c10Timeout bounds one support.FBP / support.TBE call: on some error paths the library
// never closes its result channel and the caller would block forever.
const c10Timeout = 4 * time.Second

// case:  ((mode nil|fresh|chain) (ref T) (boots (T ...)) [(alg1 fbp|tbe) (alg2 fbp|tbe) (ref2 T) (boots2 (T ...))])
//
//	mode nil (or absent): FBP and TBE, each on fresh copies of (ref, boots), Supporter = nil
//	                      (what the commands pass);            obs ((fbp RUN) (tbe RUN))
//	mode fresh:           the same with a fresh support.NewSupporter() per call;
//	                                                            obs ((fbp RUN) (tbe RUN))
//	mode chain:           alg1 on (ref, boots) then alg2 on (ref2, boots2) with ONE Supporter
//	                      value shared by both calls (state carried between computations);
//	                                                            obs ((first RUN) (second RUN))
//
// RUN = ((hang T)) | ((hang F) (panic "msg")) | ((hang F) (err "msg") (sup ((T|F q) ...)) [(progress n)])
// progress = sup.Progress() after the call (cumulative for a shared Supporter).
//
// The library is called the way `gotree compute support fbp|tbe` calls it: the bootstrap trees
// arrive through a buffered channel of tree.Trees that is closed at the end; cpus = 1; for TBE
// the reference indexes are initialised by the caller and the options are the defaults of the
// command (no raw tree, no moved-taxa log, cutoff 0.3).
func c10(c *Sexp) *Sexp {
	obs := L()
	switch c.Str("mode") {
	case "chain":
		sup := support.NewSupporter()
		obs.List = append(obs.List, KV("first", c10run(c.Str("alg1"), c.Get("ref"), c.Get("boots"), sup)))
		obs.List = append(obs.List, KV("second", c10run(c.Str("alg2"), c.Get("ref2"), c.Get("boots2"), sup)))
	case "fresh":
		for _, alg := range []string{"fbp", "tbe"} {
			obs.List = append(obs.List, KV(alg, c10run(alg, c.Get("ref"), c.Get("boots"), support.NewSupporter())))
		}
	default:
		for _, alg := range []string{"fbp", "tbe"} {
			obs.List = append(obs.List, KV(alg, c10run(alg, c.Get("ref"), c.Get("boots"), nil)))
		}
	}
	return obs
}

func c10run(alg string, refS, bl *Sexp, sup *support.Supporter) *Sexp {
	ref, err := BuildTree(refS)
	if err != nil {
		return L(KV("panic", A("build ref: "+err.Error())))
	}
	// the Newick parser numbers the branches in creation order (= Edges() order of a parsed tree);
	// TBE indexes per-branch arrays with these ids, so a tree that did not come out of the parser
	// must be numbered the same way (ids are NIL_ID = -1 otherwise and TBE panics).
	for i, e := range ref.Edges() {
		e.SetId(i)
	}
	if bl == nil || !bl.IsList {
		return L(KV("panic", A("no boots")))
	}
	boots := make([]*tree.Tree, 0, len(bl.List))
	for _, b := range bl.List {
		bt, err := BuildTree(b)
		if err != nil {
			return L(KV("panic", A("build boot: "+err.Error())))
		}
		for i, e := range bt.Edges() {
			e.SetId(i)
		}
		boots = append(boots, bt)
	}
	// as utils.ReadMultiTrees: a producer goroutine, a channel of capacity 10, closed at the end
	ch := make(chan tree.Trees, 10)
	go func() {
		for i, b := range boots {
			ch <- tree.Trees{Tree: b, Id: i, Err: nil}
		}
		close(ch)
	}()

	type result struct {
		err   error
		panic string
	}
	done := make(chan result, 1)
	go func() {
		var r result
		defer func() {
			if p := recover(); p != nil {
				r.panic = fmt.Sprintf("%v", p)
			}
			done <- r
		}()
		switch alg {
		case "fbp":
			r.err = support.FBP(ref, ch, 1, sup)
		case "tbe":
			// cmd/booster.go
			if r.err = ref.ReinitIndexes(); r.err != nil {
				return
			}
			_, r.err = support.TBE(ref, ch, 1, false, false, false, 0.3, os.Stderr, sup)
		default:
			panic("unknown algorithm " + alg)
		}
	}()
	select {
	case r := <-done:
		if r.panic != "" {
			return L(KV("hang", B(false)), KV("panic", A(r.panic)))
		}
		supports := L()
		for _, e := range ref.Edges() {
			supports.List = append(supports.List, L(B(e.Right().Tip()), F(e.Support())))
		}
		o := L(KV("hang", B(false)), KV("err", A(errStr(r.err))), KV("sup", supports))
		if sup != nil {
			o.List = append(o.List, KV("progress", I(sup.Progress())))
		}
		return o
	case <-time.After(c10Timeout):
		// the goroutines stay blocked; the reference tree is not read (it may still be written)
		return L(KV("hang", B(true)))
	}
}
