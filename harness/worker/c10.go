package main

import (
	"fmt"
	"os"
	"strings"
	"time"

	"github.com/evolbioinfo/gotree/io/newick"
	"github.com/evolbioinfo/gotree/support"
	"github.com/evolbioinfo/gotree/tree"
)

func init() { register("C10", c10) }

// c10Timeout bounds one support.FBP / support.TBE call: on some error paths the library
// never closes its result channel and the caller would block forever.
const c10Timeout = 4 * time.Second

// case:  ((mode nil|fresh|chain) (cpus n) (ref T) (boots (B ...)) [(alg1 fbp|tbe) (alg2 fbp|tbe) (ref2 T) (boots2 (B ...))])
//
//	B = T | (repeat k T): k consecutive copies of the bootstrap tree T (each copy is built as its own tree)
//	cpus: the thread count given to FBP / TBE (default 1)
//	ids:  how the feeder numbers the trees (Trees.Id), see c10idPolicy
//
//	mode nil (or absent): FBP and TBE, each on fresh copies of (ref, boots), Supporter = nil
//	                      (what the commands pass);            obs ((fbp RUN) (tbe RUN))
//	mode fresh:           the same with a fresh support.NewSupporter() per call;
//	                                                            obs ((fbp RUN) (tbe RUN))
//	mode chain:           alg1 on (ref, boots) then alg2 on (ref2, boots2) with ONE Supporter
//	                      value shared by both calls (state carried between computations);
//	                                                            obs ((first RUN) (second RUN))
//
// RUN = ((hang T)) | ((hang F) (panic "msg")) | ((hang F) (err "msg") (sup ((T|F q) ...)) [(progress n)])
// progress = sup.Progress() after the call (cumulative for a shared Supporter).
//
// The library is called the way `gotree compute support fbp|tbe` calls it: the bootstrap trees
// arrive through a buffered channel of tree.Trees that is closed at the end; for TBE
// the reference indexes are initialised by the caller and the options are the defaults of the
// command (no raw tree, no moved-taxa log, cutoff 0.3).
// c10idPolicy: the Trees.Id given to the i-th bootstrap tree of a call, from the id policy of the case:
// (ids seq) 0,1,2,... as ReadMultiTrees on one file (default); (ids zero) all 0 (a channel built
// through the API without setting Id); (ids (restart k)) 0..k-1,0..k-1,... (files concatenated);
// (ids (rand seed)) arbitrary small ids with duplicates; (ids dec) n-1,...,0.
func c10idPolicy(c *Sexp) func(i, n int) int {
	v := c.Get("ids")
	if v == nil {
		return func(i, n int) int { return i }
	}
	if !v.IsList {
		switch v.Atom {
		case "zero":
			return func(i, n int) int { return 0 }
		case "dec":
			return func(i, n int) int { return n - 1 - i }
		}
		return func(i, n int) int { return i }
	}
	if len(v.List) == 2 {
		k := 1
		fmt.Sscanf(v.List[1].Atom, "%d", &k)
		if k < 1 {
			k = 1
		}
		switch v.List[0].Atom {
		case "restart":
			return func(i, n int) int { return i % k }
		case "rand":
			return func(i, n int) int {
				x := uint64(i+1)*6364136223846793005 + uint64(k)*1442695040888963407
				x ^= x >> 29
				return int(x % 5)
			}
		}
	}
	return func(i, n int) int { return i }
}

func c10(c *Sexp) *Sexp {
	obs := L()
	ids := c10idPolicy(c)
	cpus := 1
	if c.Get("cpus") != nil {
		cpus = c.Int("cpus")
	}
	if cpus < 1 {
		cpus = 1
	}
	switch c.Str("mode") {
	case "family":
		return c10family(c.Int("m"), c.Int("g"))
	case "chain":
		sup := support.NewSupporter()
		obs.List = append(obs.List, KV("first", c10run(c.Str("alg1"), c.Get("ref"), c.Get("boots"), sup, cpus, ids)))
		obs.List = append(obs.List, KV("second", c10run(c.Str("alg2"), c.Get("ref2"), c.Get("boots2"), sup, cpus, ids)))
	case "fresh":
		for _, alg := range []string{"fbp", "tbe"} {
			obs.List = append(obs.List, KV(alg, c10run(alg, c.Get("ref"), c.Get("boots"), support.NewSupporter(), cpus, ids)))
		}
	default:
		for _, alg := range []string{"fbp", "tbe"} {
			obs.List = append(obs.List, KV(alg, c10run(alg, c.Get("ref"), c.Get("boots"), nil, cpus, ids)))
		}
	}
	return obs
}

func c10run(alg string, refS, bl *Sexp, sup *support.Supporter, cpus int, ids func(i, n int) int) *Sexp {
	ref, err := BuildTree(refS)
	if err != nil {
		return L(KV("panic", A("build ref: "+err.Error())))
	}
	// the Newick parser numbers the branches in creation order (= Edges() order of a parsed tree);
	// TBE indexes per-branch arrays with these ids, so a tree that did not come out of the parser
	// must be numbered the same way (ids are NIL_ID = -1 otherwise and TBE panics).
	for i, e := range ref.Edges() {
		e.SetId(i)
	}
	if bl == nil || !bl.IsList {
		return L(KV("panic", A("no boots")))
	}
	// the collection: every tree is built (and checked) before the call; copies are separate trees
	boots := make([]*tree.Tree, 0, len(bl.List))
	for _, b := range bl.List {
		k := 1
		ts := b
		if b.IsList && len(b.List) == 3 && !b.List[0].IsList && b.List[0].Atom == "repeat" {
			fmt.Sscanf(b.List[1].Atom, "%d", &k)
			ts = b.List[2]
		}
		for j := 0; j < k; j++ {
			bt, err := BuildTree(ts)
			if err != nil {
				return L(KV("panic", A("build boot: "+err.Error())))
			}
			for i, e := range bt.Edges() {
				e.SetId(i)
			}
			boots = append(boots, bt)
		}
	}
	// as utils.ReadMultiTrees: a producer goroutine, a channel of capacity 10, closed at the end
	ch := make(chan tree.Trees, 10)
	go func() {
		for i, b := range boots {
			ch <- tree.Trees{Tree: b, Id: ids(i, len(boots)), Err: nil}
		}
		close(ch)
	}()

	type result struct {
		err   error
		panic string
	}
	done := make(chan result, 1)
	go func() {
		var r result
		defer func() {
			if p := recover(); p != nil {
				r.panic = fmt.Sprintf("%v", p)
			}
			done <- r
		}()
		switch alg {
		case "fbp":
			r.err = support.FBP(ref, ch, cpus, sup)
		case "tbe":
			// cmd/booster.go
			if r.err = ref.ReinitIndexes(); r.err != nil {
				return
			}
			_, r.err = support.TBE(ref, ch, cpus, false, false, false, 0.3, os.Stderr, sup)
		default:
			panic("unknown algorithm " + alg)
		}
	}()
	select {
	case r := <-done:
		if r.panic != "" {
			return L(KV("hang", B(false)), KV("panic", A(r.panic)))
		}
		supports := L()
		for _, e := range ref.Edges() {
			supports.List = append(supports.List, L(B(e.Right().Tip()), F(e.Support())))
		}
		o := L(KV("hang", B(false)), KV("err", A(errStr(r.err))), KV("sup", supports))
		if sup != nil {
			o.List = append(o.List, KV("progress", I(sup.Progress())))
		}
		return o
	case <-time.After(c10Timeout):
		// the goroutines stay blocked; the reference tree is not read (it may still be written)
		return L(KV("hang", B(true)))
	}
}

// c10family: transfer distances on a pair of trees too large for the extracted judge to rebuild.
//
//	reference  (((a,b),(c,d)),(e,f),H)      bootstrap  ((H,(c,e)),(a,f),(b,d))
//
// H is the same clade on m taxa h00000.. in both trees (groups of g tips under its root).  For the
// first eleven branches of the reference in Edges() order (the ten branches outside H and the
// branch above H) the observation gives TopoDepth and support.MinTransferDist(e, ref, boot, ntips,
// boot.Edges(), absent) for absent = false and true: the computation TBE makes per reference
// branch and bootstrap tree.  (TBE itself is not called: indexing the ~m branches of the
// bootstrap tree in the edge hash map takes minutes for m > 65536.)  The trees come from the
// Newick parser; the bootstrap tree gets its tip index and subtree sizes (UpdateTipIndex,
// ComputeEdgeHashes: all that MinTransferDist reads from it) but no bitsets, to halve the memory.
//
// obs: ((ntips n) (dist ((p dfalse dtrue) ...)))
func c10family(m, g int) *Sexp {
	if m < 1 || m > 70000 || g < 2 {
		return L(KV("panic", A("family: parameters out of range")))
	}
	var sb strings.Builder
	sb.WriteString("(")
	for i := 0; i < m; i += g {
		j := i + g
		if j > m {
			j = m
		}
		if i > 0 {
			sb.WriteString(",")
		}
		if j-i > 1 {
			sb.WriteString("(")
		}
		for k := i; k < j; k++ {
			if k > i {
				sb.WriteString(",")
			}
			fmt.Fprintf(&sb, "h%05d", k)
		}
		if j-i > 1 {
			sb.WriteString(")")
		}
	}
	sb.WriteString(")")
	h := sb.String()
	ref, err := newick.NewParser(strings.NewReader("(((a,b),(c,d)),(e,f)," + h + ");")).Parse()
	if err != nil {
		return L(KV("panic", A("family: "+err.Error())))
	}
	boot, err := newick.NewParser(strings.NewReader("((" + h + ",(c,e)),(a,f),(b,d));")).Parse()
	if err != nil {
		return L(KV("panic", A("family: "+err.Error())))
	}
	if err := ref.ReinitIndexes(); err != nil {
		return L(KV("panic", A("family: "+err.Error())))
	}
	if err := boot.UpdateTipIndex(); err != nil {
		return L(KV("panic", A("family: "+err.Error())))
	}
	boot.ComputeEdgeHashes(nil, nil, nil)
	if err := ref.CompareTipIndexes(boot); err != nil {
		return L(KV("panic", A("family: "+err.Error())))
	}
	ntips := len(ref.Tips())
	bootedges := boot.Edges()
	dist := L()
	for i, e := range ref.Edges() {
		if i >= 11 {
			break
		}
		p, _ := e.TopoDepth()
		d0, _, _, _ := support.MinTransferDist(e, ref, boot, ntips, bootedges, false)
		d1, _, _, _ := support.MinTransferDist(e, ref, boot, ntips, bootedges, true)
		dist.List = append(dist.List, L(I(p), I(d0), I(d1)))
	}
	return L(KV("ntips", I(ntips)), KV("dist", dist))
}
