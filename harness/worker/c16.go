package main

import (
	"fmt"
	"math/rand"
	"sort"
	"strings"
	"sync"

	"github.com/evolbioinfo/gotree/io/newick"

	"github.com/evolbioinfo/gotree/tree"
	"github.com/fredericlemoine/gostats"
)

func init() { register("C16", c16) }

// c16Tables records, for the seed of the case, the first k raw Int63 values of the global
// source, and for every stream position p the value rand.Float64() and gostats.Exp(1.0/0.1)
// return when they START at position p (the source is re-seeded and advanced by p values for
// every entry, so the tables stay aligned with the stream even if a Float64 call retries
// because float64(x)/2^63 rounds to 1, x >= 2^63-512).
func c16Tables(seed int64, k int) (raw, ftab, exptab *Sexp, rawv []int64) {
	rand.Seed(seed)
	raw = L()
	for i := 0; i < k; i++ {
		x := rand.Int63()
		rawv = append(rawv, x)
		raw.List = append(raw.List, A(fmt.Sprintf("%d", x)))
	}
	ftab = L()
	exptab = L()
	lambda := 1.0 / 0.1
	// fast path: while no value of the stream can trigger a retry, a call started at p consumes
	// exactly the value at p, so the sequential pass IS the per-position table
	retry := false
	for _, x := range rawv {
		if x >= (1<<63)-512 {
			retry = true
		}
	}
	if !retry {
		rand.Seed(seed)
		for i := 0; i < k; i++ {
			ftab.List = append(ftab.List, F(rand.Float64()))
		}
		rand.Seed(seed)
		for i := 0; i < k; i++ {
			exptab.List = append(exptab.List, F(gostats.Exp(lambda)))
		}
	} else {
		for p := 0; p < k; p++ {
			rand.Seed(seed)
			for j := 0; j < p; j++ {
				rand.Int63()
			}
			ftab.List = append(ftab.List, F(rand.Float64()))
			rand.Seed(seed)
			for j := 0; j < p; j++ {
				rand.Int63()
			}
			exptab.List = append(exptab.List, F(gostats.Exp(lambda)))
		}
	}
	rand.Seed(seed)
	return
}

// fakeSource replays a given list of Int63 values: math/rand's own Intn / Float64 code is run
// on crafted streams (values that trigger the rejection loop of Int31n and the retry of Float64).
type fakeSource struct {
	vals []int64
	pos  int
}

func (f *fakeSource) Int63() int64 {
	if f.pos >= len(f.vals) {
		panic("fake source exhausted")
	}
	v := f.vals[f.pos]
	f.pos++
	return v
}
func (f *fakeSource) Seed(int64) {}

// c16RandLib: ((gen randlib) (rawin (x ...)) (plan (b ...)))  b = 0: Float64, b > 0: Intn(b)
func c16RandLib(c *Sexp) *Sexp {
	src := &fakeSource{}
	for _, a := range c.Get("rawin").List {
		var v int64
		fmt.Sscanf(a.Atom, "%d", &v)
		src.vals = append(src.vals, v)
	}
	r := rand.New(src)
	ints := []int{}
	floats := L()
	for _, b := range c.IntList("plan") {
		if b == 0 {
			floats.List = append(floats.List, F(r.Float64()))
		} else {
			ints = append(ints, r.Intn(b))
		}
	}
	return L(KV("ints", Ints(ints)), KV("floats", floats), KV("consumed", I(src.pos)))
}

// c16Consumed: number of raw values consumed since the last rand.Seed(seed), found by
// drawing one more value and locating it in the recorded stream (-1: not found).
func c16Consumed(rawv []int64) int {
	x := rand.Int63()
	for i, v := range rawv {
		if v == x {
			return i
		}
	}
	return -1
}

// c16SameAsText: the tree written as Newick and read back is indexed from scratch; every branch of the
// generated tree must be the same bipartition (Edge.SameBipartition: hash codes + bitsets) as one of its branches
func c16SameAsText(t *tree.Tree, obs *Sexp) {
	defer func() {
		if r := recover(); r != nil {
			obs.List = append(obs.List, KV("sametext", A(fmt.Sprintf("panic: %v", r))))
		}
	}()
	t2, err := newick.NewParser(strings.NewReader(t.Newick())).Parse()
	if err != nil {
		obs.List = append(obs.List, KV("sametext", A("unreadable: "+err.Error())))
		return
	}
	if err = t2.ReinitIndexes(); err != nil {
		obs.List = append(obs.List, KV("sametext", A("reindex: "+err.Error())))
		return
	}
	if err = t.CompareTipIndexes(t2); err != nil {
		obs.List = append(obs.List, KV("sametext", A("tip indexes differ: "+err.Error())))
		return
	}
	missing := 0
	e2s := t2.Edges()
	for _, e := range t.Edges() {
		found := false
		for _, e2 := range e2s {
			if e.SameBipartition(e2) {
				found = true
				break
			}
		}
		if !found {
			missing++
		}
	}
	obs.List = append(obs.List, KV("sametext", A(fmt.Sprintf("%d", missing))))
}

func c16Indexes(t *tree.Tree, obs *Sexp) {
	defer func() {
		if r := recover(); r != nil {
			obs.List = append(obs.List, KV("indexpanic", A(fmt.Sprintf("%v", r))))
		}
	}()
	names := t.VerifTipIndexNames()
	sort.Strings(names)
	tidx := L()
	for _, n := range t.Tips() {
		i, err := t.TipIndex(n.Name())
		if err != nil {
			i = -1
		}
		tidx.List = append(tidx.List, L(A(n.Name()), I(i)))
	}
	bits := L()
	lens := []int{}
	ntips := L()
	for _, e := range t.Edges() {
		ntips.List = append(ntips.List, L(I(e.NumTipsRight()), I(e.NumTipsLeft())))
		bs := e.Bitset()
		if bs == nil {
			bits.List = append(bits.List, L(B(false), L()))
			lens = append(lens, 0)
			continue
		}
		lens = append(lens, int(bs.Len()))
		set := []int{}
		for i := uint(0); i < bs.Len(); i++ {
			if bs.Test(i) {
				set = append(set, int(i))
			}
		}
		bits.List = append(bits.List, L(B(true), Ints(set)))
	}
	obs.List = append(obs.List, KV("tipindex", Strs(names)), KV("tipidx", tidx), KV("bits", bits), KV("bitlens", Ints(lens)), KV("ntips", ntips))
	// Node.Depth() (distance to the closest tip) and the root depth of every node, Nodes() order
	depths := L()
	for _, nd := range t.Nodes() {
		depths.List = append(depths.List, L(I(nd.VerifDepth()), I(nd.VerifRootDepth())))
	}
	obs.List = append(obs.List, KV("depths", depths))
}

// c16Concurrent: k goroutines generate trees at the same time (each `per` trees of n tips).  The
// process-wide rand source is shared, so the exact trees are unpredictable: they are only judged
// on well-formedness, tips and names.  Panics are recovered per goroutine and reported.
func c16Concurrent(c *Sexp) *Sexp {
	which := c.Str("which")
	n := c.Int("n")
	rooted := c.Bool("rooted")
	k := c.Int("k")
	per := c.Int("per")
	type res struct {
		t     *tree.Tree
		err   error
		panic string
	}
	out := make([][]res, k)
	var wg sync.WaitGroup
	start := make(chan struct{})
	for g := 0; g < k; g++ {
		wg.Add(1)
		go func(g int) {
			defer wg.Done()
			<-start
			for j := 0; j < per; j++ {
				func() {
					r := res{}
					defer func() {
						if x := recover(); x != nil {
							r.panic = fmt.Sprintf("%v", x)
							if r.panic == "" {
								r.panic = "panic"
							}
						}
						out[g] = append(out[g], r)
					}()
					switch which {
					case "uniform":
						r.t, r.err = tree.RandomUniformBinaryTree(n, rooted)
					case "yule":
						r.t, r.err = tree.RandomYuleBinaryTree(n, rooted)
					case "caterpillar":
						r.t, r.err = tree.RandomCaterpillarBinaryTree(n, rooted)
					case "balanced":
						r.t, r.err = tree.RandomBalancedBinaryTree(n, rooted)
					case "star":
						r.t, r.err = tree.StarTree(n)
					case "topologies":
						var ts []*tree.Tree
						ts, r.err = tree.AllTopologies(n, rooted)
						if len(ts) > 0 {
							r.t = ts[len(ts)-1]
						}
					}
				}()
			}
		}(g)
	}
	close(start)
	wg.Wait()
	trees := L()
	panics := []string{}
	errs := []string{}
	problems := []string{}
	for g := 0; g < k; g++ {
		for _, r := range out[g] {
			if r.panic != "" {
				panics = append(panics, r.panic)
				continue
			}
			if r.err != nil || r.t == nil {
				errs = append(errs, errStr(r.err))
				continue
			}
			func() {
				defer func() {
					if x := recover(); x != nil {
						problems = append(problems, fmt.Sprintf("panic while dumping: %v", x))
					}
				}()
				d, audit := ObserveTree(r.t)
				trees.List = append(trees.List, d)
				for _, p := range audit.List {
					if len(problems) < 5 {
						problems = append(problems, p.Atom)
					}
				}
			}()
		}
	}
	return L(KV("trees", trees), KV("audits", Strs(problems)), KV("panics", Strs(panics)), KV("errs", Strs(errs)))
}

func c16(c *Sexp) *Sexp {
	gen := c.Str("gen")
	n := c.Int("n")
	rooted := c.Bool("rooted")
	obs := L()
	if gen == "randlib" {
		return c16RandLib(c)
	}
	if gen == "concurrent" {
		return c16Concurrent(c)
	}
	if gen == "topologies" {
		var trees []*tree.Tree
		var err error
		panicmsg := ""
		func() {
			defer func() {
				if r := recover(); r != nil {
					panicmsg = fmt.Sprintf("%v", r)
				}
			}()
			trees, err = tree.AllTopologies(n, rooted, c.StrList("names")...)
		}()
		obs.List = append(obs.List, KV("panic", A(panicmsg)), KV("err", A(errStr(err))))
		ts := L()
		problems := []string{}
		for _, t := range trees {
			d, audit := ObserveTree(t)
			ts.List = append(ts.List, d)
			for _, p := range audit.List {
				if len(problems) < 5 {
					problems = append(problems, p.Atom)
				}
			}
		}
		obs.List = append(obs.List, KV("trees", ts), KV("audits", Strs(problems)))
		return obs
	}
	raw, ftab, exptab, rawv := c16Tables(int64(c.Int("seed")), c.Int("nraw"))
	obs.List = append(obs.List, KV("raw", raw), KV("ftab", ftab), KV("exptab", exptab))
	var t *tree.Tree
	var err error
	panicmsg := ""
	func() {
		defer func() {
			if r := recover(); r != nil {
				panicmsg = fmt.Sprintf("%v", r)
				if panicmsg == "" {
					panicmsg = "panic"
				}
			}
		}()
		switch gen {
		case "uniform":
			t, err = tree.RandomUniformBinaryTree(n, rooted)
		case "yule":
			t, err = tree.RandomYuleBinaryTree(n, rooted)
		case "caterpillar":
			t, err = tree.RandomCaterpillarBinaryTree(n, rooted)
		case "balanced":
			t, err = tree.RandomBalancedBinaryTree(n, rooted)
		case "star":
			t, err = tree.StarTree(n)
		case "starnames":
			t, err = tree.StarTreeFromName(c.StrList("names")...)
		case "starfromtree":
			var src *tree.Tree
			src, err = BuildTree(c.Get("tree"))
			if err == nil {
				t, err = tree.StarTreeFromTree(src)
			}
		case "bipartition":
			t, err = tree.BipartitionTree(c.StrList("lefts"), c.StrList("rights"))
		case "edgetree":
			var src *tree.Tree
			src, err = BuildTree(c.Get("tree"))
			if err == nil {
				if err = src.ReinitIndexes(); err == nil {
					t = tree.EdgeTree(src, src.Edges()[c.Int("k")], nil)
				}
			}
		default:
			panicmsg = "unknown generator"
		}
	}()
	consumed := -1
	if panicmsg == "" {
		consumed = c16Consumed(rawv)
	}
	obs.List = append(obs.List, KV("consumed", I(consumed)), KV("panic", A(panicmsg)), KV("err", A(errStr(err))))
	if panicmsg == "" && err == nil && t != nil {
		d, audit := ObserveTree(t)
		obs.List = append(obs.List, KV("hastree", B(true)), KV("tree", d), KV("audit", audit))
		c16Indexes(t, obs)
		c16SameAsText(t, obs)
	} else {
		obs.List = append(obs.List, KV("hastree", B(false)))
	}
	return obs
}
