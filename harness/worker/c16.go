package main

import (
	"fmt"
	"math/rand"
	"sort"

	"github.com/evolbioinfo/gotree/tree"
	"github.com/fredericlemoine/gostats"
)

func init() { register("C16", c16) }

// c16Tables records, for the seed of the case, the first k raw Int63 values of the global
// source, and for every stream position p the value rand.Float64() and gostats.Exp(1.0/0.1)
// return when they start at p (each consumes exactly one raw value unless float64(x)/2^63
// rounds to 1, x >= 2^63-512, which the judge's model would notice as a shifted position).
func c16Tables(seed int64, k int) (raw, ftab, exptab *Sexp, rawv []int64) {
	rand.Seed(seed)
	raw = L()
	for i := 0; i < k; i++ {
		x := rand.Int63()
		rawv = append(rawv, x)
		raw.List = append(raw.List, A(fmt.Sprintf("%d", x)))
	}
	rand.Seed(seed)
	ftab = L()
	for i := 0; i < k; i++ {
		ftab.List = append(ftab.List, F(rand.Float64()))
	}
	rand.Seed(seed)
	exptab = L()
	lambda := 1.0 / 0.1
	for i := 0; i < k; i++ {
		exptab.List = append(exptab.List, F(gostats.Exp(lambda)))
	}
	rand.Seed(seed)
	return
}

// c16Consumed: number of raw values consumed since the last rand.Seed(seed), found by
// drawing one more value and locating it in the recorded stream (-1: not found).
func c16Consumed(rawv []int64) int {
	x := rand.Int63()
	for i, v := range rawv {
		if v == x {
			return i
		}
	}
	return -1
}

func c16Indexes(t *tree.Tree, obs *Sexp) {
	defer func() {
		if r := recover(); r != nil {
			obs.List = append(obs.List, KV("indexpanic", A(fmt.Sprintf("%v", r))))
		}
	}()
	names := t.VerifTipIndexNames()
	sort.Strings(names)
	tidx := L()
	for _, n := range t.Tips() {
		i, err := t.TipIndex(n.Name())
		if err != nil {
			i = -1
		}
		tidx.List = append(tidx.List, L(A(n.Name()), I(i)))
	}
	bits := L()
	for _, e := range t.Edges() {
		bs := e.Bitset()
		if bs == nil {
			bits.List = append(bits.List, L(B(false), L()))
			continue
		}
		set := []int{}
		for i := uint(0); i < bs.Len(); i++ {
			if bs.Test(i) {
				set = append(set, int(i))
			}
		}
		bits.List = append(bits.List, L(B(true), Ints(set)))
	}
	obs.List = append(obs.List, KV("tipindex", Strs(names)), KV("tipidx", tidx), KV("bits", bits))
}

func c16(c *Sexp) *Sexp {
	gen := c.Str("gen")
	n := c.Int("n")
	rooted := c.Bool("rooted")
	obs := L()
	if gen == "topologies" {
		var trees []*tree.Tree
		var err error
		panicmsg := ""
		func() {
			defer func() {
				if r := recover(); r != nil {
					panicmsg = fmt.Sprintf("%v", r)
				}
			}()
			trees, err = tree.AllTopologies(n, rooted, c.StrList("names")...)
		}()
		obs.List = append(obs.List, KV("panic", A(panicmsg)), KV("err", A(errStr(err))))
		ts := L()
		problems := []string{}
		for _, t := range trees {
			d, audit := ObserveTree(t)
			ts.List = append(ts.List, d)
			for _, p := range audit.List {
				if len(problems) < 5 {
					problems = append(problems, p.Atom)
				}
			}
		}
		obs.List = append(obs.List, KV("trees", ts), KV("audits", Strs(problems)))
		return obs
	}
	raw, ftab, exptab, rawv := c16Tables(int64(c.Int("seed")), c.Int("nraw"))
	obs.List = append(obs.List, KV("raw", raw), KV("ftab", ftab), KV("exptab", exptab))
	var t *tree.Tree
	var err error
	panicmsg := ""
	func() {
		defer func() {
			if r := recover(); r != nil {
				panicmsg = fmt.Sprintf("%v", r)
				if panicmsg == "" {
					panicmsg = "panic"
				}
			}
		}()
		switch gen {
		case "uniform":
			t, err = tree.RandomUniformBinaryTree(n, rooted)
		case "yule":
			t, err = tree.RandomYuleBinaryTree(n, rooted)
		case "caterpillar":
			t, err = tree.RandomCaterpillarBinaryTree(n, rooted)
		case "balanced":
			t, err = tree.RandomBalancedBinaryTree(n, rooted)
		case "star":
			t, err = tree.StarTree(n)
		case "starnames":
			t, err = tree.StarTreeFromName(c.StrList("names")...)
		default:
			panicmsg = "unknown generator"
		}
	}()
	consumed := -1
	if panicmsg == "" {
		consumed = c16Consumed(rawv)
	}
	obs.List = append(obs.List, KV("consumed", I(consumed)), KV("panic", A(panicmsg)), KV("err", A(errStr(err))))
	if panicmsg == "" && err == nil && t != nil {
		d, audit := ObserveTree(t)
		obs.List = append(obs.List, KV("hastree", B(true)), KV("tree", d), KV("audit", audit))
		c16Indexes(t, obs)
	} else {
		obs.List = append(obs.List, KV("hastree", B(false)))
	}
	return obs
}
