package main

import (
	"fmt"

	"github.com/evolbioinfo/gotree/tree"
)

// BuildTree builds a gotree Tree from  (N name (coms) (slots))  with the exact neighbour order.
// Slot U is the parent; (D len sup pv (coms) child) a child.  No index is computed.
func BuildTree(s *Sexp) (*tree.Tree, error) {
	t := tree.NewTree()
	root, err := buildNode(t, s, nil, nil)
	if err != nil {
		return nil, err
	}
	t.SetRoot(root)
	return t, nil
}

func buildNode(t *tree.Tree, s *Sexp, parent *tree.Node, pedge *tree.Edge) (*tree.Node, error) {
	if s == nil || !s.IsList || len(s.List) != 4 || s.List[0].Atom != "N" {
		return nil, fmt.Errorf("bad node")
	}
	n := t.NewNode()
	n.SetName(s.List[1].Atom)
	for _, c := range s.List[2].List {
		n.AddComment(c.Atom)
	}
	neigh := make([]*tree.Node, 0, len(s.List[3].List))
	br := make([]*tree.Edge, 0, len(s.List[3].List))
	for _, sl := range s.List[3].List {
		if !sl.IsList {
			if sl.Atom != "U" || parent == nil {
				return nil, fmt.Errorf("bad slot")
			}
			neigh = append(neigh, parent)
			br = append(br, pedge)
			continue
		}
		if len(sl.List) != 6 || sl.List[0].Atom != "D" {
			return nil, fmt.Errorf("bad child slot")
		}
		e := t.NewEdge()
		l, err := ParseQ(sl.List[1].Atom)
		if err != nil {
			return nil, err
		}
		su, err := ParseQ(sl.List[2].Atom)
		if err != nil {
			return nil, err
		}
		pv, err := ParseQ(sl.List[3].Atom)
		if err != nil {
			return nil, err
		}
		e.SetLength(l)
		e.SetSupport(su)
		e.SetPValue(pv)
		for _, c := range sl.List[4].List {
			e.AddComment(c.Atom)
		}
		child, err := buildNode(t, sl.List[5], n, e)
		if err != nil {
			return nil, err
		}
		e.VerifSetEnds(n, child)
		neigh = append(neigh, child)
		br = append(br, e)
	}
	n.VerifSetNeighbors(neigh, br)
	return n, nil
}

// DumpTree walks the tree from the root through Neigh()/Edges() and writes it in the wire
// format; audit problems are appended to *problems.  It is written against the public API
// only and never trusts the tree: nil pointers, cycles and asymmetric adjacency are reported.
func DumpTree(t *tree.Tree, problems *[]string) *Sexp {
	if t == nil || t.Root() == nil {
		*problems = append(*problems, "nil tree or root")
		return L(A("N"), A(""), L(), L())
	}
	seen := make(map[*tree.Node]bool)
	return dumpNode(t.Root(), nil, nil, seen, problems, 0)
}

func note(problems *[]string, format string, a ...interface{}) {
	if len(*problems) < 20 {
		*problems = append(*problems, fmt.Sprintf(format, a...))
	}
}

func dumpNode(n, prev *tree.Node, pedge *tree.Edge, seen map[*tree.Node]bool, problems *[]string, depth int) *Sexp {
	if seen[n] {
		note(problems, "node %q reached twice (cycle or shared child)", n.Name())
		return L(A("N"), A(n.Name()), L(), L())
	}
	seen[n] = true
	neigh := n.Neigh()
	br := n.Edges()
	if len(neigh) != len(br) {
		note(problems, "node %q: len(neigh)=%d != len(br)=%d", n.Name(), len(neigh), len(br))
		return L(A("N"), A(n.Name()), Strs(n.Comments()), L())
	}
	slots := L()
	nparent := 0
	for i, c := range neigh {
		e := br[i]
		if c == nil || e == nil {
			note(problems, "node %q: nil neighbour or branch at %d", n.Name(), i)
			continue
		}
		if c == prev && prev != nil && e == pedge {
			nparent++
			slots.List = append(slots.List, A("U"))
			continue
		}
		if c == prev && prev != nil {
			note(problems, "node %q: neighbour %d is the parent but the branch is not the parent's branch", n.Name(), i)
		}
		// adjacency must be symmetric, with the same edge object on both sides
		back := false
		for j, c2 := range c.Neigh() {
			if c2 == n && j < len(c.Edges()) && c.Edges()[j] == e {
				back = true
			}
		}
		if !back {
			note(problems, "asymmetric adjacency between %q and %q", n.Name(), c.Name())
		}
		// the edge joins exactly these two nodes and points away from the root
		if e.Left() != n || e.Right() != c {
			if e.Left() == c && e.Right() == n {
				note(problems, "branch between %q and %q points towards the root", n.Name(), c.Name())
			} else {
				note(problems, "branch ends are not the two nodes it joins (%q,%q)", n.Name(), c.Name())
			}
		}
		slots.List = append(slots.List, L(A("D"), F(e.Length()), F(e.Support()), F(e.PValue()), Strs(e.Comments()),
			dumpNode(c, n, e, seen, problems, depth+1)))
	}
	if prev != nil && nparent != 1 {
		note(problems, "node %q has %d parent slots", n.Name(), nparent)
	}
	return L(A("N"), A(n.Name()), Strs(n.Comments()), slots)
}

// AuditEnumerations checks that the public enumerations agree with each other.
func AuditEnumerations(t *tree.Tree, problems *[]string) {
	defer func() {
		if r := recover(); r != nil {
			note(problems, "panic in enumerations: %v", r)
		}
	}()
	nodes := t.Nodes()
	edges := t.Edges()
	tips := t.Tips()
	tipedges := t.TipEdges()
	intedges := t.InternalEdges()
	if len(edges) != len(nodes)-1 {
		note(problems, "branches=%d but nodes-1=%d", len(edges), len(nodes)-1)
	}
	if len(tipedges)+len(intedges) != len(edges) {
		note(problems, "internal(%d)+external(%d) != all branches(%d)", len(intedges), len(tipedges), len(edges))
	}
	all := make(map[*tree.Edge]int)
	for _, e := range edges {
		all[e]++
	}
	for _, e := range tipedges {
		all[e] += 100
		if !e.Right().Tip() {
			note(problems, "TipEdges returns an inner branch")
		}
	}
	for _, e := range intedges {
		all[e] += 100
		if e.Right().Tip() {
			note(problems, "InternalEdges returns a tip branch")
		}
	}
	for _, v := range all {
		if v != 101 {
			note(problems, "a branch is not in exactly one of InternalEdges/TipEdges and once in Edges (code %d)", v)
			break
		}
	}
	ntipedges := 0
	for _, e := range edges {
		if e.Right().Tip() {
			ntipedges++
		}
	}
	// the root itself is a "tip" for Tips() only in degenerate one-branch trees
	roottip := 0
	if t.Root().Tip() {
		roottip = 1
	}
	if ntipedges+roottip != len(tips) {
		note(problems, "tips=%d but tip branches=%d", len(tips), ntipedges)
	}
}

// ObserveTree is the standard observation of a result tree.
func ObserveTree(t *tree.Tree) (*Sexp, *Sexp) {
	problems := []string{}
	d := DumpTree(t, &problems)
	if len(problems) == 0 {
		AuditEnumerations(t, &problems)
	}
	return d, Strs(problems)
}

// BuildTreeAPI assembles the same structure through the public API only, as a caller that starts
// from an undirected branch list would: NewNode, ConnectNodes (in the direction given by flip:
// bit i true = branch i, numbered in preorder, is connected child->parent, i.e. pointing towards
// the root), SetRoot.  Nothing is oriented or indexed afterwards: the caller is expected to run
// Reroot(root) (the library's way to orient a hand-made tree) before using it.  Branches are
// connected in preorder, so every node's neighbour list is [parent, children in order]: the
// structure must have the parent slot first in every non-root node.
func BuildTreeAPI(s *Sexp, flip []bool) (*tree.Tree, error) {
	t := tree.NewTree()
	k := 0
	var mk func(s *Sexp) (*tree.Node, error)
	var attach func(n *tree.Node, s *Sexp) error
	mk = func(s *Sexp) (*tree.Node, error) {
		if s == nil || !s.IsList || len(s.List) != 4 || s.List[0].Atom != "N" {
			return nil, fmt.Errorf("bad node")
		}
		n := t.NewNode()
		n.SetName(s.List[1].Atom)
		for _, c := range s.List[2].List {
			n.AddComment(c.Atom)
		}
		return n, nil
	}
	attach = func(n *tree.Node, s *Sexp) error {
		for i, sl := range s.List[3].List {
			if !sl.IsList {
				if sl.Atom != "U" || i != 0 {
					return fmt.Errorf("BuildTreeAPI needs the parent slot first")
				}
				continue
			}
			if len(sl.List) != 6 || sl.List[0].Atom != "D" {
				return fmt.Errorf("bad child slot")
			}
			child, err := mk(sl.List[5])
			if err != nil {
				return err
			}
			var e *tree.Edge
			if k < len(flip) && flip[k] {
				e = t.ConnectNodes(child, n)
				// ConnectNodes(child, n) appends in the same order to both lists: n gets child, child gets n
			} else {
				e = t.ConnectNodes(n, child)
			}
			k++
			l, err := ParseQ(sl.List[1].Atom)
			if err != nil {
				return err
			}
			su, err := ParseQ(sl.List[2].Atom)
			if err != nil {
				return err
			}
			pv, err := ParseQ(sl.List[3].Atom)
			if err != nil {
				return err
			}
			e.SetLength(l)
			e.SetSupport(su)
			e.SetPValue(pv)
			for _, c := range sl.List[4].List {
				e.AddComment(c.Atom)
			}
			if err := attach(child, sl.List[5]); err != nil {
				return err
			}
		}
		return nil
	}
	root, err := mk(s)
	if err != nil {
		return nil, err
	}
	if err := attach(root, s); err != nil {
		return nil, err
	}
	t.SetRoot(root)
	return t, nil
}
