package main

import (
	"errors"
	"fmt"
	"os"
	"sort"
	"time"

	"github.com/evolbioinfo/gotree/support"
	"github.com/evolbioinfo/gotree/tree"
)

func init() { register("C11", c11) }

// feed builds fresh trees from the case and sends them on a channel exactly as the readers do:
// consecutive ids, an erroneous entry (Err set, no tree) or a tree on other taxa at position bad.
func c11feed(c *Sexp) (<-chan tree.Trees, error) {
	trees := c.Get("trees")
	badposs := map[int]bool{}
	for _, p := range c.IntList("badposs") {
		badposs[p] = true
	}
	badkind := c.Str("badkind")
	items := make([]tree.Trees, 0, len(trees.List))
	for i, ts := range trees.List {
		if badkind == "err" && badposs[i] {
			items = append(items, tree.Trees{Tree: nil, Id: i, Err: errors.New("injected reader error")})
			continue
		}
		t, err := BuildTree(ts)
		if err != nil {
			return nil, err
		}
		if badkind == "taxa" && badposs[i] {
			t.Tips()[0].SetName("zz_foreign")
		}
		items = append(items, tree.Trees{Tree: t, Id: i})
	}
	ch := make(chan tree.Trees, 4)
	go func() {
		for _, it := range items {
			ch <- it
		}
		close(ch)
	}()
	return ch, nil
}

type c11rec struct {
	id  int
	txt *Sexp
}

func c11run(c *Sexp, threads int) *Sexp {
	ref, err := BuildTree(c.Get("ref"))
	if err != nil {
		return L(KV("panic", A("build: "+err.Error())))
	}
	// the commands index the reference tree before calling the library
	if err := ref.ReinitIndexes(); err != nil {
		return L(KV("panic", A("reinit: "+err.Error())))
	}
	// number the branches as the Newick reader does (TBE indexes arrays by Edge.Id)
	for i, e := range ref.Edges() {
		e.SetId(i)
	}
	ch, err := c11feed(c)
	if err != nil {
		return L(KV("panic", A("build: "+err.Error())))
	}
	done := make(chan *Sexp, 1)
	go func() {
		defer func() {
			if r := recover(); r != nil {
				done <- L(KV("hang", B(false)), KV("panic", A(fmt.Sprintf("%v", r))))
			}
		}()
		recs := []c11rec{}
		ferr := ""
		switch c.Str("op") {
		case "compare":
			stats, e := tree.Compare(ref, ch, c.Bool("tips"), false, threads)
			if e != nil {
				ferr = e.Error()
			} else {
				for st := range stats {
					recs = append(recs, c11rec{st.Id, L(I(st.Id), I(st.Tree1), I(st.Common), I(st.Tree2), B(st.Sametree), A(errStr(st.Err)))})
				}
			}
		case "weighted":
			stats, e := tree.CompareWeighted(ref, ch, c.Bool("tips"), false, threads)
			if e != nil {
				ferr = e.Error()
			} else {
				for st := range stats {
					fl := func(v []float64) *Sexp {
						r := L()
						for _, x := range v {
							r.List = append(r.List, F(x))
						}
						return r
					}
					recs = append(recs, c11rec{st.Id, L(I(st.Id), fl(st.Tree1), fl(st.Common), fl(st.Tree2), B(st.Sametree), A(errStr(st.Err)))})
				}
			}
		case "fbp":
			e := support.FBP(ref, ch, threads, nil)
			ferr = errStr(e)
			for i, ed := range ref.Edges() {
				recs = append(recs, c11rec{i, L(I(i), F(ed.Support()))})
			}
		case "tbe":
			devnull, _ := os.OpenFile(os.DevNull, os.O_WRONLY, 0)
			old := os.Stderr
			os.Stderr = devnull // TBE prints a progress line per bootstrap tree
			_, e := support.TBE(ref, ch, threads, false, false, false, 0.3, nil, nil)
			os.Stderr = old
			devnull.Close()
			ferr = errStr(e)
			for i, ed := range ref.Edges() {
				recs = append(recs, c11rec{i, L(I(i), F(ed.Support()))})
			}
		}
		sort.SliceStable(recs, func(i, j int) bool { return recs[i].id < recs[j].id })
		res := L()
		for _, r := range recs {
			res.List = append(res.List, r.txt)
		}
		done <- L(KV("hang", B(false)), KV("err", A(ferr)), KV("results", res))
	}()
	select {
	case r := <-done:
		return r
	case <-time.After(8 * time.Second):
		return L(KV("hang", B(true)), KV("err", A("")), KV("results", L()))
	}
}

func c11(c *Sexp) *Sexp {
	base := c11run(c, 1)
	multi := c11run(c, c.Int("threads"))
	return L(KV("base", base), KV("multi", multi))
}
