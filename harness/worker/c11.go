package main

import (
	"bufio"
	"errors"
	"fmt"
	"os"
	"sort"
	"strings"
	"time"

	"github.com/evolbioinfo/gotree/io/utils"

	"github.com/evolbioinfo/gotree/support"
	"github.com/evolbioinfo/gotree/tree"
)

func init() { register("C11", c11) }

// feed builds fresh trees from the case and sends them on a channel exactly as the readers do:
// consecutive ids, an erroneous entry (Err set, no tree) or a tree on other taxa at position bad.
func c11feed(c *Sexp) (<-chan tree.Trees, error) {
	trees := c.Get("trees")
	if c.Str("feed") == "text" {
		return c11feedText(c)
	}
	badposs := map[int]bool{}
	for _, p := range c.IntList("badposs") {
		badposs[p] = true
	}
	badkind := c.Str("badkind")
	items := make([]tree.Trees, 0, len(trees.List))
	for i, ts := range trees.List {
		if badkind == "err" && badposs[i] {
			items = append(items, tree.Trees{Tree: nil, Id: i, Err: errors.New("injected reader error")})
			continue
		}
		t, err := BuildTree(ts)
		if err != nil {
			return nil, err
		}
		if badkind == "taxa" && badposs[i] {
			t.Tips()[0].SetName("zz_foreign")
		}
		if badkind == "errtree" && badposs[i] {
			// a record that carries an error AND a (partial) tree, as the PhyloXML reader can deliver
			items = append(items, tree.Trees{Tree: t, Id: i, Err: errors.New("injected reader error with a partial tree")})
			continue
		}
		items = append(items, tree.Trees{Tree: t, Id: i})
	}
	ch := make(chan tree.Trees, 4)
	go func() {
		for _, it := range items {
			ch <- it
		}
		close(ch)
	}()
	return ch, nil
}

// c11feedText writes the trees as a multi-tree Newick text (one tree per line, a malformed line at every
// bad position: badkind parse) and reads it back through the real reader utils.ReadMultiTrees, the way
// every command does; the reader's goroutine runs ahead of the consumer by up to its channel buffer.
func c11feedText(c *Sexp) (<-chan tree.Trees, error) {
	badposs := map[int]bool{}
	for _, p := range c.IntList("badposs") {
		badposs[p] = true
	}
	badkind := c.Str("badkind")
	var b strings.Builder
	for i, ts := range c.Get("trees").List {
		t, err := BuildTree(ts)
		if err != nil {
			return nil, err
		}
		if badkind == "taxa" && badposs[i] {
			t.Tips()[0].SetName("zz_foreign")
		}
		txt := t.Newick()
		if badkind == "parse" && badposs[i] {
			txt = strings.Replace(txt, ")", "", 1) // unbalanced parentheses: a parse error
		}
		b.WriteString(txt)
		b.WriteString("\n")
	}
	return utils.ReadMultiTrees(bufio.NewReader(strings.NewReader(b.String())), utils.FORMAT_NEWICK), nil
}

type c11rec struct {
	id  int
	txt *Sexp
}

func c11run(c *Sexp, threads int) *Sexp {
	ref, err := BuildTree(c.Get("ref"))
	if err != nil {
		return L(KV("panic", A("build: "+err.Error())))
	}
	// the commands index the reference tree before calling the library
	if err := ref.ReinitIndexes(); err != nil {
		return L(KV("panic", A("reinit: "+err.Error())))
	}
	// number the branches as the Newick reader does (TBE indexes arrays by Edge.Id)
	for i, e := range ref.Edges() {
		e.SetId(i)
	}
	ch, err := c11feed(c)
	if err != nil {
		return L(KV("panic", A("build: "+err.Error())))
	}
	if d := c.Int("delayms"); d > 0 {
		// a consumer that starts late: the reader has filled its channel buffer by then
		time.Sleep(time.Duration(d) * time.Millisecond)
	}
	done := make(chan *Sexp, 1)
	go func() {
		defer func() {
			if r := recover(); r != nil {
				done <- L(KV("hang", B(false)), KV("panic", A(fmt.Sprintf("%v", r))))
			}
		}()
		recs := []c11rec{}
		ferr := ""
		switch c.Str("op") {
		case "compare":
			stats, e := tree.Compare(ref, ch, c.Bool("tips"), false, threads)
			if e != nil {
				ferr = e.Error()
			} else {
				for st := range stats {
					recs = append(recs, c11rec{st.Id, L(I(st.Id), I(st.Tree1), I(st.Common), I(st.Tree2), B(st.Sametree), A(errStr(st.Err)))})
				}
			}
		case "weighted":
			stats, e := tree.CompareWeighted(ref, ch, c.Bool("tips"), false, threads)
			if e != nil {
				ferr = e.Error()
			} else {
				for st := range stats {
					fl := func(v []float64) *Sexp {
						r := L()
						for _, x := range v {
							r.List = append(r.List, F(x))
						}
						return r
					}
					recs = append(recs, c11rec{st.Id, L(I(st.Id), fl(st.Tree1), fl(st.Common), fl(st.Tree2), B(st.Sametree), A(errStr(st.Err)))})
				}
			}
		case "fbp":
			e := support.FBP(ref, ch, threads, nil)
			ferr = errStr(e)
			for i, ed := range ref.Edges() {
				recs = append(recs, c11rec{i, L(I(i), F(ed.Support()))})
			}
		case "tbe":
			devnull, _ := os.OpenFile(os.DevNull, os.O_WRONLY, 0)
			old := os.Stderr
			os.Stderr = devnull // TBE prints a progress line per bootstrap tree
			_, e := support.TBE(ref, ch, threads, false, false, false, 0.3, nil, nil)
			os.Stderr = old
			devnull.Close()
			ferr = errStr(e)
			for i, ed := range ref.Edges() {
				recs = append(recs, c11rec{i, L(I(i), F(ed.Support()))})
			}
		case "tbetaxa":
			// transfer supports with the per-taxon and per-branch transfer tables (--moved-taxa, --transfer-tree):
			// the tables are written to the log file; their lines are part of the result
			logf, lerr := os.CreateTemp("", "c11-tbe-*.log")
			if lerr != nil {
				ferr = lerr.Error()
				break
			}
			devnull, _ := os.OpenFile(os.DevNull, os.O_WRONLY, 0)
			old := os.Stderr
			os.Stderr = devnull
			// which tables: both (default), or only one of them
			avg, perbranch := true, true
			switch c.Str("tables") {
			case "taxa":
				perbranch = false
			case "branches":
				avg = false
			}
			_, e := support.TBE(ref, ch, threads, false, avg, perbranch, 0.3, logf, nil)
			os.Stderr = old
			devnull.Close()
			ferr = errStr(e)
			for i, ed := range ref.Edges() {
				recs = append(recs, c11rec{i, L(I(i), F(ed.Support()))})
			}
			logf.Close()
			content, _ := os.ReadFile(logf.Name())
			os.Remove(logf.Name())
			for i, ln := range strings.Split(string(content), "\n") {
				recs = append(recs, c11rec{100000 + i, L(I(100000+i), A(ln))})
			}
		}
		sort.SliceStable(recs, func(i, j int) bool { return recs[i].id < recs[j].id })
		res := L()
		for _, r := range recs {
			res.List = append(res.List, r.txt)
		}
		done <- L(KV("hang", B(false)), KV("err", A(ferr)), KV("results", res))
	}()
	select {
	case r := <-done:
		return r
	case <-time.After(8 * time.Second):
		return L(KV("hang", B(true)), KV("err", A("")), KV("results", L()))
	}
}

func c11(c *Sexp) *Sexp {
	base := c11run(c, 1)
	multi := c11run(c, c.Int("threads"))
	return L(KV("base", base), KV("multi", multi))
}
