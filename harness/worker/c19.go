package main

import (
	"fmt"
	"reflect"
	"sort"

	"github.com/evolbioinfo/gotree/cmd"
	"github.com/spf13/cobra"
	"github.com/spf13/pflag"
)

func init() { register("C19", c19) }

// c19 walks the real command tree after every init() of package cmd has run and reports, for
// every option of every command: documented default (Flag.DefValue, what the help template
// prints), the current value of the bound variable (what the command reads when the option is
// omitted) and the identity of the bound variable.
// c19parse gives every option its documented default explicitly, in each way of writing it ("--name v",
// "--name=v", "-s v"; Bool options only "--name=v"), through the command's own ParseFlags, and
// reports the value the option ends with and the words left over as positional arguments.
func c19parse() *Sexp {
	rows := L()
	var walk func(cm *cobra.Command)
	walk = func(cm *cobra.Command) {
		seen := map[string]bool{}
		try := func(f *pflag.Flag) {
			if seen[f.Name] {
				return
			}
			seen[f.Name] = true
			typ, def := f.Value.Type(), f.DefValue
			if len(typ) > 5 && (typ[len(typ)-5:] == "Slice" || typ[len(typ)-5:] == "Array") {
				if len(def) < 2 || def == "[]" {
					return // an empty list cannot be written on the command line
				}
				def = def[1 : len(def)-1]
			}
			forms := [][]string{{"eq", "--" + f.Name + "=" + def}}
			if typ != "bool" {
				forms = append(forms, []string{"space", "--" + f.Name, def})
				if f.Shorthand != "" {
					forms = append(forms, []string{"short", "-" + f.Shorthand, def})
				}
			}
			for _, fm := range forms {
				err := cm.ParseFlags(fm[1:])
				left := cm.Flags().Args()
				rows.List = append(rows.List, L(A(cm.CommandPath()), A(f.Name), A(fm[0]), A(typ), A(f.NoOptDefVal), A(f.DefValue),
					A(f.Value.String()), I(len(left)), A(errStr(err))))
			}
		}
		cm.LocalFlags().VisitAll(try)
		cm.InheritedFlags().VisitAll(try)
		subs := cm.Commands()
		sort.Slice(subs, func(i, j int) bool { return subs[i].Name() < subs[j].Name() })
		for _, s := range subs {
			walk(s)
		}
	}
	walk(cmd.RootCmd)
	return L(KV("parse", rows), KV("n", A(fmt.Sprintf("%d", len(rows.List)))))
}

func c19(c *Sexp) *Sexp {
	if c.Str("op") == "parse" {
		return c19parse()
	}
	rows := L()
	required := L()
	addr := map[uintptr]int{}
	var walk func(cm *cobra.Command)
	emit := func(cm *cobra.Command, f *pflag.Flag, pers bool) {
		p := reflect.ValueOf(f.Value).Pointer()
		id, ok := addr[p]
		if !ok {
			id = len(addr)
			addr[p] = id
		}
		rows.List = append(rows.List, L(A(cm.CommandPath()), A(f.Name), A(f.Shorthand), A(f.Value.Type()),
			A(f.DefValue), A(f.Value.String()), B(pers), I(id)))
		// cobra marks a required option with this annotation: omitting it is then a usage error,
		// whatever default the help text shows
		if v, ok := f.Annotations[cobra.BashCompOneRequiredFlag]; ok && len(v) > 0 && v[0] == "true" {
			required.List = append(required.List, L(A(cm.CommandPath()), A(f.Name), A(f.DefValue)))
		}
	}
	walk = func(cm *cobra.Command) {
		persistent := map[string]bool{}
		cm.PersistentFlags().VisitAll(func(f *pflag.Flag) { persistent[f.Name] = true })
		cm.PersistentFlags().VisitAll(func(f *pflag.Flag) { emit(cm, f, true) })
		cm.Flags().VisitAll(func(f *pflag.Flag) {
			if !persistent[f.Name] {
				emit(cm, f, false)
			}
		})
		subs := cm.Commands()
		sort.Slice(subs, func(i, j int) bool { return subs[i].Name() < subs[j].Name() })
		for _, s := range subs {
			walk(s)
		}
	}
	walk(cmd.RootCmd)
	// The root's PersistentPreRun runs before every command with the option values as parsed: with nothing
	// given on the command line these are the defaults; what the commands then read must still be the
	// documented defaults (except --seed, whose documented meaning of -1 is "take the clock").
	after := L()
	if c.Str("after") == "prerun" && cmd.RootCmd.PersistentPreRun != nil {
		cmd.RootCmd.PersistentPreRun(cmd.RootCmd, []string{})
		cmd.RootCmd.PersistentFlags().VisitAll(func(f *pflag.Flag) {
			after.List = append(after.List, L(A(f.Name), A(f.DefValue), A(f.Value.String())))
		})
	}
	return L(KV("flags", rows), KV("required", required), KV("afterprerun", after), KV("n", A(fmt.Sprintf("%d", len(rows.List)))))
}
