package main

import (
	"github.com/evolbioinfo/gotree/tree"
)

func init() { register("C20", c20) }

// c20: the selection loops of cmd/sample.go and cmd/prune.go are unexported; the driver runs
// the real binary with --seed and puts what it selected in the case.  The worker contributes
// the raw rand stream of that seed (rand.Seed(seed) in cmd/root.go seeds the same global
// source), from which the judge's model predicts the selection.  ShuffleTips is run here.
func c20(c *Sexp) *Sexp {
	switch c.Str("op") {
	case "uniform":
		// the "uniform" generator on the recorded stream (structure only; C16 also ties the lengths)
		raw := rawStream(int64(c.Int("seed")), c.Int("nraw"))
		t, err := tree.RandomUniformBinaryTree(c.Int("n"), c.Bool("rooted"))
		if err != nil || t == nil {
			return L(KV("raw", raw), KV("err", A(errStr(err))))
		}
		d, audit := ObserveTree(t)
		return L(KV("raw", raw), KV("err", A("")), KV("tree", d), KV("audit", audit))
	case "sample", "prune", "prunemulti":
		return L(KV("raw", rawStream(int64(c.Int("seed")), c.Int("nraw"))))
	case "shufflemulti":
		// the same tree shuffled under several seeds: the tip names (Tips() order) and the names of
		// all nodes (Nodes() order) after each shuffle, for the distribution-over-seeds oracle
		results := L()
		for _, sd := range c.IntList("seeds") {
			t, err := BuildTree(c.Get("tree"))
			if err != nil {
				return L(KV("panic", A("build: "+err.Error())))
			}
			raw := rawStream(int64(sd), c.Int("nraw"))
			t.ShuffleTips()
			d, audit := ObserveTree(t)
			results.List = append(results.List, L(KV("raw", raw), KV("tree", d), KV("audit", audit)))
		}
		return L(KV("raw", L()), KV("results", results))
	case "shuffle":
		t, err := BuildTree(c.Get("tree"))
		if err != nil {
			return L(KV("panic", A("build: "+err.Error())))
		}
		raw := rawStream(int64(c.Int("seed")), c.Int("nraw"))
		t.ShuffleTips()
		d, audit := ObserveTree(t)
		return L(KV("raw", raw), KV("err", A("")), KV("tree", d), KV("audit", audit))
	default:
		// enumeration cases are decided on the model alone
		return L(KV("raw", L()))
	}
}
