package main

import (
	"fmt"
	"math/rand"
	"os"
	"sort"
	"strings"

	"github.com/evolbioinfo/gotree/support"
	"github.com/evolbioinfo/gotree/tree"
)

func init() { register("C18", c18) }

// c18: one library call on inputs derived from a seed; the driver repeats the very same case in fresh
// processes and with several thread counts and compares the observations byte by byte (per-tree
// records are listed by tree identifier, so only their content matters, not the emission order).
//
//	(op compare|weighted|fbp|tbe) (seed s) (ntips n) (ntrees k) (foreign m) (cpus c)
//
// Every m-th tree (m > 0) has one tip more than the reference: it cannot be compared and its
// record must say so.
func c18(c *Sexp) *Sexp {
	if c.Str("op") == "rename" {
		return c18rename(c)
	}
	rand.Seed(int64(c.Int("seed")))
	n, k, m, cpus := c.Int("ntips"), c.Int("ntrees"), c.Int("foreign"), c.Int("cpus")
	ref, err := tree.RandomYuleBinaryTree(n, false)
	if err != nil {
		return L(KV("panic", A(err.Error())))
	}
	trees := make([]*tree.Tree, k)
	for i := range trees {
		nt := n
		if m > 0 && i%m == m-1 {
			nt = n + 1
		}
		if i%7 == 0 {
			trees[i] = ref.Clone()
		} else if trees[i], err = tree.RandomYuleBinaryTree(nt, false); err != nil {
			return L(KV("panic", A(err.Error())))
		}
	}
	if err := ref.ReinitIndexes(); err != nil {
		return L(KV("panic", A(err.Error())))
	}
	for i, e := range ref.Edges() {
		e.SetId(i)
	}
	ch := make(chan tree.Trees, 10)
	go func() {
		for i, t := range trees {
			ch <- tree.Trees{Tree: t, Id: i}
		}
		close(ch)
	}()
	lines := []string{}
	ferr := ""
	switch c.Str("op") {
	case "compare":
		stats, e := tree.Compare(ref, ch, false, false, cpus)
		if e != nil {
			ferr = e.Error()
			break
		}
		for st := range stats {
			lines = append(lines, fmt.Sprintf("%06d %d %d %d %v %s", st.Id, st.Tree1, st.Common, st.Tree2, st.Sametree, errStr(st.Err)))
		}
	case "weighted":
		stats, e := tree.CompareWeighted(ref, ch, false, false, cpus)
		if e != nil {
			ferr = e.Error()
			break
		}
		for st := range stats {
			sum := func(v []float64) string {
				s := append([]float64(nil), v...)
				sort.Float64s(s)
				return fmt.Sprint(len(s), s)
			}
			lines = append(lines, fmt.Sprintf("%06d %s %s %s %v %s", st.Id, sum(st.Tree1), sum(st.Common), sum(st.Tree2), st.Sametree, errStr(st.Err)))
		}
	case "fbp", "tbe":
		if c.Str("op") == "fbp" {
			ferr = errStr(support.FBP(ref, ch, cpus, nil))
		} else {
			devnull, _ := os.OpenFile(os.DevNull, os.O_WRONLY, 0)
			old := os.Stderr
			os.Stderr = devnull
			_, e := support.TBE(ref, ch, cpus, false, false, false, 0.3, nil, nil)
			os.Stderr = old
			devnull.Close()
			ferr = errStr(e)
		}
		for i, ed := range ref.Edges() {
			lines = append(lines, fmt.Sprintf("%06d %v", i, ed.Support()))
		}
	}
	sort.Strings(lines)
	return L(KV("err", A(ferr)), KV("n", I(len(lines))), KV("records", A(strings.Join(lines, "|"))))
}
