package main

import (
	"io"
	"log"
	"strings"

	"github.com/evolbioinfo/gotree/io/newick"
)

func init() { register("C01", c01) }

// C01: Newick write / parse.
//
//	((op roundtrip) (tree T)) : build T, write it, parse the text, dump the parsed tree, write it again
//	((op parse) (text s))     : parse s, dump the tree
//
// The parser reports ignored root lengths/supports through log.Print; silence it.
func c01(c *Sexp) *Sexp {
	log.SetOutput(io.Discard)
	switch c.Str("op") {
	case "roundtrip":
		t, err := BuildTree(c.Get("tree"))
		if err != nil {
			return L(KV("bad", A("build: "+err.Error())))
		}
		txt := t.Newick()
		t2, perr := newick.NewParser(strings.NewReader(txt)).Parse()
		if perr != nil {
			return L(KV("err", A(errStr(perr))), KV("text", A(txt)))
		}
		d, audit := ObserveTree(t2)
		return L(KV("err", A("")), KV("text", A(txt)), KV("tree", d), KV("audit", audit), KV("text2", A(t2.Newick())))
	case "parse":
		v := c.Get("text")
		if v == nil || v.IsList {
			return L(KV("bad", A("no text")))
		}
		t2, perr := newick.NewParser(strings.NewReader(v.Atom)).Parse()
		if perr != nil {
			return L(KV("err", A(errStr(perr))))
		}
		d, audit := ObserveTree(t2)
		return L(KV("err", A("")), KV("tree", d), KV("audit", audit))
	}
	return L(KV("bad", A("unknown op")))
}
