package main

import (
	"bufio"
	"io"
	"log"
	"strings"

	"github.com/evolbioinfo/gotree/io/newick"
	"github.com/evolbioinfo/gotree/io/utils"
)

// glueRead reads a text through the path every command and API reader uses:
// utils.ReadMultiTrees -> fileutils.ReadUntilSemiColon (bufio.Reader.ReadLine chunks) -> newick parser.
// One record per delivered item: (id err) or (id "" tree audit).
func glueRead(txt string) *Sexp {
	recs := L()
	for t := range utils.ReadMultiTrees(bufio.NewReader(strings.NewReader(txt)), utils.FORMAT_NEWICK) {
		if t.Err != nil {
			recs.List = append(recs.List, L(I(t.Id), A(errStr(t.Err))))
			continue
		}
		d, audit := ObserveTree(t.Tree)
		recs.List = append(recs.List, L(I(t.Id), A(""), d, audit))
	}
	return recs
}

func init() { register("C01", c01) }

// C01: Newick write / parse.
//
//	((op roundtrip) (tree T)) : build T, write it, parse the text, dump the parsed tree, write it again
//	((op parse) (text s))     : parse s, dump the tree
//
// The parser reports ignored root lengths/supports through log.Print; silence it.
func c01(c *Sexp) *Sexp {
	log.SetOutput(io.Discard)
	switch c.Str("op") {
	case "roundtrip":
		t, err := BuildTree(c.Get("tree"))
		if err != nil {
			return L(KV("bad", A("build: "+err.Error())))
		}
		txt := t.Newick()
		glue := glueRead(txt)
		t2, perr := newick.NewParser(strings.NewReader(txt)).Parse()
		if perr != nil {
			return L(KV("err", A(errStr(perr))), KV("text", A(txt)), KV("glue", glue))
		}
		d, audit := ObserveTree(t2)
		return L(KV("err", A("")), KV("text", A(txt)), KV("tree", d), KV("audit", audit), KV("text2", A(t2.Newick())), KV("glue", glue))
	case "parse":
		v := c.Get("text")
		if v == nil || v.IsList {
			return L(KV("bad", A("no text")))
		}
		glue := glueRead(v.Atom)
		t2, perr := newick.NewParser(strings.NewReader(v.Atom)).Parse()
		if perr != nil {
			return L(KV("err", A(errStr(perr))), KV("glue", glue))
		}
		d, audit := ObserveTree(t2)
		return L(KV("err", A("")), KV("tree", d), KV("audit", audit), KV("glue", glue))
	}
	return L(KV("bad", A("unknown op")))
}
