package main

import (
	"bufio"
	"fmt"
	"io"
	"log"
	"runtime"
	"strings"
	"sync/atomic"
	"time"
	"unicode/utf8"

	"github.com/evolbioinfo/gotree/io/fileutils"
	"github.com/evolbioinfo/gotree/io/newick"
	"github.com/evolbioinfo/gotree/io/nextstrain"
	"github.com/evolbioinfo/gotree/io/nexus"
	"github.com/evolbioinfo/gotree/io/phyloxml"
	"github.com/evolbioinfo/gotree/io/utils"
	"github.com/evolbioinfo/gotree/tree"
)

func init() { register("C02", c02) }

// C02: tree readers are total.
//
//	case: ((fmt newick|multi|nexus|phyloxml|nextstrain) (text "bytes") (timeout_ms n) (eofcap n) (dumpmax n))
//	obs : ((utf8 T|F) (eps (EP ...)))
//	EP  : ((name "entry point") (class ok|panic|hang) (msg "...") (items (ITEM ...)))
//	ITEM: ((id n) (err "message"))                                     an error record / error result
//	      ((id n) (err "") (name "tree name") (nwk "newick") (use "" | "what crashed")
//	       (nodes n) [(tree T) (audit (...))])                          a delivered tree
//
// Every entry point runs in its own goroutine under recover, with a watchdog.  A goroutine
// cannot be killed, so the input reader cooperates: once the watchdog has fired (or once the
// code under test has read past the end of the input more than eofcap times, which no
// terminating reader of a finite input does) its Read method ends the goroutine.  The reader
// goroutine of utils.ReadMultiTrees cannot be put under recover: the loop it runs for Newick
// streams is replicated here (same calls: fileutils.ReadUntilSemiColon, newick Parse), and
// the real function is only called when the replica neither panicked nor hung, so that the
// worker process survives and reports which entry point would have died.

type capReader struct {
	data      []byte
	pos       int
	eofReads  int64
	eofCap    int64
	abandoned *int32
	hangCh    chan int64
}

// Read may be called from a goroutine of the code under test (utils.ReadMultiTrees): it
// never panics; to stop a runaway caller it ends the calling goroutine.
func (r *capReader) Read(p []byte) (int, error) {
	if atomic.LoadInt32(r.abandoned) != 0 {
		runtime.Goexit()
	}
	if r.pos >= len(r.data) {
		r.eofReads++
		if r.eofCap > 0 && r.eofReads > r.eofCap {
			select {
			case r.hangCh <- r.eofReads:
			default:
			}
			runtime.Goexit()
		}
		return 0, io.EOF
	}
	n := copy(p, r.data[r.pos:])
	r.pos += n
	return n, nil
}

type c02env struct {
	text    string
	data    []byte
	timeout time.Duration
	eofCap  int64
	dumpMax int
}

type guardRes struct {
	class string // ok | panic | hang
	msg   string
}

// guard runs f(reader) in a goroutine under recover and the watchdog.
func (env *c02env) guardData(data []byte, f func(r io.Reader)) guardRes {
	var abandoned int32
	rd := &capReader{data: data, eofCap: env.eofCap, abandoned: &abandoned, hangCh: make(chan int64, 1)}
	done := make(chan guardRes, 1)
	go func() {
		finished := false
		defer func() {
			if rec := recover(); rec != nil {
				done <- guardRes{"panic", fmt.Sprintf("%v", rec)}
			} else if !finished {
				// runtime.Goexit from the reader
				select {
				case done <- guardRes{"hang", "stopped by the input reader"}:
				default:
				}
			}
		}()
		f(rd)
		finished = true
		done <- guardRes{"ok", ""}
	}()
	select {
	case n := <-rd.hangCh:
		atomic.StoreInt32(&abandoned, 1)
		return guardRes{"hang", fmt.Sprintf("more input requested %d times after the end of the input", n)}
	case r := <-done:
		if r.class == "hang" {
			select {
			case n := <-rd.hangCh:
				r.msg = fmt.Sprintf("more input requested %d times after the end of the input", n)
			default:
			}
		}
		return r
	case <-time.After(env.timeout):
		atomic.StoreInt32(&abandoned, 1)
		return guardRes{"hang", fmt.Sprintf("no result after %v", env.timeout)}
	}
}

func (env *c02env) guard(f func(r io.Reader)) guardRes { return env.guardData(env.data, f) }

// guardPlain: the same for code that does not read the input (tree traversals).
func (env *c02env) guardPlain(f func()) guardRes {
	return env.guardData(nil, func(io.Reader) { f() })
}

// useTree traverses, indexes and writes a delivered tree; returns the item.
func (env *c02env) treeItem(id int, name string, t *tree.Tree) *Sexp {
	it := L(KV("id", I(id)), KV("err", A("")), KV("name", A(name)))
	if t == nil {
		it.List = append(it.List, KV("nwk", A("")), KV("use", A("nil tree delivered without an error")), KV("nodes", I(0)))
		return it
	}
	nwk := ""
	nnodes := 0
	use := ""
	step := func(what string, f func()) {
		if use != "" {
			return
		}
		r := env.guardPlain(f)
		if r.class != "ok" {
			use = r.class + " in " + what + ": " + r.msg
		}
	}
	step("Nodes()", func() { nnodes = len(t.Nodes()) })
	step("Edges()", func() { _ = t.Edges() })
	step("Tips()", func() { _ = t.Tips() })
	step("Newick()", func() { nwk = t.Newick() })
	var d, audit *Sexp
	if use == "" && nnodes <= env.dumpMax {
		step("dump", func() { d, audit = ObserveTree(t) })
	}
	step("ReinitIndexes()", func() { _ = t.ReinitIndexes() })
	step("Newick() after ReinitIndexes()", func() { _ = t.Newick() })
	it.List = append(it.List, KV("nwk", A(nwk)), KV("use", A(use)), KV("nodes", I(nnodes)))
	if d != nil && audit != nil {
		it.List = append(it.List, KV("tree", d), KV("audit", audit))
	}
	return it
}

func errItem(id int, err error) *Sexp { return L(KV("id", I(id)), KV("err", A(errStr(err)))) }

func epObs(name string, r guardRes, items *Sexp) *Sexp {
	if items == nil {
		items = L()
	}
	return L(KV("name", A(name)), KV("class", A(r.class)), KV("msg", A(r.msg)), KV("items", items))
}

type rec struct {
	id   int
	name string
	t    *tree.Tree
	err  error
}

func (env *c02env) items(recs []rec) *Sexp {
	l := L()
	for _, r := range recs {
		if r.err != nil {
			l.List = append(l.List, errItem(r.id, r.err))
		} else {
			l.List = append(l.List, env.treeItem(r.id, r.name, r.t))
		}
	}
	return l
}

// single runs a single-tree entry point (tree, error).
func (env *c02env) single(name string, f func(r io.Reader) (*tree.Tree, error)) (*Sexp, guardRes) {
	var recs []rec
	g := env.guard(func(r io.Reader) {
		t, err := f(r)
		recs = []rec{{0, "", t, err}}
	})
	if g.class != "ok" {
		recs = nil
	}
	return epObs(name, g, env.items(recs)), g
}

// multi consumes the channel of utils.ReadMultiTrees.
func (env *c02env) multi(name string, format int) *Sexp {
	var recs []rec
	g := env.guard(func(r io.Reader) {
		for t := range utils.ReadMultiTrees(bufio.NewReader(r), format) {
			recs = append(recs, rec{t.Id, "", t.Tree, t.Err})
		}
	})
	return epObs(name, g, env.items(recs))
}

func c02(c *Sexp) *Sexp {
	log.SetOutput(io.Discard)
	v := c.Get("text")
	if v == nil || v.IsList {
		return L(KV("bad", A("no text")))
	}
	env := &c02env{text: v.Atom, data: []byte(v.Atom), timeout: 5 * time.Second, eofCap: 2000000, dumpMax: 20000}
	if c.Get("timeout_ms") != nil {
		env.timeout = time.Duration(c.Int("timeout_ms")) * time.Millisecond
	}
	if c.Get("eofcap") != nil {
		env.eofCap = int64(c.Int("eofcap"))
	}
	if c.Get("dumpmax") != nil {
		env.dumpMax = c.Int("dumpmax")
	}
	eps := L()
	add := func(e *Sexp) { eps.List = append(eps.List, e) }
	switch c.Str("fmt") {
	case "newick":
		e, g := env.single("newick.Parser.Parse", func(r io.Reader) (*tree.Tree, error) { return newick.NewParser(r).Parse() })
		add(e)
		if g.class == "ok" {
			e, _ = env.single("utils.ReadTreeReader(newick)", func(r io.Reader) (*tree.Tree, error) {
				return utils.ReadTreeReader(bufio.NewReader(r), utils.FORMAT_NEWICK)
			})
			add(e)
		}
	case "multi":
		// the loop of the reader goroutine of utils.ReadMultiTrees(FORMAT_NEWICK), under recover
		var recs []rec
		g := env.guard(func(r io.Reader) {
			reader := bufio.NewReader(r)
			id := 0
			line, e := fileutils.ReadUntilSemiColon(reader)
			if e != nil {
				recs = append(recs, rec{id, "", nil, e})
			}
			for e == nil {
				t, err := newick.NewParser(strings.NewReader(line)).Parse()
				if err != nil {
					recs = append(recs, rec{id, "", nil, err})
					break
				}
				recs = append(recs, rec{id, "", t, nil})
				id++
				line, e = fileutils.ReadUntilSemiColon(reader)
			}
		})
		add(epObs("ReadMultiTrees(newick) reader loop", g, env.items(recs)))
		if g.class == "ok" {
			add(env.multi("utils.ReadMultiTrees(newick)", utils.FORMAT_NEWICK))
		} else {
			add(epObs("utils.ReadMultiTrees(newick)", guardRes{g.class, "not run: its reader goroutine would have ended the process (" + g.msg + ")"}, nil))
		}
	case "nexus":
		var recs []rec
		g := env.guard(func(r io.Reader) {
			n, err := nexus.NewParser(r).Parse()
			if err != nil {
				recs = []rec{{0, "", nil, err}}
				return
			}
			id := 0
			n.IterateTrees(func(name string, t *tree.Tree) {
				recs = append(recs, rec{id, name, t, nil})
				id++
			})
		})
		if g.class != "ok" {
			recs = nil
		}
		add(epObs("nexus.Parser.Parse", g, env.items(recs)))
		if g.class == "ok" {
			e, _ := env.single("utils.ReadTreeReader(nexus)", func(r io.Reader) (*tree.Tree, error) {
				return utils.ReadTreeReader(bufio.NewReader(r), utils.FORMAT_NEXUS)
			})
			add(e)
			add(env.multi("utils.ReadMultiTrees(nexus)", utils.FORMAT_NEXUS))
		} else {
			add(epObs("utils.ReadMultiTrees(nexus)", guardRes{g.class, "not run: its reader goroutine would have ended the process (" + g.msg + ")"}, nil))
		}
	case "phyloxml":
		var recs []rec
		g := env.guard(func(r io.Reader) {
			p, err := phyloxml.NewParser(r).Parse()
			if err != nil {
				recs = []rec{{0, "", nil, err}}
				return
			}
			id := 0
			p.IterateTrees(func(t *tree.Tree, err error) {
				recs = append(recs, rec{id, "", t, err})
				id++
			})
		})
		if g.class != "ok" {
			recs = nil
		}
		add(epObs("phyloxml.Parser.Parse+IterateTrees", g, env.items(recs)))
		if g.class == "ok" {
			e, _ := env.single("utils.ReadTreeReader(phyloxml)", func(r io.Reader) (*tree.Tree, error) {
				return utils.ReadTreeReader(bufio.NewReader(r), utils.FORMAT_PHYLOXML)
			})
			add(e)
			add(env.multi("utils.ReadMultiTrees(phyloxml)", utils.FORMAT_PHYLOXML))
		} else {
			add(epObs("utils.ReadMultiTrees(phyloxml)", guardRes{g.class, "not run: its reader goroutine would have ended the process (" + g.msg + ")"}, nil))
		}
	case "nextstrain":
		var recs []rec
		g := env.guard(func(r io.Reader) {
			n, err := nextstrain.NewParser(r).Parse()
			if err != nil {
				recs = []rec{{0, "", nil, err}}
				return
			}
			n.IterateTrees(func(t *tree.Tree, err error) {
				recs = append(recs, rec{0, "", t, err})
			})
		})
		if g.class != "ok" {
			recs = nil
		}
		add(epObs("nextstrain.Parser.Parse+IterateTrees", g, env.items(recs)))
		if g.class == "ok" {
			e, _ := env.single("utils.ReadTreeReader(nextstrain)", func(r io.Reader) (*tree.Tree, error) {
				return utils.ReadTreeReader(bufio.NewReader(r), utils.FORMAT_NEXTSTRAIN)
			})
			add(e)
			add(env.multi("utils.ReadMultiTrees(nextstrain)", utils.FORMAT_NEXTSTRAIN))
		} else {
			add(epObs("utils.ReadMultiTrees(nextstrain)", guardRes{g.class, "not run: its reader goroutine would have ended the process (" + g.msg + ")"}, nil))
		}
	default:
		return L(KV("bad", A("unknown fmt")))
	}
	return L(KV("utf8", B(utf8.ValidString(env.text))), KV("eps", eps))
}
