package main

import (
	"bufio"
	"errors"
	"fmt"
	"io"
	"log"
	"os"
	"os/exec"
	"runtime"
	"strconv"
	"strings"
	"sync"
	"sync/atomic"
	"syscall"
	"time"
	"unicode/utf8"

	"github.com/evolbioinfo/gotree/io/fileutils"
	"github.com/evolbioinfo/gotree/io/newick"
	"github.com/evolbioinfo/gotree/io/nextstrain"
	"github.com/evolbioinfo/gotree/io/nexus"
	"github.com/evolbioinfo/gotree/io/phyloxml"
	"github.com/evolbioinfo/gotree/io/utils"
	"github.com/evolbioinfo/gotree/tree"
)

func init() {
	register("C02", c02)
	if os.Getenv("C02_CHILD") == "" {
		return
	}
	// Child mode (see c02 below).  A reader that sizes an allocation from a number found in the
	// input must not be able to take the machine down: the address space of the child process
	// is capped (4 GiB, or C02_AS_LIMIT_MB).  A runaway allocation then ends the child with
	// "fatal error: out of memory" (not recoverable in Go); the parent reports that for the case.
	mb := uint64(4096)
	if v := os.Getenv("C02_AS_LIMIT_MB"); v != "" {
		if x, err := strconv.ParseUint(v, 10, 64); err == nil {
			mb = x
		}
	}
	if mb > 0 {
		lim := syscall.Rlimit{Cur: mb << 20, Max: mb << 20}
		_ = syscall.Setrlimit(syscall.RLIMIT_AS, &lim)
	}
}

// The handler runs in two processes.  The worker started by the driver (parent) hands every
// case to a child process (the same binary with C02_CHILD=1, kept alive from case to case,
// address space capped) and relays its observation.  When the child dies -- fatal error of the
// Go runtime (out of memory, stack exhaustion, a panic in a goroutine of the code under test)
// -- or does not answer, the parent reports exactly this case as
//	((name "process") (class panic|hang) (msg "the reader process died: ..."))
// and starts a new child for the next case: the worker itself never dies.
type c02child struct {
	cmd    *exec.Cmd
	in     io.WriteCloser
	out    *bufio.Reader
	errbuf *c02tail
}

type c02tail struct {
	mu  sync.Mutex
	buf []byte
}

func (t *c02tail) Write(p []byte) (int, error) {
	t.mu.Lock()
	if len(t.buf) < 1<<16 {
		t.buf = append(t.buf, p...)
	}
	t.mu.Unlock()
	return len(p), nil
}
func (t *c02tail) reset() { t.mu.Lock(); t.buf = t.buf[:0]; t.mu.Unlock() }
func (t *c02tail) fatal() string {
	t.mu.Lock()
	defer t.mu.Unlock()
	for _, l := range strings.Split(string(t.buf), "\n") {
		if strings.HasPrefix(l, "fatal error:") || strings.HasPrefix(l, "runtime: out of memory") ||
			strings.HasPrefix(l, "panic:") || strings.HasPrefix(l, "runtime: goroutine stack exceeds") {
			return l
		}
	}
	return "no message"
}

var c02kid *c02child

func c02start() (*c02child, error) {
	cmd := exec.Command(os.Args[0])
	cmd.Env = append(os.Environ(), "C02_CHILD=1")
	in, err := cmd.StdinPipe()
	if err != nil {
		return nil, err
	}
	out, err := cmd.StdoutPipe()
	if err != nil {
		return nil, err
	}
	tail := &c02tail{}
	cmd.Stderr = tail
	if err := cmd.Start(); err != nil {
		return nil, err
	}
	return &c02child{cmd: cmd, in: in, out: bufio.NewReaderSize(out, 1<<20), errbuf: tail}, nil
}

func (k *c02child) stop() {
	k.in.Close()
	if k.cmd.Process != nil {
		k.cmd.Process.Kill()
	}
	k.cmd.Wait()
}

func c02died(text, class, why string) *Sexp {
	return L(KV("utf8", B(utf8.ValidString(text))),
		KV("eps", L(epObs("process", guardRes{class, why}, nil))))
}

func c02parent(c *Sexp, text string) *Sexp {
	if c02kid == nil {
		k, err := c02start()
		if err != nil {
			return L(KV("bad", A("cannot start the reader process: "+err.Error())))
		}
		c02kid = k
	}
	k := c02kid
	k.errbuf.reset()
	limit := 60 * time.Second
	if c.Get("timeout_ms") != nil {
		limit += 12 * time.Duration(c.Int("timeout_ms")) * time.Millisecond
	}
	type ans struct {
		line string
		err  error
	}
	ch := make(chan ans, 1)
	go func() {
		if _, err := io.WriteString(k.in, "C02\t0\t"+c.String()+"\n"); err != nil {
			ch <- ans{"", err}
			return
		}
		line, err := k.out.ReadString('\n')
		ch <- ans{line, err}
	}()
	select {
	case a := <-ch:
		if a.err == nil {
			parts := strings.SplitN(strings.TrimRight(a.line, "\n"), "\t", 2)
			if len(parts) == 2 {
				if o, perr := ParseSexp(parts[1]); perr == nil {
					return o
				}
			}
			k.stop()
			c02kid = nil
			return L(KV("bad", A("unreadable answer of the reader process")))
		}
		// the child is gone
		k.cmd.Wait()
		msg := k.errbuf.fatal()
		c02kid = nil
		return c02died(text, "panic", "the reader process died: "+msg)
	case <-time.After(limit):
		k.stop()
		c02kid = nil
		return c02died(text, "hang", fmt.Sprintf("the reader process did not answer within %v", limit))
	}
}

// C02: tree readers are total.
//
//	case: ((fmt newick|multi|nexus|phyloxml|nextstrain) (text "bytes") (timeout_ms n) (eofcap n) (dumpmax n))
//	obs : ((utf8 T|F) (eps (EP ...)))
//	EP  : ((name "entry point") (class ok|panic|hang) (msg "...") (items (ITEM ...)))
//	ITEM: ((id n) (err "message"))                                     an error record / error result
//	      ((id n) (err "") (name "tree name") (nwk "newick") (use "" | "what crashed")
//	       (nodes n) [(tree T) (audit (...))])                          a delivered tree
//
// Every entry point runs in its own goroutine under recover, with a watchdog.  A goroutine
// cannot be killed, so the input reader cooperates: once the watchdog has fired (or once the
// code under test has read past the end of the input more than eofcap times, which no
// terminating reader of a finite input does) its Read method ends the goroutine.  The reader
// goroutine of utils.ReadMultiTrees cannot be put under recover: the loop it runs for Newick
// streams is replicated here (same calls: fileutils.ReadUntilSemiColon, newick Parse), and
// the real function is only called when the replica neither panicked nor hung, so that the
// worker process survives and reports which entry point would have died.

type capReader struct {
	data      []byte
	pos       int
	eofReads  int64
	eofCap    int64
	abandoned *int32
	hangCh    chan int64
}

// Read may be called from a goroutine of the code under test (utils.ReadMultiTrees): it
// never panics; to stop a runaway caller it ends the calling goroutine.
func (r *capReader) Read(p []byte) (int, error) {
	if atomic.LoadInt32(r.abandoned) != 0 {
		runtime.Goexit()
	}
	if r.pos >= len(r.data) {
		r.eofReads++
		if r.eofCap > 0 && r.eofReads > r.eofCap {
			select {
			case r.hangCh <- r.eofReads:
			default:
			}
			runtime.Goexit()
		}
		return 0, io.EOF
	}
	n := copy(p, r.data[r.pos:])
	r.pos += n
	return n, nil
}

type c02env struct {
	text    string
	data    []byte
	timeout time.Duration
	eofCap  int64
	dumpMax int
}

type guardRes struct {
	class string // ok | panic | hang
	msg   string
}

// guard runs f(reader) in a goroutine under recover and the watchdog.
func (env *c02env) guardData(data []byte, f func(r io.Reader)) guardRes {
	var abandoned int32
	rd := &capReader{data: data, eofCap: env.eofCap, abandoned: &abandoned, hangCh: make(chan int64, 1)}
	done := make(chan guardRes, 1)
	go func() {
		finished := false
		defer func() {
			if rec := recover(); rec != nil {
				done <- guardRes{"panic", fmt.Sprintf("%v", rec)}
			} else if !finished {
				// runtime.Goexit from the reader
				select {
				case done <- guardRes{"hang", "stopped by the input reader"}:
				default:
				}
			}
		}()
		f(rd)
		finished = true
		done <- guardRes{"ok", ""}
	}()
	select {
	case n := <-rd.hangCh:
		atomic.StoreInt32(&abandoned, 1)
		return guardRes{"hang", fmt.Sprintf("more input requested %d times after the end of the input", n)}
	case r := <-done:
		if r.class == "hang" {
			select {
			case n := <-rd.hangCh:
				r.msg = fmt.Sprintf("more input requested %d times after the end of the input", n)
			default:
			}
		}
		return r
	case <-time.After(env.timeout):
		atomic.StoreInt32(&abandoned, 1)
		return guardRes{"hang", fmt.Sprintf("no result after %v", env.timeout)}
	}
}

func (env *c02env) guard(f func(r io.Reader)) guardRes { return env.guardData(env.data, f) }

// guardPlain: the same for code that does not read the input (tree traversals).
func (env *c02env) guardPlain(f func()) guardRes {
	return env.guardData(nil, func(io.Reader) { f() })
}

// useTree traverses, indexes and writes a delivered tree; returns the item.
func (env *c02env) treeItem(id int, name string, t *tree.Tree) *Sexp {
	it := L(KV("id", I(id)), KV("err", A("")), KV("name", A(name)))
	if t == nil {
		it.List = append(it.List, KV("nwk", A("")), KV("use", A("nil tree delivered without an error")), KV("nodes", I(0)))
		return it
	}
	nwk := ""
	nnodes := 0
	use := ""
	step := func(what string, f func()) {
		if use != "" {
			return
		}
		r := env.guardPlain(f)
		if r.class != "ok" {
			use = r.class + " in " + what + ": " + r.msg
		}
	}
	step("Nodes()", func() { nnodes = len(t.Nodes()) })
	step("Edges()", func() { _ = t.Edges() })
	step("Tips()", func() { _ = t.Tips() })
	step("Newick()", func() { nwk = t.Newick() })
	// traversals that index slices by node / branch id (ids are handed out by the reader)
	step("PreOrder()", func() { t.PreOrder(func(cur, prev *tree.Node, e *tree.Edge) bool { return true }) })
	step("PostOrder()", func() { t.PostOrder(func(cur, prev *tree.Node, e *tree.Edge) bool { return true }) })
	step("NodeRootDistance()", func() { _ = t.NodeRootDistance() })
	step("LTT()", func() { _ = t.LTT() })
	step("CutEdgesMaxLength()", func() { _, _ = t.CutEdgesMaxLength(0.5) })
	step("SortedTips()", func() { _ = t.SortedTips() })
	var d, audit *Sexp
	if use == "" && nnodes <= env.dumpMax {
		step("dump", func() { d, audit = ObserveTree(t) })
	}
	var reinitErr error = errors.New("not run")
	step("ReinitIndexes()", func() { reinitErr = t.ReinitIndexes() })
	step("Newick() after ReinitIndexes()", func() { _ = t.Newick() })
	step("NodeRootDistance() after ReinitIndexes()", func() { _ = t.NodeRootDistance() })
	if nnodes <= 200 {
		step("ToDistanceMatrix()", func() { _, _ = t.ToDistanceMatrix(0) })
		if reinitErr == nil {
			// Quartets() ends the process (io.ExitWithMessage) when a tip has no index, so it is
			// only called when the tip index was built
			step("Quartets()", func() { t.Quartets(false, func(q *tree.Quartet) {}) })
		}
	}
	it.List = append(it.List, KV("nwk", A(nwk)), KV("use", A(use)), KV("nodes", I(nnodes)))
	if d != nil && audit != nil {
		it.List = append(it.List, KV("tree", d), KV("audit", audit))
	}
	return it
}

func errItem(id int, err error) *Sexp { return L(KV("id", I(id)), KV("err", A(errStr(err)))) }

func epObs(name string, r guardRes, items *Sexp) *Sexp {
	if items == nil {
		items = L()
	}
	return L(KV("name", A(name)), KV("class", A(r.class)), KV("msg", A(r.msg)), KV("items", items))
}

type rec struct {
	id   int
	name string
	t    *tree.Tree
	err  error
}

func (env *c02env) items(recs []rec) *Sexp {
	l := L()
	for _, r := range recs {
		if r.err != nil {
			l.List = append(l.List, errItem(r.id, r.err))
		} else {
			l.List = append(l.List, env.treeItem(r.id, r.name, r.t))
		}
	}
	return l
}

// single runs a single-tree entry point (tree, error).
func (env *c02env) single(name string, f func(r io.Reader) (*tree.Tree, error)) (*Sexp, guardRes) {
	var recs []rec
	g := env.guard(func(r io.Reader) {
		t, err := f(r)
		recs = []rec{{0, "", t, err}}
	})
	if g.class != "ok" {
		recs = nil
	}
	return epObs(name, g, env.items(recs)), g
}

// multi consumes the channel of utils.ReadMultiTrees.
func (env *c02env) multi(name string, format int) *Sexp {
	var recs []rec
	g := env.guard(func(r io.Reader) {
		for t := range utils.ReadMultiTrees(bufio.NewReader(r), format) {
			recs = append(recs, rec{t.Id, "", t.Tree, t.Err})
		}
	})
	return epObs(name, g, env.items(recs))
}

func c02(c *Sexp) *Sexp {
	log.SetOutput(io.Discard)
	v := c.Get("text")
	if v == nil || v.IsList {
		return L(KV("bad", A("no text")))
	}
	if os.Getenv("C02_CHILD") == "" {
		return c02parent(c, v.Atom)
	}
	if c.Str("fmt") == "chan" {
		return c02chan(c, v.Atom)
	}
	env := &c02env{text: v.Atom, data: []byte(v.Atom), timeout: 5 * time.Second, eofCap: 2000000, dumpMax: 20000}
	if c.Get("timeout_ms") != nil {
		env.timeout = time.Duration(c.Int("timeout_ms")) * time.Millisecond
	}
	if c.Get("eofcap") != nil {
		env.eofCap = int64(c.Int("eofcap"))
	}
	if c.Get("dumpmax") != nil {
		env.dumpMax = c.Int("dumpmax")
	}
	eps := L()
	add := func(e *Sexp) { eps.List = append(eps.List, e) }
	switch c.Str("fmt") {
	case "newick":
		e, g := env.single("newick.Parser.Parse", func(r io.Reader) (*tree.Tree, error) { return newick.NewParser(r).Parse() })
		add(e)
		if g.class == "ok" {
			e, _ = env.single("utils.ReadTreeReader(newick)", func(r io.Reader) (*tree.Tree, error) {
				return utils.ReadTreeReader(bufio.NewReader(r), utils.FORMAT_NEWICK)
			})
			add(e)
		}
	case "multi":
		// the loop of the reader goroutine of utils.ReadMultiTrees(FORMAT_NEWICK), under recover
		var recs []rec
		g := env.guard(func(r io.Reader) {
			reader := bufio.NewReader(r)
			id := 0
			line, e := fileutils.ReadUntilSemiColon(reader)
			if e != nil {
				recs = append(recs, rec{id, "", nil, e})
			}
			for e == nil {
				t, err := newick.NewParser(strings.NewReader(line)).Parse()
				if err != nil {
					recs = append(recs, rec{id, "", nil, err})
					break
				}
				recs = append(recs, rec{id, "", t, nil})
				id++
				line, e = fileutils.ReadUntilSemiColon(reader)
			}
		})
		add(epObs("ReadMultiTrees(newick) reader loop", g, env.items(recs)))
		if g.class == "ok" {
			add(env.multi("utils.ReadMultiTrees(newick)", utils.FORMAT_NEWICK))
		} else {
			add(epObs("utils.ReadMultiTrees(newick)", guardRes{g.class, "not run: its reader goroutine would have ended the process (" + g.msg + ")"}, nil))
		}
	case "nexus":
		var recs []rec
		g := env.guard(func(r io.Reader) {
			n, err := nexus.NewParser(r).Parse()
			if err != nil {
				recs = []rec{{0, "", nil, err}}
				return
			}
			id := 0
			n.IterateTrees(func(name string, t *tree.Tree) {
				recs = append(recs, rec{id, name, t, nil})
				id++
			})
		})
		if g.class != "ok" {
			recs = nil
		}
		add(epObs("nexus.Parser.Parse", g, env.items(recs)))
		if g.class == "ok" {
			e, _ := env.single("utils.ReadTreeReader(nexus)", func(r io.Reader) (*tree.Tree, error) {
				return utils.ReadTreeReader(bufio.NewReader(r), utils.FORMAT_NEXUS)
			})
			add(e)
			add(env.multi("utils.ReadMultiTrees(nexus)", utils.FORMAT_NEXUS))
		} else {
			add(epObs("utils.ReadMultiTrees(nexus)", guardRes{g.class, "not run: its reader goroutine would have ended the process (" + g.msg + ")"}, nil))
		}
	case "phyloxml":
		var recs []rec
		g := env.guard(func(r io.Reader) {
			p, err := phyloxml.NewParser(r).Parse()
			if err != nil {
				recs = []rec{{0, "", nil, err}}
				return
			}
			id := 0
			p.IterateTrees(func(t *tree.Tree, err error) {
				recs = append(recs, rec{id, "", t, err})
				id++
			})
		})
		if g.class != "ok" {
			recs = nil
		}
		add(epObs("phyloxml.Parser.Parse+IterateTrees", g, env.items(recs)))
		if g.class == "ok" {
			e, _ := env.single("utils.ReadTreeReader(phyloxml)", func(r io.Reader) (*tree.Tree, error) {
				return utils.ReadTreeReader(bufio.NewReader(r), utils.FORMAT_PHYLOXML)
			})
			add(e)
			add(env.multi("utils.ReadMultiTrees(phyloxml)", utils.FORMAT_PHYLOXML))
		} else {
			add(epObs("utils.ReadMultiTrees(phyloxml)", guardRes{g.class, "not run: its reader goroutine would have ended the process (" + g.msg + ")"}, nil))
		}
	case "nextstrain":
		var recs []rec
		g := env.guard(func(r io.Reader) {
			n, err := nextstrain.NewParser(r).Parse()
			if err != nil {
				recs = []rec{{0, "", nil, err}}
				return
			}
			n.IterateTrees(func(t *tree.Tree, err error) {
				recs = append(recs, rec{0, "", t, err})
			})
		})
		if g.class != "ok" {
			recs = nil
		}
		add(epObs("nextstrain.Parser.Parse+IterateTrees", g, env.items(recs)))
		if g.class == "ok" {
			e, _ := env.single("utils.ReadTreeReader(nextstrain)", func(r io.Reader) (*tree.Tree, error) {
				return utils.ReadTreeReader(bufio.NewReader(r), utils.FORMAT_NEXTSTRAIN)
			})
			add(e)
			add(env.multi("utils.ReadMultiTrees(nextstrain)", utils.FORMAT_NEXTSTRAIN))
		} else {
			add(epObs("utils.ReadMultiTrees(nextstrain)", guardRes{g.class, "not run: its reader goroutine would have ended the process (" + g.msg + ")"}, nil))
		}
	default:
		return L(KV("bad", A("unknown fmt")))
	}
	return L(KV("utf8", B(utf8.ValidString(env.text))), KV("eps", eps))
}
