module verif/harness

go 1.21.6

require (
	github.com/evolbioinfo/goalign v0.3.7-0.20230906113011-fcecb09f9d43
	github.com/evolbioinfo/gotree v0.0.0
	github.com/fredericlemoine/gostats v0.1.1
	github.com/spf13/cobra v1.5.0
	github.com/spf13/pflag v1.0.5
)

require (
	git.sr.ht/~sbinet/gg v0.5.0 // indirect
	github.com/abiosoft/ishell v2.0.0+incompatible // indirect
	github.com/abiosoft/readline v0.0.0-20180607040430-155bce2042db // indirect
	github.com/ajstarks/svgo v0.0.0-20211024235047-1546f124cd8b // indirect
	github.com/armon/go-radix v1.0.0 // indirect
	github.com/fatih/color v1.10.0 // indirect
	github.com/flynn-archive/go-shlex v0.0.0-20150515145356-3f9db97f8568 // indirect
	github.com/fredericlemoine/bitset v1.2.0 // indirect
	github.com/fredericlemoine/cobrashell v0.0.0-20180921081141-49c72f93426c // indirect
	github.com/go-fonts/liberation v0.3.1 // indirect
	github.com/go-latex/latex v0.0.0-20230307184459-12ec69307ad9 // indirect
	github.com/go-pdf/fpdf v0.8.0 // indirect
	github.com/golang/freetype v0.0.0-20170609003504-e2365dfdc4a0 // indirect
	github.com/jlaffaye/ftp v0.0.0-20210307004419-5d4190119067 // indirect
	github.com/llgcode/draw2d v0.0.0-20210313082411-577c1ead272a // indirect
	github.com/mattn/go-colorable v0.1.8 // indirect
	github.com/mattn/go-isatty v0.0.12 // indirect
	golang.org/x/image v0.11.0 // indirect
	golang.org/x/sys v0.11.0 // indirect
	golang.org/x/text v0.12.0 // indirect
	gonum.org/v1/plot v0.14.0 // indirect
)

replace github.com/evolbioinfo/gotree => /repo
