module verif/harness

go 1.21.6

require github.com/evolbioinfo/gotree v0.0.0

require (
	github.com/fredericlemoine/bitset v1.2.0 // indirect
	github.com/fredericlemoine/gostats v0.1.1 // indirect
)

replace github.com/evolbioinfo/gotree => /repo
