(* Unverified glue: text <-> sexp, dispatch to the extracted judges.
   Input lines:   PROP \t CASEID \t CASE-SEXP \t OBS-SEXP
   Output lines:  CASEID \t (OK nontrivial tag | CORR msg | ORACLE msg | BAD msg)       *)
open Judge

let explode (s : string) : char list = List.init (String.length s) (String.get s)
let implode (l : char list) : string = String.of_seq (List.to_seq l)

exception Parse_error of string

let parse_sexp (s : string) : sexp =
  let n = String.length s in
  let pos = ref 0 in
  let rec skip () = if !pos < n && (s.[!pos] = ' ' || s.[!pos] = '\n' || s.[!pos] = '\r') then (incr pos; skip ()) in
  let rec item () : sexp =
    skip ();
    if !pos >= n then raise (Parse_error "eof");
    match s.[!pos] with
    | '(' ->
      incr pos;
      let items = ref [] in
      let rec loop () =
        skip ();
        if !pos >= n then raise (Parse_error "unterminated list");
        if s.[!pos] = ')' then incr pos
        else (items := item () :: !items; loop ()) in
      loop ();
      SList (List.rev !items)
    | ')' -> raise (Parse_error "unexpected )")
    | '"' ->
      incr pos;
      let b = Buffer.create 16 in
      let rec loop () =
        if !pos >= n then raise (Parse_error "unterminated string");
        let c = s.[!pos] in
        if c = '"' then incr pos
        else if c = '\\' then begin
          if !pos + 1 >= n then raise (Parse_error "bad escape");
          let d = s.[!pos + 1] in
          (match d with
           | 'n' -> Buffer.add_char b '\n'
           | 't' -> Buffer.add_char b '\t'
           | 'r' -> Buffer.add_char b '\r'
           | 'x' ->
             if !pos + 3 >= n then raise (Parse_error "bad hex escape");
             Buffer.add_char b (Char.chr (int_of_string ("0x" ^ String.sub s (!pos + 2) 2)));
             pos := !pos + 2
           | _ -> Buffer.add_char b d);
          pos := !pos + 2; loop ()
        end else (Buffer.add_char b c; incr pos; loop ()) in
      loop ();
      Atom (explode (Buffer.contents b))
    | _ ->
      let start = !pos in
      while !pos < n && not (List.mem s.[!pos] [' '; '('; ')'; '"'; '\n'; '\r']) do incr pos done;
      Atom (explode (String.sub s start (!pos - start))) in
  let r = item () in
  skip ();
  if !pos <> n then raise (Parse_error "trailing input");
  r

let clean (l : char list) : string =
  String.map (fun c -> if c = '\t' || c = '\n' || c = '\r' then ' ' else c) (implode l)

let show_verdict = function
  | VOk (nt, tag) -> Printf.sprintf "OK\t%s\t%s" (if nt then "1" else "0") (clean tag)
  | VCorr m -> "CORR\t" ^ clean m
  | VOracle m -> "ORACLE\t" ^ clean m
  | VBad m -> "BAD\t" ^ clean m

let () =
  let table = List.map (fun (k, f) -> (implode k, f)) judges in
  try
    while true do
      let line = input_line stdin in
      match String.split_on_char '\t' line with
      | [prop; id; c; o] ->
        let v =
          match List.assoc_opt prop table with
          | None -> "BAD\tno judge for " ^ prop
          | Some f ->
            (try show_verdict (f (parse_sexp c) (parse_sexp o))
             with Parse_error m -> "BAD\tsexp: " ^ m
                | Stack_overflow -> "BAD\tstack overflow in judge") in
        print_string (id ^ "\t" ^ v ^ "\n")
      | _ -> print_string ("?\tBAD\tmalformed line\n")
    done
  with End_of_file -> ()
