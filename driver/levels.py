"""Per-property statement of the level claimed (used by manifest_gen.py when the property module gives none)."""
COMMON_NOTE = ("Trusted: Coq 8.16.1 kernel and vm_compute (no native_compute, no axioms: every Print Assumptions says 'Closed under the "
               "global context'); extraction (ExtrOcamlBasic, ExtrOcamlString, no Extract Constant) + ocaml/main.ml glue; the Go worker, "
               "its tree builder/dumper through the add-only verif hooks, the Python driver. The theorems are about the Gallina model; the "
               "model is tied to /repo's working tree on every run by the correspondence check (extracted model and real code on the same "
               "cases, exact structural comparison) and the extracted specification judges the real output directly. ")
TEXT = {
 "C01": ("Theorems for ALL trees in the property's quantifier (boolean transcription wfN): parse (write t) succeeds, gives the same rooted "
         "ordered tree with every name, length, support, p-value and comment, and writes back byte-identically; the parser never exhausts its "
         "fuel on any byte string. Proved over an abstract strconv with stated round-trip hypotheses and instantiated with an executable "
         "strconv model (shortest round-trip formatting, correctly rounded parsing). The writer, lexer and stack-machine parser models are "
         "compared with the Go code on well-formed trees, malformed texts and raw byte strings (text byte for byte, parsed structure exactly)."),
 "C02": ("Theorems for ALL byte strings: the multi-tree splitter never indexes out of range and always terminates, every Nexus scanner/parser "
         "loop consumes input or stops (nexus_parse never runs out of its fuel and never reaches a modelled panic), Newick parsing terminates, "
         "clade conversion is total and delivers well-formed trees. The reader models are compared record by record with the Go readers on "
         "valid documents of all five formats and their truncations, splices and mutations, each run under a watchdog with every delivered tree "
         "traversed, indexed and written."),
 "C03": ("Theorems for ALL well-formed trees: branches = nodes - 1, all branches = internal + external ones, external branches = tips; every "
         "operation's model preserves well-formedness (history theorem composed from the per-operation lemmas). Histories of 1-12 real edits on "
         "one tree object are replayed on the models step by step with exact structural comparison, a pointer-level audit of the Go tree "
         "(symmetric adjacency, orientation, acyclicity, enumerations) and a re-read of the Newick text by the reference parser."),
 "C04": ("Theorems for ALL good trees / key types / capacities / histories: the recomputed bitsets, tip counts, depths and additive hashes "
         "describe the split cut by each branch; equal-or-complement holds exactly for equal splits and equal splits hash equally whatever the "
         "rooting, orientation or child order; the open-hashing map and the split index behave as an association list through any sequence of "
         "insertions, counts, look-ups and resizes for every capacity and resize policy; equal quartets hash equally. Index tables, edit "
         "histories, map histories and all 24x24 quartet presentations are compared with the Go code."),
 "C05": ("Theorems for ALL well-formed trees: re-rooting at any node, unrooting, rotating (every choice vector) and sorting children preserve "
         "well-formedness, the tip multiset, every tip-to-tip path length (any weight) and the unrooted splits with their branch data; rooting on "
         "an outgroup keeps all of that, puts an outgroup that is one side of a split exactly below one root child with the separating branch "
         "halved, refuses a non-monophyletic outgroup in strict mode and otherwise keeps it inside one root clade; midpoint rooting puts the "
         "root at half the diameter from both ends of a longest path (correctness of the longest-path search proved). Exact structural "
         "correspondence with Reroot/UnRoot/RotateInternalNodes/SortNeighborsByTips/RerootOutGroup/RerootMidPoint."),
 "C07": ("Theorems for ALL trees and selections: collapse keeps well-formedness, the tips, every unselected branch with its data and never "
         "removes a tip branch; the set of remaining branches is exactly the input minus the selected inner branches (unrooted trees, and the "
         "non-root branches of rooted ones); resolving (every choice vector) yields degree <= 3 everywhere, keeps every original branch with "
         "its data and every path length, and only adds zero-length branches without support."),
 "C08": ("Theorems for ALL pairs of trees on the same distinct taxa with root degree >= 3: the model's counts are the sizes of the set "
         "differences and intersection of the split sets (tip branches counted on request), identical iff both only-counts are zero, swapping "
         "swaps, weighted terms are the length differences of shared splits and the lengths of unshared ones, differing taxa give an error. "
         "Exact correspondence with tree.Compare / tree.CompareWeighted."),
 "C09": ("Theorems for ALL collections: the selected set is {count/n > cutoff or count = n} with counts per tree on the unrooted form of each "
         "input, supports are the frequencies and lengths the means over the trees containing the split, counts are invariant under permutation "
         "of the inputs; cutoffs outside [0.5,1] and differing taxa are errors. The binary64 comparison count/n > cutoff is modelled with Coq's "
         "primitive floats. Correspondence with tree.Consensus on collections with frequencies exactly at the threshold, rooted inputs, "
         "shuffled orders."),
 "C10": ("Theorems for ALL references and collections on the same taxa: the post-order recursion computes the minimum transfer distance of "
         "its definition, FBP and TBE of the model equal their definitions (branches with a light side of >= 2 taxa), both lie in [0,1], "
         "TBE >= FBP, TBE = 1 iff FBP = 1 iff the split is in every tree, independence of bootstrap order, rooting and child order, tip "
         "branches get no support, other taxa are rejected. Correspondence with support.FBP / support.TBE."),
 "C13": ("Theorems: PhyloXML clade writing then conversion gives back the tree up to what the format carries; identifiers are consecutive and "
         "in file order for every multi-tree reader model; first-tree = head of the iteration for PhyloXML, Nexus and Nextstrain. The Nexus "
         "writer/parser, PhyloXML clade and multi-Newick models are compared with the Go code (Nexus text byte for byte, parsed trees "
         "exactly) on conversion chains through the library."),
}
NOTE = {
 "C01": "Modelled, not verified: strconv (an executable model of FormatFloat/ParseFloat is cross-checked on 30 000 texts), bufio. Names and comments are valid UTF-8 without NUL (DESIGN 3.3).",
 "C03": "Partial: pointer-level facts of the implementation (symmetric adjacency, shared edge objects, acyclicity) are not expressible in the inductive model; they are audited on the Go side after every step of every history.",
 "C04": "Modelled, not verified: the bitset dependency (finite bit vector, probed at 63/64/65/128/129 tips), hash/fnv (FNV-1a 64 re-implemented in Gallina and compared).",
 "C05": "Rounding of float64 halves/sums is outside the model (generators use dyadic rationals so that Go's arithmetic is exact).",
 "C07": "The exact-set claim is proved for unrooted trees without single-child nodes and for the non-root branches of rooted trees, as in the property.",
 "C08": "Threads are not part of this property (C11); the model is the cpus=1 semantics. Hash-index behaviour is taken from C04's refinement theorem.",
 "C09": "Partial: that the tree built by AddBipartition has exactly the selected splits is checked by correspondence and oracle, not proved. Primitive float axioms of the standard library are used only to RUN count/n > cutoff.",
 "C10": "Branches whose light side has one taxon (root branch beside a root tip of a rooted reference) are an open known finding; hash codes are taken as consistent (C04).",
}
