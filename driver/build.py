"""Build steps shared by every check: translator, Coq development, extraction, OCaml judge, Go worker.
All of it is rebuilt (incrementally) from /repo's working tree and /verif's sources on every run,
under an exclusive lock so that checks started in parallel do not collide."""
import os, subprocess, fcntl, glob, time, sys, shutil

VERIF = os.path.dirname(os.path.dirname(os.path.abspath(__file__)))
# Normal mode: the repository under test is /repo.  For evaluating seeded changes without
# disturbing other work, VERIF_REPO=<worktree> runs the same pipeline against another checkout,
# with its own build directory, its own copy of the Coq tree (Gen/ is regenerated there) and its
# own evidence/replay directories under build/alt-*/.
REPO = os.environ.get("VERIF_REPO", "/repo")
ALT = REPO != "/repo"
if ALT:
    import hashlib as _h
    BUILD = os.path.join(VERIF, "build", "alt-" + _h.sha1(REPO.encode()).hexdigest()[:8])
    COQ = os.path.join(BUILD, "coq")
    HARNESS = os.path.join(BUILD, "harness")
    OUTDIR = BUILD
else:
    BUILD = os.path.join(VERIF, "build")
    COQ = os.path.join(VERIF, "coq")
    HARNESS = os.path.join(VERIF, "harness")
    OUTDIR = VERIF
GOENV = dict(os.environ, GOFLAGS="-mod=mod", GOPROXY="off", GOSUMDB="off", GOTOOLCHAIN="local")
# VERIF_COVER=1 (tools/coverage.py only, never a registered check): the workers and the gotree binary are built with
# Go's statement-coverage instrumentation of every package of the repository; GOCOVERDIR receives the counters.
COVER_FLAGS = ["-cover", "-coverpkg=github.com/evolbioinfo/gotree/..."] if os.environ.get("VERIF_COVER") else []
COQ_DIRS = ["Base", "Spec", "Model", "Gen", "Proofs", "Properties", "Judge"]

def sh(cmd, cwd=None, timeout=1800, env=None):
    p = subprocess.run(cmd, cwd=cwd, stdout=subprocess.PIPE, stderr=subprocess.STDOUT, timeout=timeout, env=env)
    return p.returncode, p.stdout.decode("utf-8", "replace")

def vfiles():
    r = []
    for d in COQ_DIRS:
        r += sorted(glob.glob(os.path.join(COQ, d, "**", "*.v"), recursive=True))
    return [os.path.relpath(f, COQ) for f in r]

def write_if_changed(path, content):
    if os.path.exists(path) and open(path).read() == content:
        return False
    os.makedirs(os.path.dirname(path), exist_ok=True)
    with open(path, "w") as f:
        f.write(content)
    return True

def built(vf):
    v = os.path.join(COQ, vf)
    vo = v + "o"
    return os.path.exists(vo) and os.path.getmtime(vo) >= os.path.getmtime(v)

def build_all(clean=False, verbose=False, only=None):
    os.makedirs(BUILD, exist_ok=True)
    lock = open(os.path.join(BUILD, ".lock"), "w")
    fcntl.flock(lock, fcntl.LOCK_EX)
    try:
        return _build_all(clean, verbose, only)
    finally:
        fcntl.flock(lock, fcntl.LOCK_UN)

def _build_all(clean, verbose, only=None):
    log = []
    st = {"tools_ok": True, "coq_ok": True, "coq_failed": [], "log": "", "gen_notes": []}
    def say(m):
        log.append(m)
        if verbose:
            print(m, flush=True)
    if ALT:
        os.makedirs(BUILD, exist_ok=True)
        sh(["rsync", "-a", "--delete", "--exclude", "Gen/*.v", os.path.join(VERIF, "coq") + "/", COQ + "/"])
        sh(["rsync", "-a", "--delete", os.path.join(VERIF, "harness") + "/", HARNESS + "/"])
        gm = open(os.path.join(HARNESS, "go.mod")).read().replace("=> /repo", "=> " + REPO)
        open(os.path.join(HARNESS, "go.mod"), "w").write(gm)
    # 0. Go workers (one binary per property, so that a handler that no longer compiles against /repo's
    #    working tree only breaks its own property) and translator
    shutil.copyfile(os.path.join(REPO, "go.sum"), os.path.join(HARNESS, "go.sum"))
    wdir = os.path.join(HARNESS, "worker")
    allgo = sorted(f for f in os.listdir(wdir) if f.endswith(".go") and not f.endswith("_test.go"))
    import re as _re
    shared = [f for f in allgo if not _re.match(r"c\d\d", f)]
    props = sorted(set(_re.match(r"(c\d\d)", f).group(1).upper() for f in allgo if _re.match(r"c\d\d", f)))
    if only:
        props = [p for p in props if p == only]
    st["worker_errors"] = {}
    def build_worker(p):
        files = shared + [f for f in allgo if f.startswith(p.lower())]
        return p, sh(["go", "build", "-tags", "verif"] + COVER_FLAGS + ["-o", os.path.join(BUILD, "worker-" + p)] + files, cwd=wdir, env=GOENV)
    from concurrent.futures import ThreadPoolExecutor
    with ThreadPoolExecutor(max_workers=8) as ex:
        for p, (rc, out) in ex.map(build_worker, props):
            say("go build worker-%s: rc=%d %s" % (p, rc, out[-3000:]))
            if rc != 0:
                st["worker_errors"][p] = out[-3000:]
                try:
                    os.remove(os.path.join(BUILD, "worker-" + p))
                except OSError:
                    pass
    tr = os.path.join(VERIF, "tools", "gotrans")
    if os.path.exists(os.path.join(tr, "main.go")):
        rc, out = sh(["go", "build", "-o", os.path.join(BUILD, "gotrans"), "."], cwd=tr, env=GOENV)
        say("go build gotrans: rc=%d %s" % (rc, out[-2000:]))
        if rc != 0:
            st["tools_ok"] = False
        else:
            rc, out = sh([os.path.join(BUILD, "gotrans"), "-repo", REPO, "-out", os.path.join(COQ, "Gen")], env=GOENV, timeout=600)
            say("gotrans: rc=%d %s" % (rc, out[-3000:]))
            if rc != 0:
                st["gen_notes"].append(out[-3000:])
    # 1. Coq
    if clean:
        for f in glob.glob(os.path.join(COQ, "**", "*.vo"), recursive=True) + \
                 glob.glob(os.path.join(COQ, "**", "*.vos"), recursive=True) + \
                 glob.glob(os.path.join(COQ, "**", "*.vok"), recursive=True) + \
                 glob.glob(os.path.join(COQ, "**", "*.glob"), recursive=True):
            os.remove(f)
    files = vfiles()
    head = open(os.path.join(COQ, "_CoqProject.head")).read()
    changed = write_if_changed(os.path.join(COQ, "_CoqProject"), head + "\n".join(files) + "\n")
    if changed or not os.path.exists(os.path.join(COQ, "Makefile")):
        rc, out = sh(["coq_makefile", "-f", "_CoqProject", "-o", "Makefile"], cwd=COQ)
        say("coq_makefile rc=%d" % rc)
    t0 = time.time()
    # every coqc under its own wall-clock limit and an address-space limit: one runaway file must not hold the
    # build lock (or exhaust memory) for everybody
    rc, out = sh(["bash", "-c", "ulimit -v 16000000; exec timeout 3000 make -k -j16 COQC='timeout 900 coqc'"], cwd=COQ, timeout=3100)
    say("coq make rc=%d (%.0fs)\n%s" % (rc, time.time() - t0, out[-6000:] if rc != 0 else ""))
    st["coq_failed"] = [f for f in files if not built(f)]
    st["coq_ok"] = not st["coq_failed"]
    st["coq_log"] = out[-20000:] if rc != 0 else ""
    # 2. extraction: one judge binary per property (a judge that no longer compiles, or whose
    #    dependencies are inconsistent, only breaks its own property)
    judges = [f for f in files if __import__("re").match(r"Judge/C\d+\.v$", f) and built(f)]
    names = [os.path.basename(f)[:-2] for f in judges]
    if only:
        names = [n for n in names if n == only]
    st["judge_errors"] = {}
    def build_judge(n):
        ex = os.path.join(BUILD, "extract-" + n)
        os.makedirs(ex, exist_ok=True)
        src = "From Coq Require Extraction ExtrOcamlBasic ExtrOcamlString.\nFrom Coq Require Import String List.\n"
        src += "From GT Require Base.Sexp Judge.%s.\nImport ListNotations.\n" % n
        src += "Definition judges : list (string * (Sexp.sexp -> Sexp.sexp -> Sexp.verdict)) :=\n  [(\"%s\"%%string, Judge.%s.judge)].\n" % (n, n)
        src += 'Extraction "judge.ml" judges.\n'
        judge_bin = os.path.join(BUILD, "judge-" + n)
        dep = os.path.join(COQ, "Judge", n + ".vo")
        newest = max(os.path.getmtime(dep), os.path.getmtime(os.path.join(VERIF, "ocaml", "main.ml")))
        need = write_if_changed(os.path.join(ex, "Extract.v"), src) or not os.path.exists(judge_bin) \
            or os.path.getmtime(judge_bin) < newest
        if not need:
            return n, 0, ""
        rc, out = sh(["coqc", "-Q", COQ, "GT", "Extract.v"], cwd=ex, timeout=900)
        if rc == 0:
            shutil.copyfile(os.path.join(VERIF, "ocaml", "main.ml"), os.path.join(ex, "main.ml"))
            rc, out = sh(["ocamlfind", "ocamlopt", "-w", "-a", "-O2", "judge.mli", "judge.ml", "main.ml", "-o", judge_bin + ".tmp"], cwd=ex, timeout=900)
            if rc == 0:
                os.replace(judge_bin + ".tmp", judge_bin)
        return n, rc, out[-2000:]
    from concurrent.futures import ThreadPoolExecutor as _TPE
    with _TPE(max_workers=8) as ex_:
        for n, rc, out in ex_.map(build_judge, names):
            if rc != 0:
                say("judge %s: extraction/ocamlopt rc=%d %s" % (n, rc, out))
                st["judge_errors"][n] = out
                try:
                    os.remove(os.path.join(BUILD, "judge-" + n))
                except OSError:
                    pass
    names = [n for n in names if n not in st["judge_errors"]]
    st["judges"] = names
    st["log"] = "\n".join(log)
    return st

def coqc_file(vf, timeout=600):
    """compile one file on its own (used to capture Print Assumptions output of Properties/Cxx.v)"""
    return sh(["coqc", "-Q", ".", "GT", "-w", "-notation-overridden,-deprecated-hint-without-locality,-deprecated-syntactic-definition", vf], cwd=COQ, timeout=timeout)
