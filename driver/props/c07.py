"""C07: collapse removes exactly the targeted branches; resolve only refines."""
from lib import *
import math
import copy

PROP = "C07"
PAR_OK = True
LEVEL = "proof"
RULE = ("random multifurcating trees (3..16 tips, 40 in thorough; rooted/unrooted; degrees up to 7; lengths all/mixed/none "
        "with zeros and absent values, supports all/mixed/none) x {collapse by length with threshold = a length present in "
        "the tree | 0 | a random dyadic | -1 | larger than all; collapse by support likewise; collapse by depth with every "
        "kind of interval (min<=max, min>max, 0, 1, n/2, beyond n); resolve with a recorded rand stream}; removeRoot and "
        "removeTips false (the commands' defaults, exact-set oracle) and the other flag values (correspondence, same tips, "
        "well-formed); supports and p-values on tip branches and p-values on inner branches in a share of the trees (collapse by support with thresholds around the tip supports, by length, by depth, resolve: no tip is removed, every branch keeps its length, support and p-value); negative lengths in a share of the trees (resolve: distances also compared with every present length read as itself; collapse by length); resolve (and collapse, correspondence only) on trees with single-child inner nodes - above polytomies, chains, under the root, the shape Reroot() leaves behind - with the oracle: such nodes stay and none is created, every node ends with at most 3 neighbours, input splits and distances kept; non-trivial = the structure changed; distinct = distinct case text.  Boundaries: thresholds are also drawn from {a length (support) of the tree, that value +- 2^-30, +- 2^-40, the next float64 above / below it, 0 with tiny positive lengths (2^-30, 2^-40, 2^-52) put on inner branches, a negative value}; some inner branches get the threshold +- a tiny dyadic as length (support); depth intervals are drawn around the depths present in the tree (d-1, d, d+1).  All values are exactly representable float64 and compared exactly (rationals) by the model and the oracle")
TRUSTED = ["tree built through NewNode/NewEdge + verif hooks (exact neighbour order); dump through Neigh()/Edges()/Left()/Right()"]
ASSUMPTIONS = ["math/rand: Intn/Int31n/Perm transcribed in Model/Rand.v; the recorded Int63 stream is what Resolve consumes"]
LEVEL_TEXT = "theorems in coq/Properties/C07.v about Model/Collapse.v; correspondence by exact structural equality with the Go result"
LEVEL_NOTE = ""

def edge_values(t, key):
    return [e[key] for x in preorder(t) for e, _ in kids(x) if e[key] is not None]


TINY = [Fraction(1, 2**30), Fraction(1, 2**40), Fraction(1, 2**52)]

def near(rng, x):
    """an exactly representable float64 at or just beside x"""
    x = Fraction(x)
    f = float(x)
    c = [x, x + TINY[0], x - TINY[0], x + TINY[1], x - TINY[1],
         Fraction(math.nextafter(f, math.inf)), Fraction(math.nextafter(f, -math.inf))]
    c = [y for y in c if Fraction(float(y)) == y]
    return rng.choice(c)

def inner_edges(t):
    return [e for x in preorder(t) for e, c in kids(x) if kids(c)]

def branch_depths(t):
    n = len(leaves(t))
    ds = []
    def walk(x):
        for _, c in kids(x):
            k = len(leaves(c))
            ds.append(min(k, n - k))
            walk(c)
    walk(t)
    return ds

def boundary_len_case(rng, t):
    """threshold and inner lengths a hair apart"""
    ie = [e for e in inner_edges(t) if e["len"] is not None]
    r = rng.random()
    if r < 0.35 or not ie:
        # threshold 0 (or a present value) and tiny positive inner lengths
        for e in rng.sample(inner_edges(t), min(len(inner_edges(t)), rng.randint(1, 3))):
            e["len"] = rng.choice(TINY)
        return rng.choice([Fraction(0), Fraction(0), rng.choice(TINY), -rng.choice(TINY)])
    base = rng.choice(ie)["len"]
    for e in rng.sample(inner_edges(t), min(len(inner_edges(t)), rng.randint(1, 3))):
        v = near(rng, base)
        if v >= 0:
            e["len"] = v
    return near(rng, base)

def boundary_sup_case(rng, t):
    ie = [e for e in inner_edges(t) if e["sup"] is not None]
    if not ie:
        return None
    base = rng.choice(ie)["sup"]
    for e in rng.sample(ie, min(len(ie), rng.randint(1, 3))):
        v = near(rng, base)
        if v >= 0:
            e["sup"] = v
    return near(rng, base)


def edges_pre(t):
    for e, c in kids(t):
        yield e, c
        yield from edges_pre(c)

def nonfinite_cases(rng, g, t, flags):
    """collapse by length / support where some branches, or the threshold, are NaN / +Inf / -Inf in the
    Go run.  The tree the judge sees carries a placeholder on the same side of the comparison, and the
    rational threshold the judge sees selects the same branches (NaN <= t, NaN < s are false)."""
    ops = []
    el = list(edges_pre(t))
    inner = [i for i, (e, c) in enumerate(el) if kids(c)]
    if not inner:
        return ops
    # --- lengths
    kind = rng.choice(["nan", "nan", "inf", "ninf"])
    l = rng.choice([Fraction(0), g.dyadic(256, 64), g.dyadic(64, 64)])
    idx = sorted(set(rng.sample(inner, min(len(inner), rng.randint(1, 2))) + rng.sample(range(len(el)), 1)))
    for i in idx:
        el[i][0]["len"] = (l + 1) if kind != "ninf" else Fraction(0)
    for rr, rt in [(False, False), flags()]:
        ops.append({"op": Sym("collapse_len"), "tree": T(t), "l": l, "rr": rr, "rt": rt,
                    "nanlen": idx, "lenspecial": Sym(kind), "nonfinite": "len " + kind})
    # --- threshold
    kind = rng.choice(["nan", "inf", "ninf"])
    lj = Fraction(10**6) if kind == "inf" else Fraction(-2)
    rr, rt = flags()
    ops.append({"op": Sym("collapse_len"), "tree": T(t), "l": lj, "rr": False, "rt": False, "lspecial": Sym(kind),
                "nonfinite": "threshold " + kind})
    ops.append({"op": Sym("collapse_len"), "tree": T(t), "l": lj, "rr": rr, "rt": rt, "lspecial": Sym(kind),
                "nonfinite": "threshold " + kind})
    # --- supports
    kind = rng.choice(["nan", "nan", "inf", "ninf"])
    sthr = rng.choice([g.dyadic(64, 64) + Fraction(1, 64), Fraction(1, 2), Fraction(1)])
    idx = sorted(rng.sample(inner, min(len(inner), rng.randint(1, 2))))
    for i in idx:
        el[i][0]["sup"] = (sthr + 1) if kind != "ninf" else Fraction(0)
    for rr in [False, flags()[0]]:
        ops.append({"op": Sym("collapse_sup"), "tree": T(t), "s": sthr, "rr": rr, "rt": False,
                    "nansup": idx, "supspecial": Sym(kind), "nonfinite": "sup " + kind})
    kind = rng.choice(["nan", "inf", "ninf"])
    sj = Fraction(10**6) if kind == "inf" else Fraction(-2)
    ops.append({"op": Sym("collapse_sup"), "tree": T(t), "s": sj, "rr": False, "rt": False, "sspecial": Sym(kind),
                "nonfinite": "sthreshold " + kind})
    return ops

def insert_single(rng, g, x, i, k, lenmode):
    """put k single-child inner nodes on the branch in slot i of node x"""
    e, c = x["slots"][i]
    for _ in range(k):
        nd = {"name": rng.choice(["", "", "S%d" % rng.randrange(1000)]), "coms": [],
              "slots": [None, ({"len": g.length(lenmode), "sup": None, "pv": None, "coms": []}, c)]}
        if rng.random() < 0.3:
            nd["slots"].reverse()
        c = nd
    x["slots"][i] = (e, c)

def single_node_cases(rng, g, tier):
    """resolve (and, for the correspondence, collapse) on trees WITH single-child inner nodes:
    above polytomies, above tips, chains of them, directly under the root, and the shape Reroot()
    leaves behind (the old two-child root hanging under the new root as a single-child node)"""
    lenmode = rng.choice(["all", "all", "mixed", "none"])
    t = g.tree(lo=5, hi=14, maxdeg=rng.choice([4, 5, 5, 7]), lenmode=lenmode,
               supmode=rng.choice(["mixed", "all", "none"]), up_random=rng.random() < 0.5)
    how = rng.choice(["above-poly", "above-poly", "random", "random", "rerooted", "root-child"])
    sites = [(x, i, c) for x in preorder(t) for i, s in enumerate(x["slots"]) if s is not None for c in [s[1]]]
    poly = [(x, i, c) for x, i, c in sites if len(c["slots"]) > 3]
    done = 0
    if how == "above-poly" and poly:
        for x, i, c in rng.sample(poly, rng.randint(1, min(2, len(poly)))):
            insert_single(rng, g, x, i, rng.choice([1, 1, 2, 3]), lenmode); done += 1
    elif how == "root-child":
        big = [(x, i, c) for x, i, c in sites if x is t and kids(c)]
        for x, i, c in big[:rng.randint(1, 2)]:
            insert_single(rng, g, x, i, rng.choice([1, 2]), lenmode); done += 1
    elif how == "rerooted" and len(t["slots"]) == 2:
        # new root = an inner child a of the root; the old root keeps its other child b only
        ks = [(i, s) for i, s in enumerate(t["slots"])]
        ia = next((i for i, s in ks if kids(s[1])), None)
        if ia is not None:
            (ea, a), (eb, b) = t["slots"][ia], t["slots"][1 - ia]
            old = {"name": "", "coms": [], "slots": [None, (eb, b)]}
            a["slots"] = [s for s in a["slots"] if s is not None] + [(ea, old)]
            rng.shuffle(a["slots"])
            t = a
            done += 1
    if not done or how == "random":
        sites = [(x, i, c) for x in preorder(t) for i, s in enumerate(x["slots"]) if s is not None for c in [s[1]]]
        for x, i, c in rng.sample(sites, rng.randint(1, min(3, len(sites)))):
            insert_single(rng, g, x, i, rng.choice([1, 1, 2]), lenmode)
    ntips = len(leaves(t))
    nb = sum(len(kids(x)) for x in preorder(t) if len(x["slots"]) > 3)
    ops = [{"op": Sym("resolve"), "tree": T(t), "seed": rng.randrange(1, 2**31), "nraw": 4 * nb + 16}]
    if rng.random() < 0.5:
        ops.append({"op": Sym("resolve"), "tree": T(t), "seed": rng.randrange(1, 2**31), "nraw": 4 * nb + 16})
    if rng.random() < 0.4:
        lens = edge_values(t, "len")
        l = rng.choice(lens + [Fraction(0)]) if lens else Fraction(0)
        ops.append({"op": Sym("collapse_len"), "tree": T(t), "l": l, "rr": rng.random() < 0.3, "rt": False})
        ops.append({"op": Sym("collapse_depth"), "tree": T(t), "min": rng.choice([0, 1, 2]), "max": rng.choice([1, 2, 3, ntips]),
                    "rr": rng.random() < 0.3, "rt": False})
    return [{"sx": sx(o), "meta": {"op": o["op"].s, "ntips": ntips, "rooted": len(t["slots"]) == 2, "boundary": False,
                                   "rr": bool(o.get("rr")), "rt": bool(o.get("rt")), "single": how}} for o in ops]

def gen(rng, tier):
    g = Gen(rng)
    out = []
    for _ in range({"quick": 150, "thorough": 2500, "search": 600}[tier]):
        out += single_node_cases(rng, g, tier)
    n = {"quick": 260, "thorough": 5000, "search": 500}[tier]
    for _ in range(n):
        t = g.tree(lo=3, hi=16 if tier != "thorough" else 40, maxdeg=rng.choice([3, 4, 5, 7]),
                   lenmode=rng.choice(["all", "mixed", "mixed", "none"]),
                   supmode=rng.choice(["mixed", "mixed", "all", "none"]),
                   inner_names=rng.random() < 0.2, comments=rng.random() < 0.2,
                   up_random=rng.random() < 0.5)
        ntips = len(leaves(t))
        rooted = len(t["slots"]) == 2
        ops = []
        def flags():
            r = rng.random()
            if r < 0.6: return False, False
            if r < 0.75: return True, False
            if r < 0.9: return False, True
            return True, True
        # length
        lens = edge_values(t, "len")
        cands = [Fraction(0), Fraction(-1), g.dyadic(256, 64), Fraction(1000)]
        if lens:
            cands += [rng.choice(lens), rng.choice(lens)]
        for l in rng.sample(cands, 2):
            rr, rt = flags()
            ops.append({"op": Sym("collapse_len"), "tree": T(t), "l": l, "rr": rr, "rt": rt})
        # support
        sups = edge_values(t, "sup")
        cands = [Fraction(0), Fraction(-1), g.dyadic(64, 64), Fraction(2)]
        if sups:
            cands += [rng.choice(sups), rng.choice(sups)]
        for s in rng.sample(cands, 2):
            rr, _ = flags()
            ops.append({"op": Sym("collapse_sup"), "tree": T(t), "s": s, "rr": rr, "rt": False})
        # depth
        for _ in range(2):
            mn = rng.choice([0, 1, 1, 2, 2, 3, ntips // 2, ntips, -1])
            mx = rng.choice([mn, mn, mn + 1, mn + 2, ntips // 2, ntips + 1, 0, 1])
            rr, rt = flags()
            ops.append({"op": Sym("collapse_depth"), "tree": T(t), "min": mn, "max": mx, "rr": rr, "rt": rt})
        # resolve
        nb = sum(len(kids(x)) for x in preorder(t) if len(x["slots"]) > 3)
        ops.append({"op": Sym("resolve"), "tree": T(t), "seed": rng.randrange(1, 2**31), "nraw": 4 * nb + 16})
        # negative lengths (legal Newick): resolve must keep every path length, collapse by length selects them
        if rng.random() < 0.3:
            es = [e for x in preorder(t) for e, _ in kids(x) if e["len"] is not None and e["len"] > 0 and e["len"] != 1]
            if es:
                t2 = copy.deepcopy(t)
                es2 = [e for x in preorder(t2) for e, _ in kids(x) if e["len"] is not None and e["len"] > 0 and e["len"] != 1]
                for e in rng.sample(es2, min(len(es2), rng.choice([1, 2, 3, len(es2)]))):
                    e["len"] = -e["len"]
                ops.append({"op": Sym("resolve"), "tree": T(t2), "seed": rng.randrange(1, 2**31), "nraw": 4 * nb + 16})
                rr, rt = flags()
                ops.append({"op": Sym("collapse_len"), "tree": T(t2), "l": rng.choice([Fraction(0), Fraction(-1, 4), Fraction(1, 2)]), "rr": rr, "rt": rt})
        # supports (and p-values) on TIP branches - Newick text cannot express them but RemoveSingleNodes, CollapseClade or
        # Edge.SetSupport create them - and p-values on inner branches: a tip is never removed whatever its support, and
        # every branch (tip branches included) keeps its length, support and p-value through collapse and resolve
        if rng.random() < (0.6 if tier == "search" else 0.35):
            t3 = copy.deepcopy(t)
            tipsup = []
            for x in preorder(t3):
                for e, c in kids(x):
                    if not kids(c):
                        if rng.random() < 0.6:
                            e["sup"] = rng.choice([Fraction(0), g.dyadic(64, 64), g.dyadic(64, 64), Fraction(1)])
                            tipsup.append(e["sup"])
                            if rng.random() < 0.5:
                                e["pv"] = g.dyadic(64, 64)
                    elif e["sup"] is not None and rng.random() < 0.6:
                        e["pv"] = g.dyadic(64, 64)
            allsup = edge_values(t3, "sup")
            cands = [Fraction(2), Fraction(1, 2)] + ([max(tipsup) + Fraction(1, 64), rng.choice(tipsup), rng.choice(tipsup) + Fraction(1, 64)] if tipsup else []) \
                    + ([rng.choice(allsup)] if allsup else [])
            for s_ in rng.sample(cands, min(2, len(cands))):
                rr, _ = flags()
                ops.append({"op": Sym("collapse_sup"), "tree": T(t3), "s": s_, "rr": rr, "rt": False})
            lens3 = edge_values(t3, "len")
            rr, rt = flags()
            ops.append({"op": Sym("collapse_len"), "tree": T(t3), "l": rng.choice(lens3 + [Fraction(0), Fraction(1000)]), "rr": rr, "rt": rt})
            rr, rt = flags()
            ops.append({"op": Sym("collapse_depth"), "tree": T(t3), "min": rng.choice([0, 1, 1, 2]), "max": rng.choice([1, 2, 3, ntips]), "rr": rr, "rt": rt})
            ops.append({"op": Sym("resolve"), "tree": T(t3), "seed": rng.randrange(1, 2**31), "nraw": 4 * nb + 16})
        # depth intervals around the depths present in the tree
        ds = branch_depths(t)
        if ds:
            d = rng.choice(ds)
            mn, mx = rng.choice([(d, d), (d + 1, d + 2), (d - 1, d - 1), (d, d + 1), (d - 1, d), (1, d), (d, ntips)])
            rr, rt = flags()
            ops.append({"op": Sym("collapse_depth"), "tree": T(t), "min": mn, "max": mx, "rr": rr, "rt": rt})
        # boundary values: the tree is modified, so these go last (T(t) is rendered when built)
        if inner_edges(t):
            l = boundary_len_case(rng, t)
            for rr, rt in [(False, False), flags()]:
                ops.append({"op": Sym("collapse_len"), "tree": T(t), "l": l, "rr": rr, "rt": rt, "boundary": True})
            s_ = boundary_sup_case(rng, t)
            if s_ is not None:
                for rr in [False, flags()[0]]:
                    ops.append({"op": Sym("collapse_sup"), "tree": T(t), "s": s_, "rr": rr, "rt": False, "boundary": True})
        if rng.random() < (0.5 if tier != "thorough" else 0.3):
            ops += nonfinite_cases(rng, g, t, flags)
        for o in ops:
            bd = o.pop("boundary", False) or o.pop("nonfinite", False)
            out.append({"sx": sx(o), "meta": {"op": o["op"].s, "ntips": ntips, "rooted": rooted, "boundary": bd,
                                              "rr": bool(o.get("rr")), "rt": bool(o.get("rt"))}})
    return out
