"""C07: collapse removes exactly the targeted branches; resolve only refines."""
from lib import *

PROP = "C07"
LEVEL = "proof"
RULE = ("random multifurcating trees (3..16 tips, 40 in thorough; rooted/unrooted; degrees up to 7; lengths all/mixed/none "
        "with zeros and absent values, supports all/mixed/none) x {collapse by length with threshold = a length present in "
        "the tree | 0 | a random dyadic | -1 | larger than all; collapse by support likewise; collapse by depth with every "
        "kind of interval (min<=max, min>max, 0, 1, n/2, beyond n); resolve with a recorded rand stream}; removeRoot and "
        "removeTips false (the commands' defaults, exact-set oracle) and the other flag values (correspondence, same tips, "
        "well-formed); non-trivial = the structure changed; distinct = distinct case text")
TRUSTED = ["tree built through NewNode/NewEdge + verif hooks (exact neighbour order); dump through Neigh()/Edges()/Left()/Right()"]
ASSUMPTIONS = ["math/rand: Intn/Int31n/Perm transcribed in Model/Rand.v; the recorded Int63 stream is what Resolve consumes"]
LEVEL_TEXT = "theorems in coq/Properties/C07.v about Model/Collapse.v; correspondence by exact structural equality with the Go result"
LEVEL_NOTE = ""

def edge_values(t, key):
    return [e[key] for x in preorder(t) for e, _ in kids(x) if e[key] is not None]

def gen(rng, tier):
    g = Gen(rng)
    out = []
    n = {"quick": 260, "thorough": 5000, "search": 500}[tier]
    for _ in range(n):
        t = g.tree(lo=3, hi=16 if tier != "thorough" else 40, maxdeg=rng.choice([3, 4, 5, 7]),
                   lenmode=rng.choice(["all", "mixed", "mixed", "none"]),
                   supmode=rng.choice(["mixed", "mixed", "all", "none"]),
                   inner_names=rng.random() < 0.2, comments=rng.random() < 0.2,
                   up_random=rng.random() < 0.5)
        ntips = len(leaves(t))
        rooted = len(t["slots"]) == 2
        ops = []
        def flags():
            r = rng.random()
            if r < 0.6: return False, False
            if r < 0.75: return True, False
            if r < 0.9: return False, True
            return True, True
        # length
        lens = edge_values(t, "len")
        cands = [Fraction(0), Fraction(-1), g.dyadic(256, 64), Fraction(1000)]
        if lens:
            cands += [rng.choice(lens), rng.choice(lens)]
        for l in rng.sample(cands, 2):
            rr, rt = flags()
            ops.append({"op": Sym("collapse_len"), "tree": T(t), "l": l, "rr": rr, "rt": rt})
        # support
        sups = edge_values(t, "sup")
        cands = [Fraction(0), Fraction(-1), g.dyadic(64, 64), Fraction(2)]
        if sups:
            cands += [rng.choice(sups), rng.choice(sups)]
        for s in rng.sample(cands, 2):
            rr, _ = flags()
            ops.append({"op": Sym("collapse_sup"), "tree": T(t), "s": s, "rr": rr, "rt": False})
        # depth
        for _ in range(2):
            mn = rng.choice([0, 1, 1, 2, 2, 3, ntips // 2, ntips, -1])
            mx = rng.choice([mn, mn, mn + 1, mn + 2, ntips // 2, ntips + 1, 0, 1])
            rr, rt = flags()
            ops.append({"op": Sym("collapse_depth"), "tree": T(t), "min": mn, "max": mx, "rr": rr, "rt": rt})
        # resolve
        nb = sum(len(kids(x)) for x in preorder(t) if len(x["slots"]) > 3)
        ops.append({"op": Sym("resolve"), "tree": T(t), "seed": rng.randrange(1, 2**31), "nraw": 4 * nb + 16})
        for o in ops:
            out.append({"sx": sx(o), "meta": {"op": o["op"].s, "ntips": ntips, "rooted": rooted,
                                              "rr": bool(o.get("rr")), "rt": bool(o.get("rt"))}})
    return out
