"""C09: the consensus contains exactly the sufficiently frequent splits."""
import importlib
from fractions import Fraction
from lib import *

_c08 = importlib.import_module((__name__.rsplit(".", 1)[0] + ".c08") if "." in __name__ else "c08")
clone, contraction, resolve_random, shuffle_children, reroot_at = (_c08.clone, _c08.contraction, _c08.resolve_random,
                                                                   _c08.shuffle_children, _c08.reroot_at)
rename_tip, drop_tip, add_tip, from_shape = _c08.rename_tip, _c08.drop_tip, _c08.add_tip, _c08.from_shape

PROP = "C09"
PAR_OK = True
LEVEL = "proof"
RULE = ("collections of 1..8 trees on the same 4..9 taxa: a random multifurcating 'true' tree and variations of it "
        "(contractions, random re-resolutions, independent trees), each input unrooted (root degree >= 3) or rooted on a random "
        "branch (degree-2 root, sometimes next to a tip), children shuffled, parent slots at random positions, every branch with a "
        "dyadic length; 40% of the collections use arbitrary taxon names (case variants of one name, prefixes, t1/t10/t01, numeric, blanks, quotes, non-ASCII); thresholds 0.5, 0.51, 0.55, 0.58, 0.6, 2/3, 0.7, 0.75, 0.8, 0.9, 1 and k/n for the collection size n "
        "(frequencies exactly on the threshold: 1 of 2, 2 of 4, 3 of 4, 3 of 5, 4 of 6, 6 of 8 ..., and the 50-tree collections "
        "29/50 at 0.58, plus 63/90 at 0.7 and 57/100 at 0.57 in the thorough tier); every base collection is run again "
        "shuffled, with every input re-rooted (unrooted inputs) and with some inputs rooted, and with PRE-USED inputs (the worker indexes "
        "each tree, edits it through the public API without re-indexing -- Rename / SetName swap of two tips, Reroot, "
        "RotateInternalNodes -- dumps it, then calls Consensus; model and oracle work on the dumped trees); rejection cases: thresholds 0.49, 0, "
        "-1, 1.01, 2 and collections where one tree has a renamed, missing or extra tip (first / middle / last position); "
        "non-trivial = some split occurs in some but not all trees (or the case must be rejected); distinct = distinct case text")
TRUSTED = ["trees built through NewNode/NewEdge + verif hooks (exact neighbour order); result dumped through Neigh()/Edges()",
           "the collection is fed through a closed buffered channel of tree.Trees as utils.ReadMultiTrees does (no Newick parsing)",
           "the threshold is given to Consensus as the float64 nearest to the decimal, as strconv.ParseFloat does for -f",
           "a call that does not return within 8 s is reported as a hang"]
ASSUMPTIONS = ["binary64: the test float64(Count)/float64(n) <= cutoff is modelled exactly on rationals (round-to-nearest-even of the decimal "
               "threshold and of the quotient: Model/Consensus.v round53/freq64/keep_split), cross-checked against Coq's primitive floats by "
               "vm_compute (Proofs/ConsensusFloat.v) and against the float64 the worker reports (cutoff64)",
               "Len/Count and Count/n are exact rationals in the model; Go's float64 must be within 2^-50 relative",
               "sums of dyadic lengths (k/64) are exact in float64",
               "the theorems are about the model over an association list keyed by the bipartition; the judge also runs the model "
               "over the hash index of Model/EdgeIndex.v (C04), which fixes the order of insertion into the star tree, compares the Go "
               "tree with it structurally and demands that both models count the same splits"]
LEVEL_TEXT = "proof"
LEVEL_NOTE = ""

def _msg(case):
    f = case.get("fields") or [""]
    return f[0] if f else ""

# Fixed in /repo: 27ef6c9 (int(cutoff*float64(n)) rounded 0.58*50 down to 28: a split of frequency exactly 29/50 was
# kept at threshold 0.58) and c884a9e (both root branches of a rooted input went through AddEdgeCount: root split
# counted twice).  The oracle still checks both on every case (messages "... equals the threshold (not strictly
# greater)" and "... [root split of a rooted input: counted twice]"); no open matcher.
MATCHERS = {}

CUTOFFS = [Fraction(1, 2), Fraction(51, 100), Fraction(55, 100), Fraction(58, 100), Fraction(6, 10), Fraction(2, 3),
           Fraction(7, 10), Fraction(3, 4), Fraction(8, 10), Fraction(9, 10), Fraction(1)]
BAD_CUTOFFS = [Fraction(49, 100), Fraction(0), Fraction(-1), Fraction(101, 100), Fraction(2),
               Fraction(1, 2) - Fraction(1, 2 ** 40), Fraction(1) + Fraction(1, 2 ** 40), Fraction(1000001, 1000000), Fraction(3, 2),
               Fraction(3), Fraction(10), Fraction(49), Fraction(50), Fraction(101, 2), Fraction(66), Fraction(70), Fraction(199, 2),
               Fraction(100), Fraction(201, 2), Fraction(101), Fraction(10 ** 6), Fraction(-1, 2), Fraction(-50), Fraction(1, 4),
               Fraction(499999, 1000000)]

def root_on_branch(t, rng, g):
    """degree-2 root on a random branch of an unrooted tree"""
    r = reroot_at(t, rng)
    ch = [i for i, s in enumerate(r["slots"]) if s is not None]
    i = rng.choice(ch)
    e, c = r["slots"][i]
    del r["slots"][i]
    r["slots"].insert(rng.randrange(0, len(r["slots"]) + 1), None)
    e1 = dict(e); e1["len"] = g.length("all")
    e2 = {"len": g.length("all"), "sup": None if not kids(r) else e.get("sup"), "pv": None, "coms": []}
    sl = [(e1, c), (e2, r)]
    rng.shuffle(sl)
    return {"name": "", "coms": [], "slots": sl}

def splits_of(t):
    """canonical non-oriented splits (frozenset of the side without the least name) of every branch, per tree (a set)"""
    allv = sorted(leaves(t))
    res = set()
    def walk(n):
        for s in n["slots"]:
            if s is not None:
                side = frozenset(leaves(s[1]))
                if allv[0] in side:
                    side = frozenset(allv) - side
                res.add(side)
                walk(s[1])
    walk(t)
    return res

def meta_of(kind, trees, cutoff):
    n = len(trees)
    cnt = {}
    for t in trees:
        for s in splits_of(t):
            cnt[s] = cnt.get(s, 0) + 1
    on = any(Fraction(c, n) == cutoff and c != n for c in cnt.values()) if n else False
    return {"kind": kind, "n": n, "ntips": len(leaves(trees[0])) if trees else 0,
            "has_rooted": any(len(t["slots"]) == 2 for t in trees), "on_threshold": on, "cutoff": str(cutoff)}

def case(out, kind, trees, cutoff, pres=None):
    if isinstance(cutoff, Sym):
        # non-finite threshold
        out.append({"sx": sx({"trees": [T(t) for t in trees], "cutoff": cutoff}),
                    "meta": {"kind": kind, "n": len(trees), "ntips": len(leaves(trees[0])) if trees else 0, "cutoff": cutoff.s}})
        return
    c = {"trees": [T(t) for t in trees], "cutoff": Fraction(cutoff)}
    if pres is not None:
        c["pres"] = pres
    m = meta_of(kind, trees, Fraction(cutoff))
    m["preused"] = pres is not None
    out.append({"sx": sx(c), "meta": m})

def pre_edits(ts, rng):
    """one index-invalidating public edit per input tree (applied by the worker after ReinitIndexes, without
    re-indexing); a rooted input is never re-rooted (its old root would become a single-child node)"""
    r = []
    for t in ts:
        kinds = ["none", "rename", "rename", "setname", "rotate"] + ([] if len(t["slots"]) == 2 else ["reroot"])
        r.append(_c08.edit_for(t, rng, rng.choice(kinds)))
    return r

def variant(base, rng, g):
    w = rng.random()
    if w < 0.3:
        t = clone(base)
    elif w < 0.55:
        t = contraction(base, rng, k=rng.randint(1, 2))
    elif w < 0.85:
        t = resolve_random(contraction(base, rng, k=rng.randint(1, 3)), rng, g)
    else:
        n = len(leaves(base))
        t = g.tree(ntips=n, rooted=False, maxdeg=rng.choice([3, 4]), lenmode="all", supmode="mixed", up_random=True)
    # fresh lengths on a copy, children shuffled, re-rooted
    t = _c08.perturb_lengths(t, rng, g, p=0.8)
    return shuffle_children(reroot_at(t, rng), rng)

def collection(rng, g, ntrees, ntips, p_rooted):
    base = g.tree(ntips=ntips, rooted=False, maxdeg=rng.choice([3, 3, 4, 5]), lenmode="all", supmode="mixed", up_random=True)
    if rng.random() < 0.5:
        base = resolve_random(base, rng, g, p=0.9)
    ts = [variant(base, rng, g) for _ in range(ntrees)]
    return [root_on_branch(t, rng, g) if rng.random() < p_rooted else t for t in ts]

def exact_collection(rng, g, n, c, ntips, rooted=False):
    """a designated split occurs in exactly c of n trees"""
    a = g.tree(ntips=ntips, rooted=False, maxdeg=3, lenmode="all", supmode="mixed", up_random=True)
    b = contraction(a, rng, k=1)
    ts = []
    for i in range(n):
        t = a if i < c else b
        t = shuffle_children(reroot_at(_c08.perturb_lengths(t, rng, g, p=0.8), rng), rng)
        if rooted and rng.random() < 0.3:
            t = root_on_branch(t, rng, g)
        ts.append(t)
    rng.shuffle(ts)
    return ts

def gen(rng, tier):
    g = Gen(rng)
    nbase = {"quick": 100, "thorough": 500, "search": 60}[tier]
    out = []
    for _ in range(nbase):
        n = rng.randint(1, 8)
        ntips = rng.randint(4, 9)
        p_rooted = rng.choice([0, 0, 0.3, 1])
        ts = collection(rng, g, n, ntips, p_rooted)
        if rng.random() < 0.4:
            # arbitrary taxon names: case variants, prefixes of one another, t1/t10/t01, numeric, blanks, non-ASCII
            mp = dict(zip(["t%d" % i for i in range(ntips)], _c08.tricky_names(rng, ntips)))
            ts = [_c08.relabel(t, mp) for t in ts]
        cuts = [rng.choice(CUTOFFS)]
        # a threshold of the form k/n >= 1/2: frequencies exactly on it
        ks = [k for k in range(1, n + 1) if Fraction(k, n) >= Fraction(1, 2)]
        cuts.append(Fraction(rng.choice(ks), n))
        for cu in cuts:
            case(out, "random", ts, cu)
        case(out, "preused", ts, cuts[-1], pres=pre_edits(ts, rng))
        sh = list(ts); rng.shuffle(sh)
        case(out, "shuffled", [shuffle_children(t if len(t["slots"]) == 2 else reroot_at(t, rng), rng) for t in sh], cuts[-1])
        if p_rooted == 0:
            case(out, "rooted-copy", [root_on_branch(t, rng, g) if rng.random() < 0.5 else t for t in ts], cuts[-1])
        # rejections
        w = rng.random()
        if w < 0.35:
            case(out, "bad-cutoff", ts, rng.choice(BAD_CUTOFFS))
        elif w < 0.8:
            pos = rng.choice([0, len(ts) // 2, len(ts) - 1])
            bad = list(ts)
            u = bad[pos]
            k = rng.random()
            if k < 0.5:
                bad[pos] = rename_tip(u, rng, "zz")
            elif k < 0.75:
                bad[pos] = drop_tip(u, rng) or rename_tip(u, rng, "zz")
            else:
                bad[pos] = add_tip(u, rng, g, "zz")
            if len(bad) > 1 or True:
                # a one-tree collection cannot differ from itself: add a second tree
                if len(bad) == 1:
                    bad = [ts[0], bad[0]] if rng.random() < 0.5 else [bad[0], ts[0]]
                case(out, "difftaxa", bad, rng.choice(CUTOFFS))
    # every kind of taxon-multiset difference (new / missing / duplicated with the same or a bigger count / extra /
    # empty / case variant), at the first, second and last position, the offending tree rooted or not
    for _ in range({"quick": 14, "thorough": 150, "search": 30}[tier]):
        n = rng.randint(2, 6)
        ts = collection(rng, g, n, rng.randint(4, 8), rng.choice([0, 0.5]))
        for kind_v, bad in _c08.taxa_variants(rng.choice([t for t in ts if len(t["slots"]) != 2] or [ts[0]]), rng, g):
            if len(bad["slots"]) != 2 and rng.random() < 0.5:
                bad = root_on_branch(bad, rng, g)
            pos = rng.choice([0, 1, len(ts) - 1])
            col = list(ts); col[pos] = bad
            case(out, "difftaxa-" + kind_v, col, rng.choice(CUTOFFS))
    # every out-of-range threshold on a few collections (the valid neighbours 0.5 and 1 are in CUTOFFS)
    for _ in range({"quick": 2, "thorough": 10, "search": 2}[tier]):
        ts = collection(rng, g, rng.randint(1, 5), rng.randint(4, 7), rng.choice([0, 0.5]))
        for bc in BAD_CUTOFFS:
            case(out, "bad-cutoff", ts, bc)
        for sym in ("nan", "inf", "-inf"):
            case(out, "bad-cutoff-nonfinite", ts, Sym(sym))
    # hash extremes: the four names whose balanced split has Edge.HashCode exactly 0 (found by the author of a seeded
    # change, C09-r6m1), in every tree / in most trees; and names colliding on the low 7 bits of their FNV hash
    z = _c08.zero4_trees(g)
    with_ab = [z[0], z[1], z[3], z[4]]          # contain {Aquila,Buteo}|{Corvus,Dendrocopos} (z[2], z[4] are rooted)
    case(out, "hash-zero", [z[0], z[1], z[3]], Fraction(1, 2))
    case(out, "hash-zero", [z[0], z[1], z[3]], Fraction(1))
    case(out, "hash-zero", [z[1]], Fraction(1, 2))
    case(out, "hash-zero", [z[0], z[2], z[4], z[1]], Fraction(3, 4))
    case(out, "hash-zero", [z[0], z[1], z[5]], Fraction(1, 2))
    case(out, "hash-zero", [z[0], z[6], z[1], z[3], z[5]], Fraction(1, 2))
    case(out, "hash-zero", [z[6], z[0], z[6]], Fraction(1, 2))
    for _ in range(3):
        n = rng.randint(5, 8)
        mp = dict(zip(["t%d" % i for i in range(n)], _c08.COLLIDE[:n]))
        ts = [_c08.relabel(t, mp) for t in collection(rng, g, rng.randint(2, 5), n, rng.choice([0, 0.4]))]
        case(out, "hash-collide", ts, rng.choice(CUTOFFS))
    # frequencies exactly on the threshold
    exact = [(2, 1), (4, 2), (4, 3), (5, 3), (6, 3), (6, 4), (8, 4), (8, 6), (5, 4), (3, 2)]
    for (n, c) in exact:
        for rooted in (False, True):
            ts = exact_collection(rng, g, n, c, rng.randint(4, 7), rooted)
            case(out, "exact-rooted" if rooted else "exact", ts, Fraction(c, n))
    big = [(50, 29, Fraction(58, 100))]
    if tier == "thorough":
        big += [(90, 63, Fraction(7, 10)), (100, 57, Fraction(57, 100)), (100, 58, Fraction(58, 100)), (50, 30, Fraction(6, 10)),
                (50, 28, Fraction(56, 100))]
    for (n, c, cu) in big:
        case(out, "exact", exact_collection(rng, g, n, c, 4), cu)
        case(out, "exact", exact_collection(rng, g, n, c + 1, 5), cu)
    # minimal witnesses of the design notes, always present
    w1 = from_shape(g, ["t0", "t3", ["t1", "t2"]], rng)
    w2 = from_shape(g, [["t1", "t2"], ["t0", "t3"]], rng)
    case(out, "witness", [w1, w2], Fraction(1))
    case(out, "witness", [w2], Fraction(1, 2))
    case(out, "witness", [w2, from_shape(g, [["t0", "t2"], ["t1", "t3"]], rng), from_shape(g, [["t0", "t1"], ["t2", "t3"]], rng)], Fraction(1, 2))
    case(out, "witness", [from_shape(g, [["a", "b"], "c", "d"], rng)] * 1 + [from_shape(g, ["a", "b", "c", "d"], rng)], Fraction(1, 2))
    case(out, "witness-pre", [w1, clone(w1), clone(w1)], Fraction(1, 2), pres=[_c08.NONE, [Sym("rename"), "t0", "t1"], [Sym("setname"), "t3", "t2"]])
    case(out, "empty", [], Fraction(1, 2))
    return out


# ---------------------------------------------------------------- the command line: gotree compute consensus -f
# thresholds outside [0.5, 1] must be refused (non-zero exit status, no tree printed); thresholds inside are accepted

def extra(tier, seed, st):
    import random, shutil, subprocess, os
    import cli
    info = {"cli_runs": 0, "evaluations": 0, "distinct_nontrivial": 0}
    ok, err = cli.build_gotree()
    if not ok:
        return [("build", "gotree no longer builds: " + err[-400:], None)], info
    rng = random.Random(seed + 9)
    g = Gen(rng)
    d = cli.scratch("c09-")
    fails = []
    def dec(x):
        # plain decimal text of the rational (all our thresholds have finite decimal expansions or are given to 12 digits)
        f = Fraction(x)
        sgn = "-" if f < 0 else ""
        f = abs(f)
        ip = f.numerator // f.denominator
        frac = f - ip
        digits = ""
        for _ in range(45):
            if frac == 0:
                break
            frac *= 10
            dgt = frac.numerator // frac.denominator
            digits += str(dgt); frac -= dgt
        return sgn + str(ip) + ("." + digits if digits else "")
    try:
        ts = collection(rng, g, 4, 6, 0)
        f = os.path.join(d, "trees.nw")
        open(f, "w").write("".join(newick(t) + "\n" for t in ts))
        for cu, valid in [(c, False) for c in BAD_CUTOFFS] + [("NaN", False), ("Inf", False), ("-Inf", False), ("+Inf", False), ("nan", False)] + \
                         [(Fraction(1, 2), True), (Fraction(3, 4), True), (Fraction(1), True)]:
            if isinstance(cu, str):
                dec_cu = cu
            else:
                dec_cu = dec(cu)
            argv = ["compute", "consensus", "-i", f, "-f=" + dec_cu]
            rc, out, errb = cli.run(argv, d)
            info["cli_runs"] += 1
            body = {"argv": argv, "rc": rc, "stdout": out.decode("utf-8", "replace")[-500:], "stderr": errb.decode("utf-8", "replace")[-300:],
                    "trees": [newick(t) for t in ts]}
            printed = out.decode("utf-8", "replace").strip()
            if not valid and (rc == 0 or printed.endswith(";")):
                fails.append(("cli-consensus", "gotree compute consensus -f %s: threshold outside [0.5,1] accepted (exit %d, output %r)" % (dec_cu, rc, printed[:80]), body))
            if valid and (rc != 0 or not printed.endswith(";")):
                fails.append(("cli-consensus", "gotree compute consensus -f %s: valid threshold refused (exit %d)" % (dec_cu, rc), body))
        info["evaluations"] = info["cli_runs"]
    finally:
        shutil.rmtree(d, ignore_errors=True)
    return fails[:5], info
