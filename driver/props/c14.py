"""C14: distance matrices and length-threshold clusters are exact."""
from lib import *

TINY = [Fraction(1, 2**27), Fraction(1, 2**30), Fraction(1, 2**40), Fraction(3, 2**35)]

def tinyfy(rng, t, p=0.3):
    """replace some of the present branch lengths by tiny dyadic ones (exact in binary64: the model's rationals still agree exactly)"""
    import copy as _c
    t = _c.deepcopy(t)
    for x in preorder(t):
        for e, _ch in kids(x):
            if e["len"] is not None and rng.random() < p:
                e["len"] = rng.choice(TINY)
    return t

PROP = "C14"
PAR_OK = True
LEVEL = "proof"
RULE = ("homonymous tips (3..12 tips, one or two names given twice or three times; matrix x 3 metrics, averages on the same "
        "multiset of names); roots with a single neighbour in the cut stream with the branch under the root below / at / above the "
        "threshold (oracle: the groups partition Tree.Tips()); `gotree matrix` on files (see extra); 60% of the cases use the tree before the call (ReinitIndexes and/or a first ToDistanceMatrix, then 1..3 public edits that "
        "invalidate the index: two tip names exchanged, a tip renamed so that the name order changes, Reroot, RotateInternalNodes; "
        "nothing re-indexed; the model and the oracle run on the tree as dumped just before the call); "
        "30% of the trees carry negative branch lengths (-1/4, -1/64, -3, -5/2, -2^-30, -3*2^-35, -63/64, -65/64, -100; never -1) on tip and "
        "inner branches, with cut thresholds negative / equal to a negative length / one step around it; the oracles are evaluated in "
        "full on them (path sums and the cut compare the stored numbers; the property text names zero or absent lengths only); "
        "random multifurcating trees (2..14 tips, 40 in thorough; rooted/unrooted; parent slot at random positions as after "
        "re-rootings; lengths all/mixed/none with zeros; supports mixed/all/none) x the three metrics for ToDistanceMatrix; "
        "collections of 1, 2, 3, 4, 5, 6, 7, 9, 10 or 49 trees on the same taxa (different shapes, or 49 identical ones) x metric for "
        "AvgDistanceMatrix, the Id field of the records numbered 0..n-1 / all zero / restarting / with gaps / decreasing / duplicated / "
        "offset (the average must not depend on it), every cell judged as the binary64 nearest to the exact mean, plus collections where one "
        "tip name differs (refusal); CutEdgesMaxLength with thresholds 0, 1/64, equal to a branch length of the tree, just above "
        "one, larger than all, random, negative; a few trees whose root has one neighbour (outside the oracle's domain: "
        "correspondence only).  non-trivial: matrix with >= 3 tips, average of >= 2 trees, cut giving more than one and fewer "
        "than n bags; distinct = distinct case text")
TRUSTED = ["tree built through NewNode/NewEdge + verif hooks (exact neighbour order)",
           "float64 cells are transmitted as exact rationals (big.Rat.SetFloat64)"]
ASSUMPTIONS = ["tip names are distinct (sort.Slice on equal names is not modelled; TipBag refuses equal names)",
               "generated lengths and supports are dyadic (k/64, and tiny ones: 2^-27, 2^-30, 2^-40, 3*2^-35), so float64 sums are exact and "
               "equal the model's rationals; the division of the average is judged exactly: Go's float64 must be the correctly rounded (nearest, ties to even) value of the "
               "exact mean (Model/Consensus.round53); only matrices PRINTED by the command line are compared with a tolerance"]
LEVEL_TEXT = ("theorems in coq/Properties/C14.v about Model/Matrix.v (cells = path sums, symmetric, zero diagonal, name order, "
              "average = mean; cut = partition of the tips into the pieces left by the branches not shorter than the threshold); "
              "correspondence by exact equality of names, cells and bags; the run-time oracle for the cut is the independent "
              "union-find specification coq/Spec/Cut.v; coq/Properties/C14Extra8.v: average over trees on the same taxa in any tip "
              "order (defined iff same taxa), matrix invariant under re-rooting and neighbour order, cut at thresholds <= 0 / absent "
              "lengths, exact failure mode of the average on other taxa (Model/C14Extra8.v, tied by the 'counts' avg family)")
LEVEL_NOTE = ("cut: the code compares the stored length with the threshold, so a branch without length (-1) is shorter than every "
              "threshold above -1; the specification Spec/Cut.v reads 'shorter than the threshold' the same way (the property "
              "text does not say how a missing length counts for the cut; for the matrix it counts as 0)")

METRICS = ["brlen", "boot", "none"]

def degree_one_root(g, rng, t):
    """put a root with a single neighbour above t"""
    sub = {"name": t["name"], "coms": t["coms"], "slots": list(t["slots"])}
    sub["slots"].insert(rng.randrange(0, len(sub["slots"]) + 1), None)
    e = {"len": g.length("mixed"), "sup": g.support("mixed"), "pv": None, "coms": []}
    return {"name": rng.choice(["", "r"]), "coms": [], "slots": [(e, sub)]}

NEG = [Fraction(-1, 4), Fraction(-1, 64), Fraction(-3), Fraction(-5, 2), Fraction(-1, 2**30), Fraction(-3, 2**35),
       Fraction(-63, 64), Fraction(-65, 64), Fraction(-100)]

def negfy(rng, t, p=0.25):
    """negative branch lengths (neighbour-joining trees have them), never exactly -1 (the 'absent' sentinel), on tip and inner branches"""
    import copy as _c
    t = _c.deepcopy(t)
    for x in preorder(t):
        for e, _ch in kids(x):
            if e["len"] is not None and rng.random() < p:
                e["len"] = rng.choice(NEG)
    return t

def rand_tree(g, rng, tier, lo=2, prefix="t", ntips=None):
    t = rand_tree0(g, rng, tier, lo, prefix, ntips)
    if rng.random() < 0.3:
        t = tinyfy(rng, t)
    if rng.random() < 0.3:
        t = negfy(rng, t)
    return t

def rand_tree0(g, rng, tier, lo=2, prefix="t", ntips=None):
    hi = 14 if tier != "thorough" else 40
    return g.tree(ntips=ntips, lo=lo, hi=hi, maxdeg=5, prefix=prefix,
                  lenmode=rng.choice(["all", "all", "mixed", "mixed", "none"]),
                  supmode=rng.choice(["mixed", "mixed", "all", "none"]),
                  inner_names=rng.random() < 0.2, up_random=rng.random() < 0.5)

def homonyms(rng, t, ren=None):
    """give some tips the name of another tip (the parser and the commands accept homonymous tips); at most 12 tips"""
    import copy as _c
    t = _c.deepcopy(t)
    tips = [x for x in preorder(t) if not kids(x)]
    if ren is None:
        names = [x["name"] for x in tips]
        ren = {}
        for _ in range(rng.choice([1, 1, 2])):
            a, b = rng.sample(names, 2)
            ren[a] = ren.get(b, b)
    for x in tips:
        x["name"] = ren.get(x["name"], x["name"])
    return t, ren

def lengths_of(t):
    return [e["len"] for x in preorder(t) for e, _ in kids(x) if e["len"] is not None]

def meta(op, t, **kw):
    m = {"op": op, "ntips": len(leaves(t)), "rooted": len(t["slots"]) == 2,
         "absent_len": any(e["len"] is None for x in preorder(t) for e, _ in kids(x))}
    m.update(kw)
    return m

PRE_INDEX = [["reinit"], ["matrix"], ["matrixnone"], ["reinit", "matrix"], ["matrix", "reinit"], []]
PRE_EDIT = ["swap", "renamehi", "renamelo", "reroot", "rotate"]

def pre_steps(rng):
    """the tree is used before the call: an index exists (ReinitIndexes and/or an earlier matrix call), then public edits that
    invalidate it (names exchanged or changed so that the name order changes, re-rooting, rotations); nothing is re-indexed"""
    if rng.random() < 0.4:
        return {}
    steps = list(rng.choice(PRE_INDEX)) + rng.sample(PRE_EDIT, rng.choice([1, 1, 2, 3]))
    if rng.random() < 0.3:
        steps += list(rng.choice(PRE_INDEX[:3])) + rng.sample(PRE_EDIT, 1)
    return {"pre": [Sym(x) for x in steps], "seed": rng.randrange(1, 2**31)}

def pre_label(p):
    return "+".join(x.s for x in p.get("pre", [])) or "fresh"

def gen(rng, tier):
    g = Gen(rng)
    out = []
    n = {"quick": 160, "thorough": 3000, "search": 300}[tier]
    for k in range(n):
        t = rand_tree(g, rng, tier)
        if rng.random() < 0.04:
            t = degree_one_root(g, rng, t)
        for m in METRICS:
            p = pre_steps(rng)
            d = {"op": Sym("matrix"), "metric": Sym(m), "tree": T(t)}
            d.update(p)
            out.append({"sx": sx(d), "meta": meta("matrix", t, metric=m, used=bool(p), pre=pre_label(p))})
        # cut
        ls = lengths_of(t)
        ths = [Fraction(0), Fraction(1, 64), Fraction(1000)]
        if ls:
            ths.append(rng.choice(ls))
            ths.append(rng.choice(ls) + Fraction(1, 64))
            ths.append(max(ls))
            ths.append(max(ls) + Fraction(1, 64))
        ths.append(g.dyadic(256, 64))
        neg = [x for x in ls if x < 0]
        if neg:
            x = rng.choice(neg)
            ths += [x, x + Fraction(1, 64), x - Fraction(1, 64), Fraction(-1, 128)]
        tiny = [x for x in ls if x in TINY]
        if tiny:
            x = rng.choice(tiny)
            ths += [x, x + Fraction(1, 2**45), x - Fraction(1, 2**45)]
        if rng.random() < 0.2:
            ths.append(Fraction(-1, 2))
        seen = set()
        for th in ths:
            if th in seen:
                continue
            seen.add(th)
            kind = "zero" if th == 0 else ("eq-branch" if th in ls else ("above-all" if (not ls or th > max(ls)) else "other"))
            p = pre_steps(rng) if rng.random() < 0.5 else {}
            d = {"op": Sym("cut"), "maxlen": th, "tree": T(t)}
            d.update(p)
            out.append({"sx": sx(d), "meta": meta("cut", t, threshold=kind, used=bool(p))})
    # ---- homonymous tips (at most 12 tips: the sort of the code is then a stable insertion sort)
    for k in range({"quick": 60, "thorough": 600, "search": 100}[tier]):
        t, _ren = homonyms(rng, rand_tree0(g, rng, tier, ntips=rng.randint(3, 12)))
        for m in METRICS:
            p = pre_steps(rng) if rng.random() < 0.3 else {}
            d = {"op": Sym("matrix"), "metric": Sym(m), "tree": T(t)}
            d.update(p)
            out.append({"sx": sx(d), "meta": meta("matrix", t, metric=m, homonyms=True, used=bool(p))})
        if k % 2 == 0:
            nt = len(leaves(t))
            ts = [rand_tree0(g, rng, tier, ntips=nt) for _ in range(rng.choice([2, 3]))]
            ren = None
            tsd = []
            for x in ts:
                y, ren = homonyms(rng, x, ren)
                tsd.append(y)
            m = rng.choice(METRICS)
            out.append({"sx": sx({"op": Sym("avg"), "metric": Sym(m), "trees": [T(x) for x in tsd]}),
                        "meta": {"op": "avg", "metric": m, "ntrees": len(tsd), "ntips": nt, "homonyms": True}})
    # ---- roots with a single neighbour in the cut stream: the root is a (nameless) tip for the code; the branch under it is
    #      below, at and above the threshold
    for k in range({"quick": 30, "thorough": 300, "search": 60}[tier]):
        base = rand_tree(g, rng, tier, lo=1 if False else 2, ntips=rng.choice([None, 2, 3]))
        t = degree_one_root(g, rng, base)
        if rng.random() < 0.3:
            t = {"name": "", "coms": [], "slots": [({"len": g.dyadic(256, 64), "sup": None, "pv": None, "coms": []},
                                                     {"name": "A", "coms": [], "slots": [None]})]}
        e0 = t["slots"][0][0]
        if e0["len"] is None:
            e0["len"] = g.dyadic(256, 64)
        l0 = e0["len"]
        for th in {l0, l0 + Fraction(1, 64), l0 - Fraction(1, 64), Fraction(0), Fraction(1000), l0 / 2}:
            out.append({"sx": sx({"op": Sym("cut"), "maxlen": th, "tree": T(t)}), "meta": meta("cut", t, threshold="root1", root1=True)})
    # ---- other taxa with different numbers of tips (outside the property's quantifier): the exact model of the two loops of
    #      AvgDistanceMatrix (coq/Model/C14Extra8.v) says whether the call returns the error or indexes out of range
    for k in range({"quick": 40, "thorough": 400, "search": 60}[tier]):
        n1 = rng.randint(2, 8)
        n2 = rng.randint(2, 8)
        if n1 == n2:
            n2 += 1
        a = rand_tree0(g, rng, tier, ntips=n1)
        b = rand_tree0(g, rng, tier, ntips=n2)
        for t_ in (a, b):
            lv = [x for x in preorder(t_) if not kids(x)]
            nms = ["u%02d" % i for i in range(len(lv))]
            rng.shuffle(nms)
            for x, nm in zip(lv, nms):
                x["name"] = nm
        renamed = rng.random() < 0.4
        if renamed:
            victim = rng.choice([x for x in preorder(b) if not kids(x)])
            victim["name"] = rng.choice(["a0", "u03x", "zz"])
        ts = [a, b] if rng.random() < 0.7 else [a, a, b]
        m = rng.choice(METRICS)
        out.append({"sx": sx({"op": Sym("avg"), "metric": Sym(m), "trees": [T(x) for x in ts]}),
                    "meta": {"op": "avg", "metric": m, "ntrees": len(ts), "ntips": n1, "mismatch": True, "counts": (n1, n2), "renamed": renamed}})
    navg = {"quick": 120, "thorough": 2000, "search": 200}[tier]
    for k in range(navg):
        nt = rng.randint(2, 10 if tier != "thorough" else 25)
        cnt = rng.choice([1, 2, 3, 3, 4, 5, 5, 6, 7, 9, 10, 49])
        if cnt > 10:
            nt = min(nt, 5)
        ts = [rand_tree(g, rng, tier, ntips=nt) for _ in range(cnt)]
        if cnt == 49 and rng.random() < 0.5:
            ts = [ts[0]] * cnt          # identical trees: the mean must be the cell itself
        mism = cnt >= 2 and rng.random() < 0.12
        if mism:
            j = rng.randrange(1, cnt)
            ts[j] = rand_tree(g, rng, tier, ntips=nt)
            victim = rng.choice([x for x in preorder(ts[j]) if not kids(x)])
            victim["name"] = "zz"
        m = rng.choice(METRICS)
        p = pre_steps(rng)
        if any(x.s in ("renamehi", "renamelo") for x in p.get("pre", [])) and not mism:
            # renaming the first / last tip of Tips() would give the trees different taxa: keep the same-taxa collections same-taxa
            p = {"pre": [x for x in p["pre"] if x.s not in ("renamehi", "renamelo")], "seed": p["seed"]}
        d = {"op": Sym("avg"), "metric": Sym(m), "trees": [T(t) for t in ts]}
        d.update(p)
        pol = rng.choice(["seq", "seq", "zero", "restart", "gaps", "decreasing", "duplicated", "offset"])
        if pol != "seq":
            d["ids"] = {"zero": [0] * cnt, "restart": [i % 2 for i in range(cnt)], "gaps": [2 * i for i in range(cnt)],
                        "decreasing": [cnt - 1 - i for i in range(cnt)], "duplicated": [i // 2 for i in range(cnt)],
                        "offset": [i + 7 for i in range(cnt)]}[pol]
        out.append({"sx": sx(d),
                    "meta": {"op": "avg", "metric": m, "ntrees": cnt, "ntips": nt, "mismatch": mism, "used": bool(p.get("pre")), "ids": pol}})
    return out

# ---------------------------------------------------------------- the command line: gotree matrix
def _parse_matrices(text):
    """blocks:  n \\n  name \\t v ... (n lines)  -> [(names, rows of Fraction)]"""
    lines = text.split("\n")
    out, i = [], 0
    while i < len(lines):
        if not lines[i].strip():
            i += 1
            continue
        n = int(lines[i].strip())
        names, rows = [], []
        for l in lines[i + 1:i + 1 + n]:
            f = l.split("\t")
            names.append(f[0])
            rows.append([Fraction(x) for x in f[1:]])
        if len(names) != n or any(len(r) != n for r in rows):
            raise ValueError("truncated matrix block")
        out.append((names, rows))
        i += 1 + n
    return out

def extra(tier, seed, st):
    """`gotree matrix -i FILE [-m metric] [--avg] [-o OUT]` on single- and multi-tree files, outputs below and above 4096 and 65536
    bytes: the printed matrices are parsed and judged by the same judge (cells within the printing precision), and the file written
    with -o must be byte for byte what is written on stdout."""
    import cli, random, subprocess
    info = {"cli_runs": 0, "cli_matrices_judged": 0, "evaluations": 0, "distinct_nontrivial": 0, "cli_output_bytes": []}
    ok, err = cli.build_gotree()
    if not ok:
        return [("build", "gotree no longer builds: " + err[-500:], None)], info
    rng = random.Random(seed + 1414)
    g = Gen(rng)
    d = cli.scratch("c14cli-")
    plan = []   # (ntips, ntrees)
    nf = {"quick": 16, "thorough": 120}.get(tier, 16)
    for i in range(nf):
        plan.append((rng.randint(3, 9), rng.choice([1, 1, 2, 3, 5])))
    plan += [(20, 1), (20, 3), (12, 50)]          # one matrix above 4096 bytes; many matrices above 65536 bytes
    fails, lines, back = [], [], {}
    for i, (nt, k) in enumerate(plan):
        trees = [g.tree(ntips=nt, maxdeg=4, lenmode=rng.choice(["all", "mixed"]), supmode="mixed") for _ in range(k)]
        text = "".join(newick(t) + "\n" for t in trees)
        f = os.path.join(d, "in%d.nw" % i)
        open(f, "w").write(text)
        for avg in ([False, True] if k <= 5 else [False, True]):
            m = rng.choice(METRICS)
            argv = ["matrix", "-i", f, "-m", m] + (["--avg"] if avg else [])
            rc, so, se = cli.run(argv, d)
            of = os.path.join(d, "out%d%s.txt" % (i, "a" if avg else ""))
            rc2, so2, se2 = cli.run(argv + ["-o", of], d)
            info["cli_runs"] += 2
            body = {"argv": ["gotree"] + argv[:2] + ["FILE"] + argv[3:], "input": text[:3000], "ntrees": k, "ntips": nt}
            if rc != 0 or rc2 != 0:
                fails.append(("cli-matrix", "exit status %d / %d: %s" % (rc, rc2, (se + se2).decode("utf-8", "replace")[-300:]), body))
                continue
            try:
                written = open(of, "rb").read()
            except OSError:
                written = None
            info["cli_output_bytes"].append(len(so))
            if written != so:
                fails.append(("cli-matrix-file", "the file written with -o (%s bytes) is not what is printed on stdout (%d bytes)"
                              % ("no file" if written is None else len(written), len(so)), dict(body, argv=body["argv"] + ["-o", "OUT"])))
                continue
            try:
                blocks = _parse_matrices(so.decode("utf-8", "replace"))
            except Exception as ex:
                fails.append(("cli-matrix", "output not readable: %s" % ex, dict(body, stdout=so.decode("utf-8", "replace")[:1500])))
                continue
            want = 1 if avg else k
            if len(blocks) != want:
                fails.append(("cli-matrix", "%d matrices printed, %d expected" % (len(blocks), want), body))
                continue
            for bi, (names, rows) in enumerate(blocks):
                if avg:
                    case = {"op": Sym("avg"), "metric": Sym(m), "trees": [T(t) for t in trees], "cli": True}
                    obs = {"err": "", "names": names, "matrix": rows}
                else:
                    case = {"op": Sym("matrix"), "metric": Sym(m), "tree": T(trees[bi]), "cli": True}
                    obs = {"names": names, "matrix": rows}
                cid = "%d.%d.%d" % (i, 1 if avg else 0, bi)
                lines.append("C14\t%s\t%s\t%s\n" % (cid, sx(case), sx(obs)))
                back[cid] = (body, bi)
    if lines:
        j = subprocess.run([os.path.join(BUILD, "judge-C14")], input="".join(lines).encode(), stdout=subprocess.PIPE, stderr=subprocess.PIPE, timeout=900)
        seen = set()
        for line in j.stdout.decode("utf-8", "surrogateescape").split("\n"):
            parts = line.split("\t")
            if len(parts) < 2:
                continue
            seen.add(parts[0])
            info["cli_matrices_judged"] += 1
            if parts[1] != "OK":
                body, bi = back[parts[0]]
                fails.append(("cli-matrix", "matrix %d of the output: %s" % (bi + 1, " ".join(parts[1:3])[:300]), body))
        for cid in back:
            if cid not in seen:
                fails.append(("cli-judge", "no verdict for " + cid, None))
    info["evaluations"] = info["cli_matrices_judged"]
    info["cli_output_bytes"] = {"min": min(info["cli_output_bytes"] or [0]), "max": max(info["cli_output_bytes"] or [0]),
                                "above_4096": sum(1 for x in info["cli_output_bytes"] if x > 4096),
                                "above_65536": sum(1 for x in info["cli_output_bytes"] if x > 65536)}
    fails.sort(key=lambda x: len(json.dumps(x[2])) if x[2] else 0)
    return fails[:5], info
