"""C11: threaded computations are schedule-independent, race-free and terminate."""
import os, subprocess, re
from lib import *
import build

PROP = "C11"
LEVEL = "proof"
TECHNIQUE = ("Coq: interleaving semantics of the worker-pool pattern, theorems for every schedule and worker count (conservation, "
             "schedule-independent results, errors reach the caller, termination reachable), instantiated through facts the translator "
             "extracts from the goroutine literals of the current source; correspondence: real runs with 1 and k threads, race detector")
RULE = ("reference tree + 3..9 compared/bootstrap trees on the same taxa, op in {compare, weighted, fbp, tbe}, threads in {2,3,4,16,more than "
        "trees}, erroneous entries or foreign-taxon trees injected at one, several or all stream positions, or none; each case runs the real code with 1 "
        "thread and with k threads; non-trivial = both runs returned results; the same cases are re-run on a -race build")
TRUSTED = ["tools/gotrans extraction of goroutine facts (captured variables assigned outside mutex-protected statements, return paths without Done)",
           "Go runtime scheduler, memory model and race detector (data-race freedom is observed with -race, not proved)"]
ASSUMPTIONS = ["the job body of a worker is a function of its job when no captured variable is assigned in the worker literal (hash-map reads of the shared index are under its RWMutex)"]
LEVEL_TEXT = ("Theorems over an interleaving model of the pool pattern hold for every schedule and thread count; their hypotheses (no shared "
              "writes in workers, completion signalled on every exit) are re-extracted from the source on every run and checked by vm_compute. "
              "Real executions with several thread counts, error injection at every position and the race detector tie the model to the code.")
LEVEL_NOTE = "Partial: data-race freedom under the Go memory model and scheduler fairness are runtime behaviour the model cannot exhibit; they are observed (-race, watchdog), not proved."

def gen(rng, tier):
    g = Gen(rng)
    n = {"quick": 60, "thorough": 1500, "search": 150}[tier]
    out = []
    for _ in range(n):
        ntips = rng.randint(4, 10)
        ref = g.tree(ntips=ntips, rooted=False, maxdeg=rng.choice([2, 3]), lenmode="all", supmode="none")
        k = rng.randint(3, 9)
        trees = []
        for _i in range(k):
            r = rng.random()
            if r < 0.2:
                trees.append(ref)
            else:
                trees.append(g.tree(ntips=ntips, rooted=rng.random() < 0.2, maxdeg=rng.choice([2, 2, 3]), lenmode="all", supmode="none"))
        for op in ["compare", "weighted", "fbp", "tbe"]:
            threads = rng.choice([2, 3, 4, 16, k + 3])
            bk = rng.choice(["none", "none", "err", "taxa", "errtree"])
            case = {"op": Sym(op), "ref": T(ref), "trees": [T(t) for t in trees], "threads": threads,
                    "badkind": Sym(bk), "badposs": sorted(rng.sample(range(k), rng.choice([1, 1, 2, 3, min(k, 5), k]))), "tips": rng.random() < 0.5}
            out.append({"sx": sx(case), "meta": {"op": op, "threads": threads, "bad": bk, "ntrees": k, "nbad": len(case["badposs"]) if bk != "none" else 0}})
    # through the real reader (utils.ReadMultiTrees on a Newick text): a malformed or foreign tree far enough into the
    # stream for the reader to be a full channel buffer ahead of a consumer that starts late
    for _ in range({"quick": 16, "thorough": 200, "search": 40}[tier]):
        ntips = rng.randint(4, 8)
        ref = g.tree(ntips=ntips, rooted=False, maxdeg=2, lenmode="all", supmode="none")
        k = rng.choice([3, 9, 11, 12, 14, 25, 40])
        trees = [ref if rng.random() < 0.3 else g.tree(ntips=ntips, rooted=False, maxdeg=rng.choice([2, 3]), lenmode="all", supmode="none") for _i in range(k)]
        bk = rng.choice(["parse", "parse", "taxa", "none"])
        pos = rng.choice([0, 1, k // 2, k - 2, k - 1, min(k - 1, 10), min(k - 1, 11)])
        for op in ["compare", "weighted", "fbp", "tbe"]:
            threads = rng.choice([2, 4, 16])
            case = {"op": Sym(op), "feed": Sym("text"), "delayms": rng.choice([0, 0, 30, 60]), "ref": T(ref), "trees": [T(t) for t in trees],
                    "threads": threads, "badkind": Sym(bk), "badposs": [pos], "tips": rng.random() < 0.5}
            out.append({"sx": sx(case), "meta": {"op": op, "threads": threads, "bad": bk, "ntrees": k, "nbad": 1 if bk != "none" else 0, "feed": "text", "delay": case["delayms"]}})
    # transfer supports with the per-taxon / per-branch transfer tables: bigger references (branches of depth >= 5) and
    # bootstrap trees that are the reference with a few tips exchanged, so that several branches are close but absent
    for _ in range({"quick": 10, "thorough": 150, "search": 30}[tier]):
        ntips = rng.randint(30, 90)
        ref = g.tree(ntips=ntips, rooted=False, maxdeg=2, lenmode="all", supmode="none")
        import copy
        def swapped(t):
            t2 = copy.deepcopy(t)
            tl = [n for n in preorder(t2) if not kids(n)]
            for _s in range(rng.randint(1, 3)):
                a, b = rng.sample(tl, 2)
                a["name"], b["name"] = b["name"], a["name"]
            return t2
        k = rng.randint(4, 12)
        trees = [swapped(ref) for _i in range(k)]
        threads = rng.choice([2, 4, 8, 16])
        tables = rng.choice(["both", "both", "taxa", "branches"])
        case = {"op": Sym("tbetaxa"), "tables": Sym(tables), "ref": T(ref), "trees": [T(t) for t in trees], "threads": threads,
                "badkind": Sym("none"), "badposs": [], "tips": False}
        out.append({"sx": sx(case), "meta": {"op": "tbetaxa", "threads": threads, "bad": "none", "ntrees": k, "nbad": 0, "ntips": ntips, "tables": tables}})
    return out

def extra(tier, seed, st):
    """the same kind of cases on a -race build; any DATA RACE report is a violation"""
    import random
    wdir = os.path.join(build.HARNESS, "worker")
    racebin = os.path.join(build.BUILD, "worker-C11-race")
    rc, outp = build.sh(["go", "build", "-race", "-tags", "verif", "-o", racebin, "main.go", "sexp.go", "treeio.go", "c11.go"],
                        cwd=wdir, env=build.GOENV, timeout=900)
    info = {"race_build": rc == 0, "race_cases": 0, "races": 0}
    if rc != 0:
        return [("race-build", "the -race build of the harness failed: " + outp[-400:], None)], info
    rng = random.Random(seed + 7)
    cases = gen(rng, "quick" if tier == "quick" else "search")
    cases = [c for c in cases if c["meta"]["threads"] >= 2]
    taxa = [c for c in cases if c["meta"]["op"] == "tbetaxa"]
    text = [c for c in cases if c["meta"].get("feed") == "text"]
    plain = [c for c in cases if c["meta"]["op"] != "tbetaxa" and c["meta"].get("feed") != "text"]
    q = tier == "quick"
    cases = plain[: (50 if q else 300)] + taxa[: (10 if q else 100)] + text[: (24 if q else 100)]
    inp = "".join("C11\t%d\t%s\n" % (i, c["sx"]) for i, c in enumerate(cases))
    env = dict(os.environ, GORACE="halt_on_error=0")
    p = subprocess.run([racebin], input=inp.encode(), stdout=subprocess.PIPE, stderr=subprocess.PIPE, timeout=1200, env=env)
    err = p.stderr.decode("utf-8", "replace").replace("\r", "\n")
    info["race_cases"] = len(cases)
    info["evaluations"] = len(cases)
    races = re.findall(r"WARNING: DATA RACE.*?(?==================|\Z)", err, flags=re.S)
    info["races"] = len(races)
    fails = []
    if races:
        # name the racing functions of the first report
        funcs = re.findall(r"^\s+([\w./()*]+)\(\)\n\s+(/repo/\S+)", races[0], flags=re.M)
        fails.append(("race", "data race reported by the race detector: " + "; ".join("%s %s" % (a, b) for a, b in funcs[:4]),
                      {"report": races[0][:3000], "n_reports": len(races)}))
    return fails, info

MATCHERS = {}
