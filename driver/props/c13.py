"""C13: format conversions and reader entry points agree."""
from lib import *
from lib import _fmt
import json as _json
import os

PROP = "C13"
LEVEL = "proof"
LEVEL_TEXT = "partial"
LEVEL_NOTE = ("proved for all inputs on the common domain stated on the trees themselves (inside C01's quantifier, no comment, no "
              "p-value, tip names = Nexus labels, distinct node names, inner names neither labels nor numbers, same taxa in every "
              "tree): Newick -> Nexus (with and without translate table) -> Newick returns the same roses in order under tree<id> "
              "(C13_conversions), Newick -> PhyloXML -> Newick returns shape, names, lengths, supports; first-tree = head of "
              "iteration for the four formats; ids consecutive; the multi-Newick reader as a function of the physical lines. "
              "The XML and JSON text layers are encoding/xml / encoding/json (trusted, observed on every case)")
RULE = ("lists of 1..5 random well-formed trees (2..12 tips, rooted / unrooted / multifurcating, parent slots at random "
        "positions, lengths absent/zero/dyadic, supports on unnamed inner branches, named inner nodes) with labels legal in "
        "the three formats (plain, digits only, UTF-8, punctuation other than blanks = quotes < > & and the Newick "
        "metacharacters) on one common taxon set or (10%) on differing taxon sets; translate on/off; layout of the Newick "
        "file: one tree per line, blank lines, whitespace-only lines, trailing blanks, CRLF, no final newline, trees "
        "broken over several lines after each comma, or (layout brkbefore) with LF / CRLF right after labels and numbers, i.e. before "
        "every n-th ',' ')' ':' (single reader against the multi reader), two trees on one line; files of 5..40 KB (2..5 trees of 100..330 tips with "
        "lengths) wrapped at random commas so that statements straddle the refills of bufio's 4096-byte buffer; every list is "
        "a deterministic buffer-boundary stream (the ';' ending a tree, the blank/tab/CR/LF after it, the '(' of the next tree at "
        "byte B-2..B+1 of a line longer than bufio's buffer, B = 4096, 8192, 65536 thorough; three trees per file, also as second "
        "line); numbers: dyadic, or (16% of the lists) full-precision binary64 values -- random 52-bit mantissas over 40 binades, "
        "one ulp beside short decimals, results of float arithmetic (0.1*3, 1/3, 0.1+0.2) -- on every chain, "
        "compared exactly; 15% of the lists have inner node names that begin like a support/p-value pair but are names "
        "(85.2/0.99/100, 1/2/3, 0.5/0.25x, 1e3/2/ ...); 30% of the lists are PhyloXML-born / named through the API: inner nodes with name AND support (AND length), "
        "name only, support only, neither, named roots; every list is also rendered here (not by the writer under test) as a "
        "PhyloXML document (<name>/<branch_length>/<confidence> in any order, indented or not, tips through <taxonomy>) and goes "
        "document -> tree, document -> WritePhyloXML -> tree (oracle: name, length and support of every clade), document -> "
        "Newick / Nexus -> tree (oracle: the tree without the supports that Newick cannot print beside a name; the rest by "
        "correspondence), single-tree accessor on the document; 30% of the lists are also rendered here as a Nexus file whose TREE "
        "statements are spread over two or three TREES blocks (empty blocks included; blocks closed with END; or ENDBLOCK;, unsupported blocks closed either way before / between / after; no TRANSLATE table, the same one in every block, in "
        "the first only, or one per block with the same keys 1..n for the taxa in another order; TAXA block before / between) and read with the multi-tree and the single-tree reader (oracle: every tree "
        "in file order, or an error record); the command line (extra): `gotree reformat newick|nexus|nexus --translate|phyloxml -i IN [-o OUT]` on 6 lists (60 thorough) with "
        "OUT fresh / an existing longer file / an existing shorter file / stdout (byte-identical), input from file and stdin, output "
        "read back with `reformat newick -f <fmt>` against the input; every list is "
        "also written from the trees as BUILT through the API (parent slots at random positions, as after a reroot) to PhyloXML "
        "and Nexus, and to Nexus from records whose Id was never set (all TREE statements named tree0); plus lists outside the quantifier (Nexus "
        "keywords in any case as labels, e.g. end, TREE, taxlabelſ) for the correspondence only. A case is non-trivial "
        "when every tree is inside the quantifier (the oracle ran); distinct = distinct case text")
TRUSTED = ["tree built through NewNode/NewEdge + verif hooks; dump through Neigh()/Edges()/Left()/Right()",
           "encoding/xml and encoding/json (the PhyloXML model starts at the decoded clade value; the Nextstrain accessor "
           "agreement is observed only)"]
ASSUMPTIONS = ["the quantifier 'tree lists' is read as: any sequence of ';'-terminated Newick trees separated by arbitrary "
               "white space and line breaks (Newick has no line structure; readln.go documents that a tree may span lines): "
               "two trees on one physical line are inside it",
               "strconv: C01's strconv_ok, and FormatFloat(x,'f',-1,64) prints no '=' (hypotheses of C13_conversions)",
               "the number of taxa of a list is below 2^63 (ParseInt range of DIMENSIONS NTAX)",
               "labels additionally must not be a Nexus keyword in any letter case (the scanner turns a bare end, tree, gap ... "
               "into a keyword token) and must be distinct within a tree"]

def _msg(case):
    return " ".join(case.get("fields") or [])

MATCHERS = {
    # "(a,b);(c,d);\n(e,f);\n": the splitter cuts only at a ';' that ends a physical line and Parse stops at the first ';':
    # (c,d) is dropped, ids stay consecutive, no error
    "C13-newick-two-trees-one-line": lambda case: case.get("kind") == "ORACLE" and "multi-tree reader:" in _msg(case)
        and "silently skipped" in _msg(case) and (case.get("meta") or {}).get("layout") == "sameline",
    # WriteNexus lists the union of the taxa of all trees in TAXLABELS, the parser then rejects every tree that lacks one of them
    "C13-nexus-taxa-union": lambda case: case.get("kind") == "ORACLE" and "Newick -> Nexus -> Newick: reading back fails" in _msg(case)
        and "Some tax names defined in TAXLABELS are not present in the tree" in _msg(case)
        and (case.get("meta") or {}).get("taxa") == "differ",
}

LEGAL = ["A", "B", "Homo_sapiens", "x1", "Taxon-7", "a.b", "12", "0", "7", "+5", "-3", "é", "α", "naïve", "a|b", "x/y", "100%", "_", "#1",
         "ends", "treees", "T", "F", "U", "N", "D", "e5", "1e5", "0x", "a{1}", "x*", "a\\b", "begin_", "nexus", "tax", "k~v", "a^b", "`q`", "a!b?", "@home", "$1"]
KEYWORDS = ["end", "END", "endblock", "EndBlock", "tree", "Trees", "gap", "data", "#NEXUS", "matrix", "taxlabelſ", "mıssıng", "begin", "format", "translate", "ntax",
            "dimensions", "characters", "datatype", "nchar", "taxa", "taxlabels", "missing"]

def names_for(rng, n, illegal=False):
    out = []
    used = set()
    for i in range(n):
        r = rng.random()
        if illegal and r < 0.3:
            x = rng.choice(KEYWORDS)
        elif r < 0.35:
            x = rng.choice(LEGAL)
        else:
            x = "t%d" % i
        if x in used:
            x = x + "_%d" % i
        used.add(x)
        out.append(x)
    return out

import struct as _struct, math as _math

def full_double(rng, unit=False):
    """a binary64 value whose shortest decimal form needs 16-17 significant digits (most of the time)"""
    r = rng.random()
    if r < 0.45:
        e = rng.randint(-20, 20) if not unit else rng.randint(-12, -1)
        bits = ((1023 + e) << 52) | rng.getrandbits(52)
        x = _struct.unpack(">d", _struct.pack(">Q", bits))[0]
    elif r < 0.65:
        base = rng.choice([0.1, 0.2, 0.3, 0.7, 1.1, 2.5, 0.05, 123.456, 1e-5, 0.999])
        x = _math.nextafter(base, rng.choice([0.0, 1e9]))
        if unit: x = min(x, 1.0)
    elif r < 0.85:
        a, b = rng.choice([(0.1, 3), (0.1, 7), (0.7, 3), (1.1, 1.1), (0.3, 3), (2.2, 3)])
        x = a * b if not unit else (a * b) % 1.0
    else:
        x = rng.choice([1.0 / 3, 2.0 / 3, 1.0 / 7, 0.30000000000000004, 0.1 + 0.2, 1e-7 / 3, 1e22 / 3 if not unit else 0.9999999999999999, 0.9999999999999999])
    if x == -1.0 or x != x:
        x = 0.5
    return Fraction(x)

def make_tree(rng, names, numbers="dyadic"):
    t = _make_tree(rng, names)
    if numbers == "full":
        for x in preorder(t):
            for e, c in kids(x):
                if e["len"] is not None and rng.random() < 0.6:
                    e["len"] = full_double(rng)
                if e["sup"] is not None and rng.random() < 0.6:
                    e["sup"] = full_double(rng, unit=True)
    return t

def slash_labels(rng, t):
    """inner node names that begin like a support/p-value pair but are not one: <float>/<float>/<anything>,
    <float>/<float><letters>, 1/2/3, 1e3/2/ (IQ-TREE writes three-valued branch labels such as 85.2/0.99/100): names, legal in
    the three formats; the branch above has no support"""
    k = 0
    used = set(n.get("name") for n in preorder(t) if n.get("name"))
    for x in preorder(t):
        for e, c in kids(x):
            if not kids(c) or rng.random() < 0.5:
                continue
            k += 1
            a = rng.choice(["85.2", "1", "0.5", "1e3", "100", "0", ".5", "+1", "-2", "7e-2", "99.9"])
            b = rng.choice(["0.99", "2", "0.25", "1", "0", "1e-3", ".5", "-0"])
            c["name"] = rng.choice(["%s/%s/%d" % (a, b, 100 - k), "%s/%s/" % (a, b), "%s/%s/%d/%d" % (a, b, k, k),
                                    "%s/%sx%d" % (a, b, k), "%s/%s_%d" % (a, b, k), "%s/%s/n%d" % (a, b, k),
                                    "%s/%s-%d" % (a, b, k), "%s/%se" % (a, b), "%s/%s%%" % (a, b)])
            # inner names stay distinct within a tree (Tree.Rename, which the Nexus reader applies for a translate
            # table, refuses a tree with two nodes of one name: outside what this stream is about)
            if c["name"] in used:
                c["name"] = "%s/%s/d%d" % (a, b, k)
            used.add(c["name"])
            e["sup"] = None
            e["pv"] = None
    return t

def _make_tree(rng, names):
    g = Gen(rng)
    t = g.tree(ntips=len(names), maxdeg=5, lenmode=rng.choice(["all", "mixed", "none"]), supmode=rng.choice(["mixed", "none", "all"]),
               inner_names=rng.random() < 0.3, comments=False, up_random=rng.random() < 0.5)
    nm = list(names)
    rng.shuffle(nm)
    i = 0
    for x in preorder(t):
        if not kids(x):
            x["name"] = nm[i]; i += 1
        for e, c in kids(x):
            e["pv"] = None
    return t

PX_NAMES = ["Primates", "Homo", "clade-A", "node.1", "Eukaryota", "grp_β", "n#1", "x/y", "a|b", "inner"]

def px_born(rng, t, numbers="dyadic"):
    """what a PhyloXML file of another tool (or a tree whose inner nodes were named through the API after reading) has and a
    Newick-born tree never has: inner clades with name AND confidence (and branch length), beside name only, confidence
    only, neither"""
    g = Gen(rng)
    k = 0
    used = set(n.get("name") for n in preorder(t) if n.get("name"))
    for x in preorder(t):
        for e, c in kids(x):
            if not kids(c):
                continue
            k += 1
            r = rng.random()
            def sup():
                return full_double(rng, unit=True) if numbers == "full" and rng.random() < 0.5 else \
                    rng.choice([g.dyadic(64, 64), Fraction(rng.randint(0, 100)), Fraction(1), Fraction(0)])
            name = "%s_%d" % (rng.choice(PX_NAMES), k)
            # node names stay distinct within a tree (tips included): Tree.Rename, applied for a Nexus translate
            # table, refuses a tree with two nodes of one name
            while name in used:
                name += "i"
            used.add(name)
            if r < 0.45:
                c["name"], e["sup"] = name, sup()
                if rng.random() < 0.7 and e["len"] is None:
                    e["len"] = g.dyadic(256, 64)
            elif r < 0.6:
                c["name"], e["sup"] = name, None
            elif r < 0.8:
                c["name"], e["sup"] = "", sup()
            elif r < 0.9:
                c["name"], e["sup"] = "", None
            # else: as generated
    if rng.random() < 0.2:
        t["name"] = "root_" + rng.choice(PX_NAMES)
    return t

def _xml_text(x):
    return x.replace("&", "&amp;").replace("<", "&lt;").replace(">", "&gt;")

def px_doc(rng, trees):
    """the trees as a PhyloXML document, rendered here (not by the writer under test): every clade has its <name>,
    <branch_length> and <confidence> when the node / branch has them, in a random order, sub-clades in order; indented or on
    one line; 8% of the tips are named through <taxonomy><scientific_name> or <code>"""
    pretty = rng.random() < 0.5
    nl = "\n" if pretty else ""
    def clade(x, e, depth):
        ind = ("  " * depth) if pretty else ""
        items = []
        ks = kids(x)
        if x["name"] != "":
            r = rng.random()
            if ks or r >= 0.08:
                items.append("<name>%s</name>" % _xml_text(x["name"]))
            elif r < 0.04:
                items.append("<taxonomy><scientific_name>%s</scientific_name></taxonomy>" % _xml_text(x["name"]))
            else:
                items.append("<taxonomy><id provider=\"x\">7</id><code>%s</code></taxonomy>" % _xml_text(x["name"]))
        if e is not None:
            if e["len"] is not None:
                items.append("<branch_length>%s</branch_length>" % _fmt(e["len"]))
            if e["sup"] is not None:
                items.append("<confidence%s>%s</confidence>" % (rng.choice(["", " type=\"bootstrap\""]), _fmt(e["sup"])))
        if rng.random() < 0.3:
            rng.shuffle(items)
        subs = [clade(c, ce, depth + 1) for ce, c in ks]
        if subs and rng.random() < 0.1:
            body = subs + items          # sub-clades before the clade's own fields
        else:
            body = items + subs
        return ind + "<clade>" + nl + "".join((ind + "  " if pretty and not b.lstrip().startswith("<clade>") else "") + b + nl for b in body) + ind + "</clade>"
    out = ['<?xml version="1.0" encoding="UTF-8"?>' + nl,
           rng.choice(['<phyloxml>', '<phyloxml xmlns:xsi="http://www.w3.org/2001/XMLSchema-instance" xmlns="http://www.phyloxml.org">']) + nl]
    for t in trees:
        rooted = len(kids(t)) == 2
        out.append('<phylogeny rooted="%s">' % ("true" if rooted else "false") + nl)
        if rng.random() < 0.2:
            out.append("<name>a phylogeny</name>" + nl)
        out.append(clade(t, None, 1) + nl)
        out.append("</phylogeny>" + nl)
    out.append("</phyloxml>" + nl)
    return "".join(out)

def _renamed(t, m):
    return {"name": m.get(t["name"], t["name"]) if not kids(t) else t["name"], "coms": list(t["coms"]),
            "slots": [None if sl is None else (sl[0], _renamed(sl[1], m)) for sl in t["slots"]]}

def nx_doc(rng, trees, same_taxa):
    """the trees as a Nexus file whose TREE statements are spread over two or three TREES blocks (some of them possibly
    empty), rendered here: no TRANSLATE table, the same table in every non-empty block, in the first block only (the later
    blocks use its indices), or a table of its own in every non-empty block with the same keys 1..n for the taxa in another
    order; a TAXA block before or between when the trees share their taxa.  Returns (text, plan)"""
    k = len(trees)
    nb = rng.choice([2, 2, 2, 3])
    cuts = sorted(rng.randint(0, k) for _ in range(nb - 1))
    groups = [list(range(a, b)) for a, b in zip([0] + cuts, cuts + [k])]
    tables = rng.choice(["none", "none", "all", "first", "perm", "perm"])
    tips = []
    for t in trees:
        for x in preorder(t):
            if not kids(x) and x["name"] not in tips:
                tips.append(x["name"])
    idx = {n: str(i + 1) for i, n in enumerate(tips)}
    order = list(tips)
    # END; or its other spelling ENDBLOCK; closes a block; unsupported blocks closed either way before / between / after
    endw = lambda: rng.choice(["END;", "END;", "ENDBLOCK;", "EndBlock;", "endblock ;"])
    foo = lambda: rng.choice(["", "", "BEGIN FOO;\n x y;\n%s\n" % endw(), "BEGIN NOTES;\n TEXT a=b;\n [c]\nENDBLOCK;\n"])
    taxa = "BEGIN TAXA;\n DIMENSIONS NTAX=%d;\n TAXLABELS %s;\n%s\n" % (len(tips), " ".join(tips), endw())
    where = rng.choice(["", "", "before", "between"]) if same_taxa else ""
    out = ["#NEXUS\n", foo()]
    if where == "before":
        out.append(taxa)
    seen_nonempty = False
    for bi, g in enumerate(groups):
        out.append("BEGIN TREES;\n")
        tab = tables in ("all", "perm") and g or tables == "first" and not seen_nonempty and g
        if tab:
            if tables == "perm":
                # every block has its own table: the SAME keys 1..n for the taxa in ANOTHER order (as two outputs of
                # `reformat nexus --translate` whose first trees list the tips in different orders, concatenated)
                order = list(tips)
                if seen_nonempty or rng.random() < 0.5:
                    rng.shuffle(order)
                idx = {n: str(i + 1) for i, n in enumerate(order)}
            out.append(" TRANSLATE\n" + ",\n".join("  %s %s" % (idx[n], n) for n in order) + "\n ;\n")
        for i in g:
            t = _renamed(trees[i], idx) if tables != "none" else trees[i]
            out.append(" TREE tree%d = %s\n" % (i, newick(t)))
        if g:
            seen_nonempty = True
        out.append(endw() + "\n" + foo())
        if bi == 0 and where == "between":
            out.append(taxa)
    return "".join(out), "%s/%s" % ("-".join(str(len(g)) for g in groups), tables)

def ns_json(t):
    def node(x, div):
        d = {"name": x["name"], "node_attrs": {"div": div}}
        ks = kids(x)
        if ks:
            d["children"] = [node(c, div + float(e["len"] if e["len"] is not None else 0)) for e, c in ks]
        return d
    return _json.dumps({"version": "v2", "meta": {}, "tree": node(t, 0.0)}, ensure_ascii=False)

LAYOUTS = ["lines", "lines", "lines", "blank", "wsline", "trail", "crlf", "nofinal", "breaks", "brkbefore", "brkbefore", "sameline", "sameline"]

def seps_for(rng, layout, k):
    if layout == "blank":
        return [rng.choice(["\n", "\n\n", "\n\n\n"]) for _ in range(k)]
    if layout == "wsline":
        return [rng.choice(["\n", "\n \n", "\n\t\n", "\n  \t \n"]) for _ in range(k)]
    if layout == "trail":
        return [rng.choice([" \n", "\t\n", "  \n", "\n"]) for _ in range(k)]
    if layout == "crlf":
        return ["\r\n"] * k
    if layout == "nofinal":
        return ["\n"] * (k - 1) + [""]
    if layout == "sameline":
        s = ["\n"] * k
        for i in range(k - 1):
            if rng.random() < 0.6:
                s[i] = rng.choice(["", " ", "\t"])
        if k > 1 and all(x == "\n" for x in s):
            s[rng.randrange(k - 1)] = ""
        return s
    return ["\n"] * k

def big_case(rng):
    """a Newick file of 5..40 KB whose trees are wrapped over several physical lines at random commas: the statements
    straddle the refills of bufio's 4096-byte buffer (the first tree alone is longer than the buffer half of the time)"""
    if rng.random() < 0.75:
        k = rng.choice([2, 2, 3]); ntips = rng.randint(250, 330)      # every statement longer than the buffer
    else:
        k = rng.choice([3, 4, 5]); ntips = rng.randint(100, 160)
    names = names_for(rng, ntips, False)
    trees = []
    for i in range(k):
        g = Gen(rng)
        t = g.tree(ntips=ntips, maxdeg=4, lenmode="all", supmode=rng.choice(["mixed", "all"]), inner_names=rng.random() < 0.2,
                   comments=False, up_random=rng.random() < 0.5)
        nm = list(names); rng.shuffle(nm)
        j = 0
        for x in preorder(t):
            if not kids(x):
                x["name"] = nm[j]; j += 1
            for e, c in kids(x):
                e["pv"] = None
        trees.append(t)
    ncommas = sum(n_nodes(t) for t in trees)
    p = rng.choice([0.02, 0.05, 0.1, 0.3])
    breakat = [i for i in range(ncommas) if rng.random() < p]
    o = {"trees": [T(t) for t in trees], "translate": rng.random() < 0.5, "seps": ["\n"] * k, "breaks": False,
         "breakat": breakat, "nsjson": ns_json(trees[0])}
    return {"sx": sx(o), "meta": {"ntrees": k, "layout": "bigwrap", "translate": o["translate"], "taxa": "same", "labels": "legal"}}

def _tip(n):
    return {"name": n, "coms": [], "slots": [None]}
def _edge():
    return {"len": None, "sup": None, "pv": None, "coms": []}
def _pad_tree(i, total):
    """a names-only tree on the taxa P<i>, a, b, c whose Newick text has exactly [total] bytes (by padding the first name)"""
    t = {"name": "", "coms": [], "slots": [(_edge(), _tip("P")), (_edge(), _tip("a")),
                                            (_edge(), {"name": "", "coms": [], "slots": [None, (_edge(), _tip("b")), (_edge(), _tip("c"))]})]}
    base = len(newick(t).encode())
    assert total >= base
    t["slots"][0][1]["name"] = "P" + "p" * (total - base)
    assert len(newick(t).encode()) == total
    return t

def boundary_cases(tier):
    """deterministic buffer-boundary stream for the multi-tree Newick reader (bufio.ReadLine hands a line longer than its
    4096-byte buffer over in chunks counted from the start of the line): the ';' ending a tree, the blank / tab / CR / LF
    after it and the '(' of the next tree at byte B-2..B+1 of the line resp. file, B = 4096, 8192 (65536 thorough); three
    trees per file; the same trees go through every conversion chain"""
    out = []
    Bs = [4096, 8192] + ([65536] if tier == "thorough" else [])
    plans = [("semi", " \n"), ("semi", "\t \n"), ("semi", "\n"), ("semi", "\r\n"),
             ("blank", "\t\n"), ("nl", "\r\n"), ("open", " \n")]
    if tier == "thorough":
        plans += [("semi", "  \t\n"), ("blank", " \n"), ("nl", "\n"), ("open", "\n")]
    if tier == "search":
        plans = plans[:3]
    small = lambda: {"name": "", "coms": [], "slots": [(_edge(), _tip("P")), (_edge(), _tip("b")), (_edge(), _tip("a")), (_edge(), _tip("c"))]}
    for B in Bs:
        for d in (-2, -1, 0, 1):
            for what, sep in plans:
                # byte number B+d (counted from 1) of the first line is the target byte
                if what == "semi":    n1 = B + d
                elif what in ("blank", "nl"): n1 = B + d - 1
                else:                 n1 = B + d - 1 - len(sep)
                for second in (False, True):
                    if second and (B != 4096 or what != "semi"):
                        continue
                    first = _pad_tree(0, n1)
                    trees = [small(), first, small()] if second else [first, small(), small()]
                    seps = ["\n", sep, "\n"] if second else [sep, "\n", "\n"]
                    # same taxa in every tree: the small trees carry the padded name too
                    for t in trees:
                        t["slots"][0][1]["name"] = first["slots"][0][1]["name"]
                    o = {"trees": [T(t) for t in trees], "translate": (d % 2 == 0), "seps": seps, "breaks": False,
                         "nsjson": ns_json(trees[0])}
                    out.append({"sx": sx(o), "meta": {"ntrees": 3, "layout": "boundary:" + what, "B": B, "delta": d,
                                                      "translate": o["translate"], "taxa": "same", "labels": "legal"}})
    return out

def gen(rng, tier):
    n = {"quick": 500, "thorough": 30000, "search": 300}[tier]
    out = []
    bigs = [big_case(rng) for _ in range({"quick": 9, "thorough": 1200, "search": 5}[tier])]
    for _ in range(n):
        illegal = rng.random() < 0.12
        k = rng.choice([1, 1, 2, 2, 3, 4, 5])
        ntips = rng.randint(2, 12 if tier != "thorough" else 30)
        names = names_for(rng, ntips, illegal)
        differ = k > 1 and rng.random() < 0.1
        trees = []
        numbers = "full" if rng.random() < 0.16 else "dyadic"
        for i in range(k):
            nm = names
            if differ and i > 0:
                nm = rng.sample(names, max(2, len(names) - rng.choice([1, 2]))) if rng.random() < 0.6 and len(names) > 2 else names + ["extra%d" % i]
            trees.append(make_tree(rng, nm, numbers))
        born = "newick"
        if rng.random() < 0.15:
            born = "newick-slash"
            for t in trees:
                slash_labels(rng, t)
        elif rng.random() < 0.3:
            born = "phyloxml"
            for t in trees:
                px_born(rng, t, numbers)
        layout = rng.choice(LAYOUTS) if k > 1 else rng.choice(["lines", "nofinal", "trail", "breaks", "brkbefore", "brkbefore", "crlf"])
        if layout == "sameline" and k < 2:
            layout = "lines"
        o = {"trees": [T(t) for t in trees], "translate": rng.random() < 0.5, "seps": seps_for(rng, layout, k),
             "breaks": layout == "breaks", "nsjson": ns_json(trees[0]), "pxdoc": px_doc(rng, trees)}
        if layout == "brkbefore":
            # a line break (LF or CRLF) right after labels and numbers: before every n-th ',' ')' ':' of the file
            o["brk_before"] = rng.choice(["\n", "\n", "\r\n"])
            o["brk_every"] = rng.choice([1, 1, 2, 3, 5])
            if o["brk_before"] == "\r\n":
                o["seps"] = ["\r\n"] * k
        blocks = None
        if rng.random() < 0.3:
            o["nxdoc"], blocks = nx_doc(rng, trees, not differ)
        out.append({"sx": sx(o), "meta": {"ntrees": k, "layout": layout, "translate": o["translate"], "taxa": "differ" if differ else "same",
                                          "labels": "with-keywords" if illegal else "legal", "numbers": numbers, "born": born, "blocks": blocks}})
    # the big files are spread over the chunks of 200 cases (one worker and judge process per chunk)
    bigs = bigs + boundary_cases(tier)
    step = max(1, len(out) // max(1, len(bigs)))
    for j, bc in enumerate(bigs):
        out.insert(min(len(out), j * (step + 1)), bc)
    return out


# ---------------------------------------------------------------- the command line: gotree reformat <fmt> -i IN -o OUT
def extra(tier, seed, st):
    """`gotree reformat newick|nexus|phyloxml` (cmd/reformat*.go) on files: the output written to (a) a fresh file, (b) an
    existing LONGER file left by a previous conversion, (c) an existing shorter file, must be byte-identical to (d) what is
    written to stdout; input from a file and from stdin must give the same output; and reading the output back
    (`gotree reformat newick -f <fmt>`) must give the Newick text of the input trees (names, lengths, supports, tree count,
    order)."""
    import random, shutil, cli
    info = {"evaluations": 0, "distinct_nontrivial": 0, "cli_lists": 0}
    ok, err = cli.build_gotree()
    if not ok:
        return [("build", "gotree no longer builds: " + err[-500:], None)], info
    rng = random.Random(seed + 13)
    fails = []
    d = cli.scratch("c13-")
    def nwfile(trees):
        return ("".join(newick(t) + "\n" for t in trees)).encode()
    def mk_list(k, ntips):
        names = names_for(rng, ntips, False)
        return [make_tree(rng, names, "dyadic") for _ in range(k)]
    try:
        nlists = {"quick": 6, "thorough": 60}.get(tier, 6)
        for li in range(nlists):
            k = rng.choice([1, 2, 3, 4])
            ntips = rng.randint(3, 10)
            trees = mk_list(k, ntips)
            longer = mk_list(k + rng.choice([2, 3, 5]), ntips + rng.randint(2, 8))
            shorter = mk_list(1, 2)
            sub = os.path.join(d, "l%d" % li)
            os.makedirs(sub)
            for name, ts in (("in.nw", trees), ("long.nw", longer), ("short.nw", shorter)):
                open(os.path.join(sub, name), "wb").write(nwfile(ts))
            # the reference: the input normalised by the tool itself
            rc0, ref, se0 = cli.run(["reformat", "newick", "-i", "in.nw"], sub)
            info["evaluations"] += 1
            if rc0 != 0:
                fails.append(("cli", "`gotree reformat newick -i in.nw` fails on a well-formed file: " + se0.decode("utf-8", "replace")[-200:],
                              {"input": nwfile(trees).decode()}))
                continue
            for fmt, args in (("newick", []), ("nexus", []), ("nexus", ["--translate"]), ("phyloxml", [])):
                label = "reformat %s%s" % (fmt, (" " + " ".join(args)) if args else "")
                base = ["reformat", fmt] + args
                rc, so, se = cli.run(base + ["-i", "in.nw"], sub)                      # (d) stdout
                info["evaluations"] += 1
                if rc != 0:
                    fails.append(("cli", "`gotree %s -i in.nw` fails: %s" % (label, se.decode("utf-8", "replace")[-200:]), {"input": nwfile(trees).decode()}))
                    continue
                def body(kind, got):
                    return {"command": "gotree " + label, "out": kind, "input": nwfile(trees).decode(), "expected": so.decode("utf-8", "replace")[:3000],
                            "got": got.decode("utf-8", "replace")[:3000]}
                # input from stdin
                rc, so2, se = cli.run(base, sub, stdin=nwfile(trees))
                info["evaluations"] += 1
                if rc != 0 or so2 != so:
                    fails.append(("cli:stdin", "`gotree %s` reading stdin gives another output than with -i FILE" % label, body("stdin", so2)))
                for kind, pre in (("fresh", None), ("existing-longer", "long.nw"), ("existing-shorter", "short.nw")):
                    out = "out-%s-%s%s.txt" % (kind, fmt, "-tr" if args else "")
                    if pre is not None:
                        rcp, _, sep = cli.run(base + ["-i", pre, "-o", out], sub)
                        info["evaluations"] += 1
                        if rcp != 0:
                            continue
                    rc, so3, se = cli.run(base + ["-i", "in.nw", "-o", out], sub)
                    info["evaluations"] += 1
                    got = open(os.path.join(sub, out), "rb").read() if os.path.exists(os.path.join(sub, out)) else b""
                    if rc != 0 or got != so:
                        fails.append(("cli:out:" + kind,
                                      "`gotree %s -i in.nw -o OUT` with OUT %s: the file differs from what the same command writes to stdout "
                                      "(%d bytes instead of %d)" % (label, kind.replace("-", " "), len(got), len(so)), body(kind, got)))
                        continue
                    # read the file back
                    rc, back, se = cli.run(["reformat", "newick", "-f", fmt, "-i", out], sub)
                    info["evaluations"] += 1
                    if rc != 0 or back != ref:
                        fails.append(("cli:back:" + kind,
                                      "reading back the output of `gotree %s -o OUT` (OUT %s) does not give the input trees: %s"
                                      % (label, kind, (se.decode("utf-8", "replace")[-150:] if rc != 0 else back.decode("utf-8", "replace")[:150])),
                                      body(kind, back)))
                    else:
                        info["distinct_nontrivial"] += 1
            info["cli_lists"] += 1
    finally:
        shutil.rmtree(d, ignore_errors=True)
    # one failure per kind is enough for the report
    seen, uniq = set(), []
    for f in fails:
        if f[0] not in seen:
            seen.add(f[0]); uniq.append(f)
    return uniq, info
