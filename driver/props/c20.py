"""C20: random selection is unbiased."""
import os, re, math, shutil, random
from concurrent.futures import ThreadPoolExecutor
from lib import *
import cli

PROP = "C20"
PAR_OK = lambda c: '(op enum-' in c['sx']   # every other op uses the process-wide math/rand source
LEVEL = "proof"
RULE = ("(1) per-seed prediction: `gotree sample -n k [--replace] --seed s` on files of n = 1..9 distinct trees (k<n, k=n, k>n) and "
        "`gotree prune --random k [-r] --seed s` on random trees of 5..12 tips are run by the driver; the worker records the raw "
        "rand stream of s and the Coq model of the loop, driven by that stream, must predict exactly which trees / tips the binary "
        "selected; Tree.ShuffleTips on random trees in the worker, same prediction; (2) enumeration cases: the model is run on "
        "EVERY choice vector of small instances and the outcome distribution is judged exactly; (3) extra: outcome frequencies of "
        "the binary over many seeds, exact binomial tests and a support check (supporting evidence only); unseeded stream: every "
        "random command run 8 times in fresh processes without --seed and with --seed -1 on inputs with >= 20 equally likely "
        "outcomes must not print 8 identical results (false alarm probability <= 20^-7 per command). Non-trivial = a "
        "prediction was compared / an enumeration was run; distinct = distinct case text")
TRUSTED = ["the real gotree binary is run by the driver (build/gotree, go build of /repo); its output is parsed by regular expressions "
           "(tree labels t<i>, tip names)",
           "rand.Seed(seed) in cmd/root.go seeds the same global source as the worker's rawStream(seed)",
           "Tips() order of a tree parsed from Newick = order of the names in the text"]
ASSUMPTIONS = ["math/rand: each rand.Intn(b) is uniform on [0,b) and successive calls are independent (the counting theorems range over "
               "the product space of choice vectors); Intn/Int31n/Perm transcribed in Model/Rand.v"]
LEVEL_TEXT = ("counting theorems in coq/Properties/C20.v and C20Extra8.v (per-item inclusion probability min(k,n)/n, slot marginals and product form with replacement, all n and k) over all choice vectors about Model/Sampling.v and Model/TreeGen.v; the "
              "transcribed loops are tied to the binary by exact per-seed prediction from the recorded random stream")
LEVEL_NOTE = ("the reservoir index of cmd/sample.go and cmd/prune.go was false of the code as first read (rand.Intn(i)); fixed in /repo "
              "(202a79d, 4c6febb), the model constant code_bound follows the code; the rooted uniform generator stays an open finding")

_built = {}

def _gotree():
    if "ok" not in _built:
        ok, err = cli.build_gotree()
        _built["ok"] = ok
        _built["err"] = err
    return _built["ok"], _built["err"]

def _runs(jobs, workers=12):
    """jobs: list of (argv, cwd) -> list of (rc, stdout text)"""
    def one(j):
        rc, so, se = cli.run(j[0], j[1])
        return rc, so.decode("utf-8", "replace")
    with ThreadPoolExecutor(max_workers=workers) as ex:
        return list(ex.map(one, jobs))

def _write_trees(d, n, name="in.nw"):
    p = os.path.join(d, name)
    with open(p, "w") as f:
        for i in range(n):
            f.write("(a,b,t%d);\n" % i)
    return p

def _write_nexus(path, newicks, style="distinct", translate=False):
    """a Nexus file with one TREE statement per Newick string; tree names: distinct / all equal / equal in pairs;
    with translate, the tip names are replaced by numbers declared in a TRANSLATE command"""
    names = []
    for nw in newicks:
        for x in _names(nw):
            if x not in names:
                names.append(x)
    out = ["#NEXUS", "BEGIN TREES;"]     # no TAXA block: gotree requires every TAXLABELS name in every tree
    if translate:
        out.append("  TRANSLATE " + ", ".join("%d %s" % (i + 1, x) for i, x in enumerate(names)) + ";")
    for i, nw in enumerate(newicks):
        if translate:
            nw = re.sub(r"([(,]\s*)([A-Za-z][A-Za-z0-9_]*)", lambda m: m.group(1) + str(names.index(m.group(2)) + 1), nw)
        tn = {"distinct": "tree%d" % i, "equal": "rep", "pairs": "rep%d" % (i // 2)}[style]
        out.append("  TREE %s = %s" % (tn, nw.strip()))
    out.append("END;")
    open(path, "w").write("\n".join(out) + "\n")
    return path

def _selected(out):
    return [int(x) for x in re.findall(r"\bt(\d+)\b", out)]

def _names(nw):
    return re.findall(r"[(,]\s*([A-Za-z][A-Za-z0-9_]*)", nw)

def gen(rng, tier):
    out = []
    # ---- enumeration cases (model only)
    for n in range(1, 6):
        for k in range(1, 5):
            for repl in (False, True):
                if repl and math.factorial(n) ** k > 20000:
                    continue
                out.append({"sx": sx({"op": Sym("enum-sample"), "n": n, "k": k, "replace": repl}),
                            "meta": {"op": "enum-sample", "replace": repl}})
            out.append({"sx": sx({"op": Sym("enum-prune"), "n": n, "k": k}), "meta": {"op": "enum-prune"}})
            out.append({"sx": sx({"op": Sym("enum-std"), "n": n, "k": k}), "meta": {"op": "enum-std"}})
    for n in range(3, 7):
        out.append({"sx": sx({"op": Sym("enum-uniform"), "n": n, "rooted": False}), "meta": {"op": "enum-uniform", "rooted": False}})
    for n in range(3, 6):
        out.append({"sx": sx({"op": Sym("enum-uniform"), "n": n, "rooted": True}), "meta": {"op": "enum-uniform", "rooted": True}})
    for n in range(0, 6):
        for w in ("perm", "rotate"):
            out.append({"sx": sx({"op": Sym("enum-perm"), "n": n, "which": Sym(w)}), "meta": {"op": "enum-perm"}})
    # ---- ShuffleTips in the worker
    g = Gen(rng)
    for _ in range({"quick": 60, "thorough": 1500, "search": 100}[tier]):
        t = g.tree(lo=2, hi=14 if tier != "thorough" else 30, maxdeg=4, lenmode="all", supmode="mixed", up_random=rng.random() < 0.5)
        nt = len(leaves(t))
        out.append({"sx": sx({"op": Sym("shuffle"), "tree": T(t), "seed": rng.randrange(1, 2**31), "nraw": 2 * nt + 32}),
                    "meta": {"op": "shuffle", "ntips": nt}})
    # ---- ShuffleTips on trees whose node names collide: named inner nodes (duplicated, equal to a tip name,
    #      numeric-looking), duplicated tip names; one case = the same tree under 16 seeds
    def _collide(t):
        inner = [x for x in preorder(t) if kids(x)]
        tipsn = [x for x in preorder(t) if not kids(x)]
        style = rng.choice(["dup-inner", "inner-is-tip", "numeric", "dup-tip", "mixed", "plain-named"])
        for x in inner:
            r = rng.random()
            if style in ("dup-inner", "mixed") and r < 0.6:
                x["name"] = rng.choice(["S", "D", "S"])
            elif style in ("inner-is-tip", "mixed") and r < 0.8:
                x["name"] = rng.choice(tipsn)["name"]
            elif style == "numeric" and r < 0.7:
                x["name"] = rng.choice(["1", "0.5", "100", "1e3", "007"])
            elif style == "plain-named" and r < 0.7:
                x["name"] = "I%d" % rng.randrange(1000)
        if style in ("dup-tip", "mixed") and len(tipsn) >= 4:
            a, b = rng.sample(tipsn, 2)
            b["name"] = a["name"]
        return style
    for _ in range({"quick": 40, "thorough": 600, "search": 40}[tier]):
        t = g.tree(lo=3, hi=10, maxdeg=4, lenmode="all", supmode="none", up_random=rng.random() < 0.3)
        style = _collide(t)
        nt = len(leaves(t))
        out.append({"sx": sx({"op": Sym("shufflemulti"), "tree": T(t), "seeds": [rng.randrange(1, 2**31) for _ in range(16)],
                              "nraw": 2 * nt + 32}),
                    "meta": {"op": "shufflemulti", "style": style, "ntips": nt}})
    # ---- the uniform generator in the worker, per seed (structure; a changed index expression is a CORR here too)
    for n in list(range(2, 12)) + [rng.randint(12, 40) for _ in range({"quick": 6, "thorough": 60, "search": 4}[tier])]:
        for rooted in (False, True):
            for _ in range({"quick": 2, "thorough": 10, "search": 2}[tier]):
                out.append({"sx": sx({"op": Sym("uniform"), "n": n, "rooted": rooted, "seed": rng.randrange(1, 2**31), "nraw": 4 * n + 40}),
                            "meta": {"op": "uniform", "rooted": rooted, "n": n}})
    # ---- the binary, per seed
    ok, err = _gotree()
    if not ok:
        return out
    d = cli.scratch("c20g-")
    try:
        jobs, metas = [], []
        nrep = {"quick": 3, "thorough": 40, "search": 3}[tier]
        for n in range(1, 10):
            f = _write_trees(d, n, "in%d.nw" % n)
            for k in sorted(set([0, 1, 2, 3, n - 1, n, n + 1, n + 3])):
                if k < 0:
                    continue
                for repl in (False, True):
                    for _ in range(nrep):
                        s = rng.randrange(1, 2**31)
                        argv = ["sample", "-i", f, "-n", str(k), "--seed", str(s)] + (["--replace"] if repl else [])
                        jobs.append((argv, d))
                        metas.append(("sample", n, k, repl, s))
        # Nexus input: tree names distinct / all equal / equal in pairs, with and without TRANSLATE
        nx = 0
        for n in (3, 5):
            for style in ("distinct", "equal", "pairs"):
                for tr in (False, True):
                    f = _write_nexus(os.path.join(d, "nx%d.nex" % nx), ["(a,b,t%d);" % i for i in range(n)], style, tr)
                    nx += 1
                    for k in (1, 2):
                        for repl in (False, True):
                            s = rng.randrange(1, 2**31)
                            jobs.append((["sample", "-i", f, "--format", "nexus", "-n", str(k), "--seed", str(s)] + (["--replace"] if repl else []), d))
                            metas.append(("sample", n, k, repl, s))
        for style in ("distinct", "equal", "pairs"):
            for tr in (False, True):
                tipss, nws = [], []
                for j in range(3):
                    names = rng.sample(["u%d" % x for x in range(12)], rng.randint(5, 8))
                    t = g.decorate(g.shape(names, maxdeg=4, rootdeg=3), lenmode="none", supmode="none")
                    tipss.append(leaves(t))
                    nws.append(newick(t))
                f = _write_nexus(os.path.join(d, "nxp%d.nex" % nx), nws, style, tr)
                nx += 1
                rev = rng.random() < 0.5
                k = 4 if rev else rng.randint(1, 2)
                s = rng.randrange(1, 2**31)
                jobs.append((["prune", "-i", f, "--format", "nexus", "--random", str(k), "--seed", str(s)] + (["-r"] if rev else []), d))
                metas.append(("prunemulti", tipss, k, rev, s))
        # an empty input file
        fe = os.path.join(d, "empty.nw")
        open(fe, "w").close()
        for k in (0, 2):
            for repl in (False, True):
                s = rng.randrange(1, 2**31)
                jobs.append((["sample", "-i", fe, "-n", str(k), "--seed", str(s)] + (["--replace"] if repl else []), d))
                metas.append(("sample", 0, k, repl, s))
        for i in range({"quick": 60, "thorough": 800, "search": 60}[tier]):
            t = g.tree(lo=5, hi=12, maxdeg=4, lenmode="all", supmode="none")
            tips = leaves(t)
            n = len(tips)
            rev = rng.random() < 0.4
            if rev:
                k = rng.choice([3, 4, n - 1, n, n + 2])
            else:
                k = rng.choice([0, n - 2, n, n + 1]) if rng.random() < 0.15 else rng.randint(1, n - 3)
            k = max(0 if not rev else 1, k)
            s = rng.randrange(1, 2**31)
            f = os.path.join(d, "p%d.nw" % i)
            open(f, "w").write(newick(t) + "\n")
            jobs.append((["prune", "-i", f, "--random", str(k), "--seed", str(s)] + (["-r"] if rev else []), d))
            metas.append(("prune", tips, k, rev, s))
        # several trees in one file, on different / overlapping tip sets: one selection per tree
        for i in range({"quick": 40, "thorough": 500, "search": 30}[tier]):
            nt = rng.randint(2, 4)
            pool = ["u%d" % j for j in range(14)]
            trees, tipss = [], []
            for j in range(nt):
                names = rng.sample(pool, rng.randint(5, 9))
                sh = g.shape(names, maxdeg=4, rootdeg=3)
                t = g.decorate(sh, lenmode="all", supmode="none")
                trees.append(t)
                tipss.append(leaves(t))
            rev = rng.random() < 0.4
            k = rng.randint(3, 5) if rev else rng.randint(1, 2)
            s = rng.randrange(1, 2**31)
            f = os.path.join(d, "m%d.nw" % i)
            open(f, "w").write("".join(newick(t) + "\n" for t in trees))
            jobs.append((["prune", "-i", f, "--random", str(k), "--seed", str(s)] + (["-r"] if rev else []), d))
            metas.append(("prunemulti", tipss, k, rev, s))
        # trees of DIFFERENT sizes in one file, some smaller than k (keep-only mode: a tree with n <= k keeps all its
        # tips; remove mode: k below every size), smaller first and larger first
        for i in range({"quick": 24, "thorough": 300, "search": 20}[tier]):
            rev = i % 3 != 0
            szs = [rng.randint(3, 4), rng.randint(8, 12)] + ([rng.randint(5, 7)] if rng.random() < 0.5 else [])
            if i % 2:
                szs.reverse()
            k = rng.randint(5, 7) if rev else rng.randint(1, 2) if min(szs) - 2 < 3 else rng.randint(1, min(szs) - 3)
            if not rev:
                szs = [max(x, k + 3) for x in szs]
            trees, tipss = [], []
            for j, n in enumerate(szs):
                names = ["w%d_%d" % (j, x) for x in range(n)]
                t = g.decorate(g.shape(names, maxdeg=4, rootdeg=3), lenmode="all", supmode="none")
                trees.append(t)
                tipss.append(leaves(t))
            s = rng.randrange(1, 2**31)
            f = os.path.join(d, "ms%d.nw" % i)
            open(f, "w").write("".join(newick(t) + "\n" for t in trees))
            jobs.append((["prune", "-i", f, "--random", str(k), "--seed", str(s)] + (["-r"] if rev else []), d))
            metas.append(("prunemulti", tipss, k, rev, s))
        res = _runs(jobs)
        for m, (rc, so) in zip(metas, res):
            if m[0] == "prunemulti":
                _, tipss, k, rev, s = m
                rems = [_names(line) for line in so.split("\n") if line.strip()]
                out.append({"sx": sx({"op": Sym("prunemulti"), "trees": tipss, "k": k, "revert": rev, "seed": s,
                                      "nraw": 2 * sum(len(x) for x in tipss) + 32, "rc": 0 if rc == 0 else 1,
                                      "remainings": rems if rc == 0 else []}),
                            "meta": {"op": "prunemulti", "revert": rev, "ntrees": len(tipss), "k": k}})
            elif m[0] == "sample":
                _, n, k, repl, s = m
                nd = (n * k if repl else max(0, n - k))
                out.append({"sx": sx({"op": Sym("sample"), "n": n, "k": k, "replace": repl, "seed": s, "nraw": 2 * nd + 32,
                                      "rc": 0 if rc == 0 else 1, "selected": _selected(so)}),
                            "meta": {"op": "sample", "replace": repl, "n": n, "k": k}})
            else:
                _, tips, k, rev, s = m
                out.append({"sx": sx({"op": Sym("prune"), "tips": tips, "k": k, "revert": rev, "seed": s, "nraw": 2 * len(tips) + 32,
                                      "rc": 0 if rc == 0 else 1, "remaining": _names(so)}),
                            "meta": {"op": "prune", "revert": rev, "ntips": len(tips), "k": k}})
    finally:
        shutil.rmtree(d, ignore_errors=True)
    return out

# ---------------------------------------------------------------- frequencies over many seeds (extra)

def _parse_newick(s):
    """minimal Newick reader: nested lists of names (lengths and supports dropped)"""
    pos = [0]
    def node():
        if s[pos[0]] == "(":
            pos[0] += 1
            ch = [node()]
            while s[pos[0]] == ",":
                pos[0] += 1
                ch.append(node())
            pos[0] += 1  # )
            label()
            return ch
        return label()
    def label():
        st = pos[0]
        while pos[0] < len(s) and s[pos[0]] not in ",();":
            pos[0] += 1
        return s[st:pos[0]].split(":")[0]
    return node()

def _leafset(t):
    return frozenset([t]) if isinstance(t, str) else frozenset().union(*[_leafset(c) for c in t])

def _clades(t, acc):
    if isinstance(t, str):
        return
    for c in t:
        acc.add(_leafset(c))
        _clades(c, acc)

def _topology(nw, rooted):
    t = _parse_newick(nw.strip())
    allt = _leafset(t)
    acc = set()
    _clades(t, acc)
    if rooted:
        return frozenset(c for c in acc if c != allt)
    least = min(allt)
    return frozenset((allt - c) if least in c else c for c in acc)

def _log_pmf(S, c, p):
    if p <= 0:
        return 0.0 if c == 0 else -1e300
    if p >= 1:
        return 0.0 if c == S else -1e300
    return math.lgamma(S + 1) - math.lgamma(c + 1) - math.lgamma(S - c + 1) + c * math.log(p) + (S - c) * math.log1p(-p)

def _binom_two_sided(S, c, p):
    """exact two-sided binomial p-value (sum of the probabilities of the outcomes no more likely than c)"""
    lc = _log_pmf(S, c, p)
    tot = 0.0
    for x in range(S + 1):
        lx = _log_pmf(S, x, p)
        if lx <= lc + 1e-12:
            tot += math.exp(lx)
    return min(1.0, tot)

def _freq_detail(counts, outcomes, S):
    """None when the counts are compatible with the uniform distribution on [outcomes], else a description"""
    m = len(outcomes)
    p = 1.0 / m
    alpha = 1e-9 / m
    fmt = lambda o: str(sorted(map(lambda x: sorted(x) if isinstance(x, frozenset) else x, o)) if isinstance(o, frozenset) else o)
    unexpected = [o for o in counts if o not in outcomes]
    if unexpected:
        return "an outcome outside the expected set was produced: %s" % fmt(unexpected[0])
    missing = [o for o in outcomes if counts.get(o, 0) == 0]
    if missing and S * p >= 30:
        return "%d of %d outcomes never occur in %d seeds" % (len(missing), m, S)
    for o in outcomes:
        c = counts.get(o, 0)
        if _binom_two_sided(S, c, p) < alpha:
            return "outcome %s occurs %d times in %d seeds, expected %.1f" % (fmt(o), c, S, S * p)
    return None

def _judge_freq(name, counts, outcomes, S, fails, info, body):
    """counts: dict outcome -> count; outcomes: the full expected outcome set (uniform)"""
    m = len(outcomes)
    p = 1.0 / m
    alpha = 1e-9 / m
    worst = None
    unexpected = [o for o in counts if o not in outcomes]
    for o in outcomes:
        c = counts.get(o, 0)
        pv = _binom_two_sided(S, c, p)
        if worst is None or pv < worst[0]:
            worst = (pv, o, c)
    missing = [o for o in outcomes if counts.get(o, 0) == 0]
    info["frequency_tests"][name] = {"runs": S, "outcomes": m, "distinct_seen": len(counts), "min_p_value": worst[0],
                                     "min_count": min(counts.get(o, 0) for o in outcomes), "max_count": max(counts.values()) if counts else 0}
    fmt = lambda o: str(sorted(map(lambda x: sorted(x) if isinstance(x, frozenset) else x, o)) if isinstance(o, frozenset) else o)
    if unexpected:
        fails.append((name, "an outcome outside the expected set was produced: %s" % fmt(unexpected[0]), body))
    elif missing and S * p >= 30:
        fails.append((name, "%d of %d outcomes never occur in %d seeds (expected about %.0f each), e.g. %s; observed counts: %s" %
                      (len(missing), m, S, S * p, fmt(missing[0]), sorted(counts.values())), body))
    elif worst[0] < alpha:
        fails.append((name, "outcome %s occurs %d times in %d seeds, expected %.1f (exact binomial p = %.3g)" %
                      (fmt(worst[1]), worst[2], S, S * p, worst[0]), body))

def extra(tier, seed, st):
    fails = []
    info = {"frequency_tests": {}, "evaluations": 0, "distinct_nontrivial": 0}
    ok, err = _gotree()
    if not ok:
        return [("build", "gotree no longer builds: " + err[-500:], None)], info
    from itertools import combinations, product, permutations
    base = {"quick": 400, "thorough": 4000}[tier]
    d = cli.scratch("c20x-")
    try:
        configs = []
        for (n, k) in [(2, 1), (3, 1), (3, 2), (4, 2), (5, 3), (3, 3), (2, 4)]:
            f = _write_trees(d, n, "s%d.nw" % n)
            outs = set(frozenset(c) for c in combinations(range(n), min(k, n)))
            configs.append(("sample-noreplace n=%d k=%d" % (n, k), ["sample", "-i", f, "-n", str(k)], outs,
                            lambda so: frozenset(_selected(so))))
        for (n, k) in [(2, 1), (3, 2), (2, 3)]:
            f = _write_trees(d, n, "s%d.nw" % n)
            outs = set(product(range(n), repeat=k))
            configs.append(("sample-replace n=%d k=%d" % (n, k), ["sample", "-i", f, "-n", str(k), "--replace"], outs,
                            lambda so: tuple(_selected(so))))
        for (n, k) in [(4, 1), (5, 2), (6, 3)]:
            f = os.path.join(d, "star%d.nw" % n)
            names = ["t%d" % i for i in range(n)]
            open(f, "w").write("(" + ",".join(names) + ");\n")
            outs = set(frozenset(c) for c in combinations(names, k))
            configs.append(("prune-random n=%d k=%d" % (n, k), ["prune", "-i", f, "--random", str(k)], outs,
                            (lambda names: lambda so: frozenset(names) - frozenset(_names(so)))(names)))
        for tag, t1, t2 in [("disjoint", ["t0", "t1", "t2", "t3"], ["v0", "v1", "v2", "v3"]),
                            ("overlapping", ["t0", "t1", "t2", "t3"], ["t2", "t3", "v0", "v1"])]:
            f = os.path.join(d, "multi-%s.nw" % tag)
            open(f, "w").write("(" + ",".join(t1) + ");\n(" + ",".join(t2) + ");\n")
            outs = set((a, b) for a in t1 for b in t2)
            def key2(so, t1=t1, t2=t2):
                lines = [l for l in so.split("\n") if l.strip()]
                if len(lines) != 2:
                    raise ValueError("expected 2 trees")
                r1 = sorted(set(t1) - set(_names(lines[0])))
                r2 = sorted(set(t2) - set(_names(lines[1])))
                if len(r1) != 1 or len(r2) != 1:
                    return ("removed", tuple(r1), tuple(r2))
                return (r1[0], r2[0])
            configs.append(("prune-random two trees (%s tip sets) k=1" % tag, ["prune", "-i", f, "--random", "1"], outs, key2))
        for style, tr in (("equal", False), ("pairs", True), ("distinct", True)):
            f = _write_nexus(os.path.join(d, "fx-%s-%s.nex" % (style, tr)), ["(a,b,t%d);" % i for i in range(4)], style, tr)
            configs.append(("sample-noreplace nexus (%s tree names%s) n=4 k=1" % (style, ", translate" if tr else ""),
                            ["sample", "-i", f, "--format", "nexus", "-n", "1"], set(frozenset([i]) for i in range(4)),
                            lambda so: frozenset(_selected(so))))
        f = _write_nexus(os.path.join(d, "fxs.nex"), ["((a,b),c,d);"], "equal", True)
        configs.append(("shuffletips nexus (translate) n=4", ["shuffletips", "-i", f, "--format", "nexus"],
                        set(permutations(["a", "b", "c", "d"])), lambda so: tuple(_names(so))))
        def all_topos(n, rooted):
            # insertion enumeration in Python (independent of the Go enumerator and of the Coq model)
            names = ["Tip%d" % i for i in range(n)]
            def edges_insert(t, x):
                # t nested tuple; returns all trees with x inserted on an edge of the rooted tree t (incl. above the root)
                res = [(t, x)]
                if not isinstance(t, str):
                    for i, c in enumerate(t):
                        for c2 in edges_insert(c, x):
                            res.append(tuple(t[:i]) + (c2,) + tuple(t[i + 1:]))
                return res
            ts = [(names[0], names[1])]
            for x in names[2:]:
                ts = [t2 for t in ts for t2 in edges_insert(t, x)]
            def tol(t):
                return t if isinstance(t, str) else [tol(c) for c in t]
            def nw(t):
                return t if isinstance(t, str) else "(" + ",".join(nw(c) for c in t) + ")"
            if rooted:
                return set(_topology(nw(t) + ";", True) for t in ts)
            # unrooted topologies on n tips = rooted topologies on n-1 tips with the last tip attached at the root
            ts = [(names[0], names[1])] if n > 2 else []
            for x in names[2:n - 1]:
                ts = [t2 for t in ts for t2 in edges_insert(t, x)]
            return set(_topology("(" + nw(t) + "," + names[n - 1] + ");", False) for t in ts)
        for (n, rooted) in [(4, False), (5, False), (3, True), (4, True)]:
            outs = all_topos(n, rooted)
            configs.append(("uniformtree-%s n=%d" % ("rooted" if rooted else "unrooted", n),
                            ["generate", "uniformtree", "-l", str(n)] + (["-r"] if rooted else []), outs,
                            (lambda rooted: lambda so: _topology(so, rooted))(rooted)))
        f = os.path.join(d, "sh.nw")
        open(f, "w").write("((a,b),c,d);\n")
        configs.append(("shuffletips n=4", ["shuffletips", "-i", f], set(permutations(["a", "b", "c", "d"])),
                        lambda so: tuple(_names(so))))
        # node names that collide: two inner nodes with the same name, the root named like a tip
        f = os.path.join(d, "sh2.nw")
        open(f, "w").write("((a,b)x,(c,d)x)a;\n")
        configs.append(("shuffletips n=4 colliding node names", ["shuffletips", "-i", f], set(permutations(["a", "b", "c", "d"])),
                        lambda so: tuple(_names(so))))
        rng = random.Random(seed + 20)
        for name, argv, outs, key in configs:
            S = max(base, 40 * len(outs))
            seeds = rng.sample(range(1, 2**31), S)
            res = _runs([(argv + ["--seed", str(s)], d) for s in seeds])
            counts = {}
            bad = None
            for s, (rc, so) in zip(seeds, res):
                if rc != 0:
                    bad = (s, rc)
                    continue
                try:
                    o = key(so)
                except Exception:
                    bad = (s, "unparsable output")
                    continue
                counts[o] = counts.get(o, 0) + 1
            info["evaluations"] += S
            info["distinct_nontrivial"] += len(counts)
            body = {"config": name, "argv": argv, "seeds": S, "seed": seed}
            if bad is not None:
                fails.append((name, "`gotree %s --seed %s` failed (%s)" % (" ".join(argv), bad[0], bad[1]), body))
                continue
            if name.startswith("uniformtree-rooted"):
                # classify a bias of the rooted generator: the KNOWN defect is "uniform on exactly the topologies
                # that separate Tip0 and Tip1 at the root" (never inserts above the root); anything else is new
                before = len(fails)
                _judge_freq(name, counts, outs, S, fails, info, body)
                if len(fails) > before:
                    sep = set(o for o in outs if not any(("Tip0" in c and "Tip1" in c) for c in o))
                    other = _freq_detail(counts, sep, S)
                    nm, det, bd = fails.pop()
                    if other is None:
                        fails.append((nm + " [known: never above the root]", det + "; compatible with the uniform distribution on the %d "
                                      "topologies that separate Tip0 and Tip1 at the root" % len(sep), bd))
                    else:
                        fails.append((nm + " [other bias]", det + "; NOT the known root-branch defect: " + other, bd))
                continue
            _judge_freq(name, counts, outs, S, fails, info, body)
        # ---- unseeded runs: without --seed (and with the documented --seed -1 = "use the clock") 8 fresh processes
        #      must not all print the same thing (>= 20 equally likely outcomes: failure probability <= 20^-7)
        f30 = _write_trees(d, 30, "u30.nw")
        fstar = os.path.join(d, "ustar.nw")
        open(fstar, "w").write("(" + ",".join("t%d" % i for i in range(30)) + ");\n")
        fsh = os.path.join(d, "ush.nw")
        open(fsh, "w").write("((a,b),(c,d),(e,f));\n")
        unseeded = [("sample", ["sample", "-i", f30, "-n", "1"]), ("sample --replace", ["sample", "-i", f30, "-n", "2", "--replace"]),
                    ("prune --random", ["prune", "-i", fstar, "--random", "1"]), ("shuffletips", ["shuffletips", "-i", fsh]),
                    ("generate uniformtree", ["generate", "uniformtree", "-l", "7"]), ("generate yuletree", ["generate", "yuletree", "-l", "7"])]
        for label, argv in unseeded:
            for how, extra_args in (("without --seed", []), ("with --seed -1", ["--seed", "-1"])):
                res = _runs([(argv + extra_args, d) for _ in range(8)], workers=4)
                info["evaluations"] += 8
                name = "unseeded %s %s" % (label, how)
                outs8 = [so for rc, so in res]
                if any(rc != 0 for rc, so in res):
                    fails.append((name, "`gotree %s` failed" % " ".join(argv + extra_args), {"argv": argv + extra_args}))
                elif len(set(outs8)) == 1:
                    fails.append((name, "8 fresh runs of `gotree %s` print exactly the same result: %r" %
                                  (" ".join(argv + extra_args), outs8[0][:80]), {"argv": argv + extra_args}))
                else:
                    info["distinct_nontrivial"] += 1
    finally:
        shutil.rmtree(d, ignore_errors=True)
    return fails, info

def _case_op(c):
    try:
        return alist(parse_sexp(c["sx"])) if c.get("sx") else {}
    except Exception:
        return {}

def _extra_name(c):
    return ((c.get("meta") or {}).get("extra") or "")

MATCHERS = {
    # tree/treegen.go RandomUniformBinaryTree(rooted) never inserts above the root: it is uniform on exactly the rooted
    # topologies that separate Tip0 and Tip1 at the root.  Only that exact distribution is the known finding: the judge's
    # enumeration marks it KNOWN-ROOT-BRANCH, the frequency check names it "[known: never above the root]"; any other
    # bias of the rooted generator is a violation.
    "C20-uniform-rooted-root-branch": lambda c: (_extra_name(c).startswith("uniformtree-rooted")
                                                 and _extra_name(c).endswith("[known: never above the root]"))
        or (_case_op(c).get("op") == "enum-uniform" and _case_op(c).get("rooted") == "T"
            and bool(c.get("fields")) and "KNOWN-ROOT-BRANCH" in c["fields"][0]),
}
