"""C12: parsimony reconstruction is optimal (acr.ParsimonyAcr / asr.ParsimonyAsr)."""
import copy
from lib import *

PROP = "C12"
PAR_OK = True
LEVEL = "proof"
RULE = ("random multifurcating trees (3..12 tips, rooted/unrooted, parent slot at random positions, inner names/comments "
        "sometimes), inner nodes / the root named like a tip, like an absent table entry or freshly, with extra table entries (or sequences) for non-tip names; wide polytomies with 255..1000 tip children and skewed states (model + oracle) and star trees with up to 2^16+1 (thorough: 2^17+1) tips per state (oracle only, evaluated in binary numbers); alphabets of 63/64/65/70/130 states with the tips on high-index states; trees with a history (parsed from Newick, then re-rooted on an outgroup / at the midpoint, resolved, grafted, pruned, collapsed through the API before the call, judged on the tree dumped just before it); tip states over 1..4 states (plain and exotic state names to exercise sort.Strings, extra map entries "
        "for absent tips, rarely a missing tip; 15%: duplicate inner names and inner names that look like node ids), 30% of the cases with --random-resolve and a recorded rand stream, algorithms downpass/deltran/acctran (+none for the correspondence), every "
        "case also run on the same tree re-rooted at a random inner node (the judge checks the second tree with "
        "Model.Reroot.reroot); sequence variant: alignments of 1..6 sites, unambiguous ACGT(-) in upper, lower or mixed case with the character variant "
        "run site by site, or with IUPAC ambiguity codes, gaps and (judged by correspondence only) characters outside the IUPAC table at tips; non-trivial = at least one step; distinct = distinct case text")
TRUSTED = ["tree built through NewNode/NewEdge + verif hooks (exact neighbour order); dump through Neigh()/Edges()/Comments()",
           "alignment read by goalign's fasta parser from the text the worker writes (as cmd/asr.go does)"]
ASSUMPTIONS = ["math/rand: Intn transcribed in Model/Rand.v; the recorded Int63 stream is what the code under test consumes "
               "(random resolution: the model draws from that stream in the order of the code)",
               "float64 counts are small integers, represented as nat in the model",
               "nucleotide alphabet only for the sequence variant; characters of align.IupacCode in either case; other "
               "characters (X . ? *) get no state in asr.parsimonyUPPASS and are outside the property's quantifier: not generated",
               "site-by-site comparison: the character variant is given the upper-cased nucleotide as the state"]
LEVEL_TEXT = ("Theorems (Properties/C12.v, 62 statements, closed) for all well-formed trees of any degree and all tip-state "
              "assignments (single states or non-empty sets): the up-pass step count = the definitional minimum over all "
              "labellings (Hartigan); the minimum and the step count are invariant under Reroot; DOWNPASS reports at every "
              "inner node exactly the states of the most-parsimonious labellings; DELTRAN and ACCTRAN report only such states; "
              "an output unambiguous at every node is most parsimonious (three algorithms); tips are never altered "
              "(ACCTRAN: when tips are skipped or hold single states; the unconditional statement is refuted with the witness "
              "of the fixed defect); instantiated on ParsimonyAcr and per site on ParsimonyAsr; the passes commute with an "
              "injective embedding of the alphabet, hence the sequence variant at an unambiguous site = the character variant; random resolution, for every source "
              "of choices: steps unchanged, one state at every inner node, DOWNPASS/DELTRAN states stay in the plain DOWNPASS "
              "set, ACCTRAN's labelling is most parsimonious; DOWNPASS/DELTRAN labelling optimality REFUTED with witnesses; "
              "stateless tips (X . ? *) cost one step each; returned map: last inner node wins, keys unique; the node-major random "
              "run of the sequence variant projects site by site onto one-character runs (same per-site theorems); front-end "
              "error cases and the trailing 0 of the step list; DELTRAN sets = delayed-transformation states REFUTED")
LEVEL_NOTE = ("The model is tied to acr/asr by the correspondence check (steps, every node comment, returned map); the oracle "
              "(Sankoff DP + brute force on small trees, extracted from Spec/Parsimony.v) judges Go's output directly. ACCTRAN "
              "sets = accelerated-transformation states and delayed states inside the DELTRAN sets are tested on small trees "
              "only (Proofs/ParsimonyDelay.v), not proved.")

STATE_POOLS = [["A", "B", "C", "D"], ["A", "B", "C", "D"], ["0", "1", "2", "3"], ["b", "B", "10", "9"],
               ["x y", "X", "-", "ab"], ["T", "F", "N", "U"]]
IUPAC = "ACGTRYSWKMBDHVN-"

def reroot_py(t, i):
    """the tree re-rooted at pre-order node i (Model.Reroot.reroot): None when i is a tip or out of range"""
    t = copy.deepcopy(t)
    # path (slot indexes) of the pre-order node i
    paths = []
    def walk(n, p):
        paths.append((p, n))
        for k, s in enumerate(n["slots"]):
            if s is not None:
                walk(s[1], p + [k])
    walk(t, [])
    if i >= len(paths):
        return None
    p, n = paths[i]
    if len(n["slots"]) < 2:
        return None
    for k in p:
        e, c = t["slots"][k]
        t["slots"][k] = None
        j = c["slots"].index(None)
        c["slots"][j] = (e, t)
        t = c
    return t

def dup_inner_names(t, rng):
    """give some inner nodes names from a small pool: duplicates, and names that look like node ids
    (an unnamed node is keyed by its id in the returned map)"""
    n = n_nodes(t)
    pool = ["X", "X", "Y", "0", "1", "2", str(rng.randrange(n)), str(rng.randrange(n))]
    for node in preorder(t):
        if len(node["slots"]) >= 2 and rng.random() < 0.6:
            node["name"] = rng.choice(pool)

def spice_inner_names(t, rng, table_keys):
    """inner nodes (and the root) named like a tip, like an absent entry of the table, or freshly; returns the
    fresh/absent names used, so that the caller may add table entries for them (extra non-tip entries are legal)"""
    tips = leaves(t)
    used = []
    k = 0
    for node in preorder(t):
        if len(node["slots"]) >= 2 and rng.random() < 0.5:
            r = rng.random()
            if r < 0.45:
                node["name"] = rng.choice(tips)            # same key as an observed tip
            elif r < 0.6:
                node["name"] = "absent"
                used.append("absent")
            else:
                k += 1
                node["name"] = "I%d" % k
                used.append(node["name"])
    return used

def tipnode(n):
    return {"name": n, "coms": [], "slots": [None]}

def noedge():
    return {"len": None, "sup": None, "pv": None, "coms": []}

def wide_tree(rng, n):
    """a polytomy with n tip children: the root itself, or a child of a small root"""
    tips = [tipnode("w%d" % i) for i in range(n)]
    if rng.random() < 0.5:
        return {"name": "", "coms": [], "slots": [(noedge(), c) for c in tips]}
    poly = {"name": "", "coms": [], "slots": [None] + [(noedge(), c) for c in tips]}
    pos = rng.randrange(0, len(poly["slots"]))
    poly["slots"].remove(None); poly["slots"].insert(pos, None)
    others = [tipnode("v%d" % i) for i in range(rng.choice([1, 2, 3]))]
    kids = [(noedge(), c) for c in others]
    kids.insert(rng.randrange(0, len(kids) + 1), (noedge(), poly))
    return {"name": "", "coms": [], "slots": kids}

def gen_wide(rng, tier):
    """polytomies whose per-state neighbour counts pass 255/256/257 (and more)"""
    sizes = {"quick": [255, 256, 257, 300], "thorough": [255, 256, 257, 258, 300, 511, 512, 513, 1000], "search": [256, 257, 300, 600]}[tier]
    out = []
    for n in sizes:
        for rep in range(2 if tier != "thorough" else 3):
            t = wide_tree(rng, n)
            tips = leaves(t)
            sts = rng.choice([["A", "B"], ["A", "B", "C"], ["x", "y"]])
            minority = rng.choice([0, 1, 2, 40, n - 256 if n > 256 else 3, n // 2])
            minority = max(0, min(minority, len(tips) - 1))
            rng.shuffle(tips)
            states = [[tp, sts[0]] for tp in tips[minority:]] + [[tp, rng.choice(sts[1:])] for tp in tips[:minority]]
            rng.shuffle(states)
            algo = rng.choice(["downpass", "deltran", "acctran", "none"]) if n <= 300 else rng.choice(["acctran", "none"])
            case = {"kind": Sym("acr"), "tree": T(t), "states": states, "algo": Sym(algo)}
            out.append({"sx": sx(case), "meta": {"kind": "acr", "algo": algo, "ntips": len(tips), "k": len(sts), "wide": n,
                                                  "rr": False, "dupnames": False, "rooted": False, "rerooted": False}})
    return out

def gen_star(rng, tier):
    """very wide star trees, described by the number of tips per state (the worker builds them; the judge
    evaluates the specification in binary numbers): per-state counts around 2^8 and 2^16"""
    sizes = {"quick": [255, 256, 257, 65535, 65536, 65537], "thorough": [255, 256, 257, 1000, 65535, 65536, 65537, 70000, 131073],
             "search": [256, 257, 65536, 65537]}[tier]
    out = []
    for big in sizes:
        for rep in range(2):
            names = rng.choice([["A", "B"], ["A", "B", "C"], ["x", "y", "z", "w"]])
            counts = [rng.choice([0, 1, 2, 3, 40, 255, 256, 257]) for _ in names]
            counts[rng.randrange(len(names))] = big
            if rep == 1:
                counts[rng.randrange(len(names))] = big      # possibly a tie between two states
            algo = rng.choice(["acctran", "none"]) if big > 3000 else rng.choice(["downpass", "deltran", "acctran", "none"])
            case = {"kind": Sym("star"), "counts": counts, "names": names, "algo": Sym(algo)}
            out.append({"sx": sx(case), "meta": {"kind": "star", "algo": algo, "ntips": sum(counts), "wide": big}})
    return out

def gen_hist(rng, tier):
    """trees with a history: Newick text parsed by the repository's parser (parser ids), then edited in
    memory through the public API before the reconstruction; the judge takes the tree dumped just before"""
    n = {"quick": 120, "thorough": 3000, "search": 300}[tier]
    g = Gen(rng)
    out = []
    for _ in range(n):
        t = g.tree(lo=4, hi=10, maxdeg=rng.choice([2, 3, 4, 5]), lenmode="all", supmode="none",
                   inner_names=rng.random() < 0.2, comments=False, up_random=False)
        tips = leaves(t)
        sts = rng.choice(STATE_POOLS)[:rng.choice([2, 2, 3, 3, 4])]
        states = [[tp, rng.choice(sts)] for tp in tips]
        ops, same = [], True
        for _ in range(rng.choice([1, 1, 2, 3])):
            r = rng.random()
            if r < 0.35:
                ops.append([Sym("outgroup")] + rng.sample(tips, rng.choice([1, 1, 2, 3])))
            elif r < 0.5:
                ops.append([Sym("midpoint")])
            elif r < 0.6:
                ops.append([Sym("reroot"), str(rng.randrange(0, 8))])
            elif r < 0.75:
                ops.append([Sym("resolve"), str(rng.randrange(1, 2**31))]); same = False
            elif r < 0.87:
                nm = "g%d" % len(ops)
                ops.append([Sym("graft"), str(rng.randrange(0, 50)), nm]); same = False
                states.append([nm, rng.choice(sts)])
            elif r < 0.94 and len(tips) > 5:
                ops.append([Sym("prune")] + rng.sample(tips, rng.choice([1, 2]))); same = False
            else:
                ops.append([Sym("collapse")]); same = False
        rng.shuffle(states)
        algo = rng.choice(["downpass", "deltran", "acctran", "none"])
        case = {"kind": Sym("hist"), "newick": newick(t), "ops": ops, "states": states, "algo": Sym(algo), "sameroot": same}
        out.append({"sx": sx(case), "meta": {"kind": "hist", "algo": algo, "ntips": len(tips), "ops": "+".join(o[0].s for o in ops),
                                              "sameroot": same}})
    return out

BIG = ["s%03d" % i for i in range(130)]

def inner_indexes(t):
    return [i for i, n in enumerate(preorder(t)) if len(n["slots"]) >= 2]

def gen(rng, tier):
    g = Gen(rng)
    n_acr = {"quick": 500, "thorough": 12000, "search": 600}[tier]
    n_asr = {"quick": 160, "thorough": 4000, "search": 200}[tier]
    out = []
    for _ in range(n_acr):
        small = rng.random() < 0.3
        t = g.tree(lo=3, hi=6 if small else 12, maxdeg=rng.choice([2, 3, 4, 5]), lenmode=rng.choice(["all", "mixed", "none"]),
                   supmode="mixed", inner_names=rng.random() < 0.3, comments=rng.random() < 0.2,
                   up_random=rng.random() < 0.5)
        tips = leaves(t)
        dup = rng.random() < 0.15
        if dup:
            dup_inner_names(t, rng)
        pool = rng.choice(STATE_POOLS)
        k = rng.choice([1, 2, 2, 3, 3, 4])
        sts = pool[:k]
        extra_keys = spice_inner_names(t, rng, tips) if (not dup and rng.random() < 0.25) else None
        bigk = rng.choice([63, 64, 65, 70, 130]) if rng.random() < 0.2 else 0
        if bigk:
            # an alphabet of bigk states (extra table entries carry the states no tip has); the tips use a few
            # states, most of them of high index, so that ambiguous nodes are resolved through those
            pool = BIG[:bigk]
            hi = [pool[i] for i in rng.sample(range(max(0, bigk - 6), bigk), min(3, bigk))]
            sts = hi + ([rng.choice(pool[:10])] if rng.random() < 0.5 else [])
            k = len(sts)
        # clustered states give long runs, uniform ones many changes
        if rng.random() < 0.5:
            states = [(n, rng.choice(sts)) for n in tips]
        else:
            states, cur = [], rng.choice(sts)
            for n in tips:
                if rng.random() < 0.35:
                    cur = rng.choice(sts)
                states.append((n, cur))
        r = rng.random()
        if r < 0.08:
            states.append(("absent", rng.choice(pool)))      # a state that may not occur in the tree
        elif r < 0.11:
            del states[rng.randrange(len(states))]           # missing tip: error
        if extra_keys:
            have = set(a for a, _ in states)
            for key in extra_keys:
                if key not in have and rng.random() < 0.7:
                    states.append((key, rng.choice(pool)))      # a table entry for a name that is not a tip
                    have.add(key)
        if bigk:
            for i, st in enumerate(pool):
                states.append(("abs%03d" % i, st))
        rng.shuffle(states)
        algo = rng.choice(["downpass", "deltran", "acctran", "downpass", "deltran", "acctran", "none"])
        if bigk:
            algo = rng.choice(["deltran", "acctran", "acctran", "downpass"])
        case = {"kind": Sym("acr"), "tree": T(t), "states": [[a, b] for a, b in states], "algo": Sym(algo)}
        inner = inner_indexes(t)
        i = rng.choice(inner)
        t2 = reroot_py(t, i)
        if t2 is not None and rng.random() < 0.8:
            case["tree2"] = T(t2)
            case["i"] = i
        rr = rng.random() < 0.3
        if rr:
            case["rr"] = True
            case["seed"] = rng.randrange(1, 2**31)
            case["nraw"] = 4 * n_nodes(t) + 16
        out.append({"sx": sx(case), "meta": {"kind": "acr", "algo": algo, "ntips": len(tips), "k": k, "rr": rr, "dupnames": dup, "innerkeys": extra_keys is not None, "alphabet": bigk,
                                              "rooted": len(t["slots"]) == 2, "rerooted": "tree2" in case}})
    out += gen_wide(rng, tier)
    out += gen_star(rng, tier)
    out += gen_hist(rng, tier)
    for _ in range(n_asr):
        t = g.tree(lo=3, hi=10, maxdeg=rng.choice([2, 3, 4, 5]), lenmode="mixed", supmode="mixed",
                   inner_names=rng.random() < 0.3, comments=rng.random() < 0.2, up_random=rng.random() < 0.5)
        tips = leaves(t)
        L = rng.randint(1, 6)
        amb = rng.random() < 0.5
        if amb:
            chars = "ACGT" * 3 + IUPAC
        else:
            chars = rng.choice(["ACGT", "ACGT", "AC", "ACGT-"])
        # lower-case and mixed-case alignments (the IUPAC table is looked up case-insensitively)
        unknown = rng.random() < 0.15
        if unknown:
            # characters outside the IUPAC table (no state in the code): outside the property, judged by correspondence
            amb = True
            chars = chars + "X.?*" + ("-N" if rng.random() < 0.5 else "")
        elif rng.random() < 0.3:
            chars = chars + "-" * 3 + ("N" if amb else "")
        case_mode = rng.choice(["upper", "upper", "lower", "mixed"])
        if case_mode == "lower":
            chars = chars.lower()
        elif case_mode == "mixed":
            chars = chars + chars.lower()
        seqs = {n: [None] * L for n in tips}
        for j in range(L):
            sub = rng.sample(chars, min(len(chars), rng.choice([1, 2, 3, 4, 8])))
            for n in tips:
                seqs[n][j] = rng.choice(sub)
        aln = [[n, "".join(seqs[n])] for n in tips]
        if rng.random() < 0.2:
            # inner nodes named like sequences; extra sequences for names that are not tips
            for key in set(spice_inner_names(t, rng, tips)):
                if rng.random() < 0.7:
                    aln.append([key, "".join(rng.choice(chars) for _ in range(L))])
        rng.shuffle(aln)
        if rng.random() < 0.03:
            del aln[rng.randrange(len(aln))]
        algo = rng.choice(["downpass", "deltran", "acctran"])
        rr = rng.random() < 0.3
        case = {"kind": Sym("asr"), "tree": T(t), "aln": aln, "algo": Sym(algo), "sitewise": (not amb) and not rr}
        if rr:
            case["rr"] = True
            case["seed"] = rng.randrange(1, 2**31)
            case["nraw"] = 4 * n_nodes(t) * L + 16
        out.append({"sx": sx(case), "meta": {"kind": "asr", "algo": algo, "ntips": len(tips), "sites": L, "rr": rr,
                                              "ambiguous": amb, "case": case_mode, "unknown": unknown, "rooted": len(t["slots"]) == 2}})
    return out


# ---- multi-site alignments whose consecutive sites alternate "clade disjoint from the rest" and "ambiguous clade"
def _clade_nodes(t):
    """inner non-root nodes with at least 2 leaves below and at least 2 leaves elsewhere"""
    allv = leaves(t)
    res = []
    for n in list(preorder(t))[1:]:
        if len(n["slots"]) >= 2:
            lv = leaves(n)
            if len(lv) >= 2 and len(allv) - len(lv) >= 2:
                res.append(lv)
    return res

def gen_clade_sites(rng, tier):
    n = {"quick": 100, "thorough": 2500, "search": 300}[tier]
    g = Gen(rng)
    out = []
    while len(out) < n:
        t = g.tree(lo=4, hi=7, maxdeg=rng.choice([2, 3, 4]), lenmode="mixed", supmode="mixed",
                   inner_names=False, comments=False, up_random=rng.random() < 0.5)
        clades = _clade_nodes(t)
        if not clades:
            continue
        clade = set(rng.choice(clades))
        tips = leaves(t)
        L = rng.randint(3, 6)
        cols = []
        # at least two consecutive "split" sites somewhere, the other sites drawn among the patterns
        kinds = [rng.choice(["split", "split", "amb", "const", "mixed"]) for _ in range(L)]
        p = rng.randrange(0, L - 1)
        kinds[p] = kinds[p + 1] = "split"
        for kd in kinds:
            x, y = rng.sample("ACGT", 2)
            col = {}
            for tp in tips:
                inside = tp in clade
                if kd == "split":
                    col[tp] = x if inside else y
                elif kd == "amb":
                    col[tp] = rng.choice([x, y]) if inside else y
                elif kd == "const":
                    col[tp] = x
                else:
                    col[tp] = rng.choice("ACGT")
            cols.append(col)
        case_mode = rng.choice(["upper", "upper", "lower"])
        aln = [[tp, "".join(c[tp] for c in cols)] for tp in tips]
        if case_mode == "lower":
            aln = [[a, b.lower()] for a, b in aln]
        rng.shuffle(aln)
        algo = rng.choice(["deltran", "deltran", "acctran", "downpass"])
        case = {"kind": Sym("asr"), "tree": T(t), "aln": aln, "algo": Sym(algo), "sitewise": True}
        out.append({"sx": sx(case), "meta": {"kind": "asr", "algo": algo, "ntips": len(tips), "sites": L, "rr": False,
                                              "ambiguous": False, "case": case_mode, "unknown": False, "stream": "clade-sites",
                                              "rooted": len(t["slots"]) == 2}})
    return out

_gen_before_clade_sites = gen

def gen(rng, tier):
    out = _gen_before_clade_sites(rng, tier)
    out += gen_clade_sites(rng, tier)
    return out
