"""C19: omitting a command-line option means its documented default."""
from lib import *

PROP = "C19"
LEVEL = "proof"
TECHNIQUE = "Coq theorem over a registration table regenerated from cmd/*.go by the translator (gotrans) + run-time cross-check of the table"
RULE = ("one case: the complete table of (command, option, DefValue, current value, bound-variable identity) read from "
        "cmd.RootCmd at run time after all init() functions; compared row by row with the table the translator generated from "
        "the source, over which the Coq theorems are stated; non-trivial = the table has > 200 options; the second "
        "distinct case re-reads the table and then runs the root command's pre-run hook and re-reads the global options; the "
        "third gives every option of every command its documented default explicitly through the command's own ParseFlags "
        "(--name v, --name=v, -s v) and reads back value, left-over words and error; "
        "end to end (extra): the real gotree binary is run for every command that has a recipe (E2E_RECIPES, 66 of the 78 leaf commands; "
        "small fixed inputs, --seed fixed for random commands) once with every option omitted and once per registered option (local and "
        "inherited persistent, taken from the generated table) with --name=<documented default>: exit code, stdout and every file created or "
        "modified must be identical (both tiers run every pair; thorough adds all defaults together); a recipe that no longer runs "
        "successfully is itself reported; for the options in E2E_LIVE a value different from the default must change the output (the "
        "command reads the variable it registered); for the commands in E2E_IDENTITY the output with all options omitted must be the "
        "unchanged input tree")
TRUSTED = ["tools/gotrans (go/ast + go/types): extraction of the registration table from cmd/*.go, cross-checked against the run-time table",
           "pflag: XVar(&v, ..., default, ...) assigns default to v at registration and records DefValue (modelled in Model/Flags.v)"]
ASSUMPTIONS = ["a command reads its option through the bound variable (tested end to end for the options listed in E2E_LIVE, assumed for the others)",
               "cobra/pflag parse only the options given on the command line"]
LEVEL_TEXT = ("Theorem over the registration table regenerated from the source on every run: after all registrations every option's "
              "bound variable holds the documented default (vm_compute on the generated table) and, in general, this holds iff no two "
              "registrations bind one variable to different defaults; the table is tied to the running code by comparing it with the "
              "table observed from cmd.RootCmd.  Beyond the table, the property's own observation point is tested: for every command with a "
              "recipe and every option registered for it (local or inherited), the gotree binary gives byte-identical results (exit code, stdout, "
              "files written) with the option omitted and with its documented default given explicitly.")
LEVEL_NOTE = ("Trusted: translator, pflag registration semantics as modelled, Coq kernel/vm_compute. Behaviour of each command beyond reading its variables is not modelled "
              "in Coq; it is tested end to end on one small input per command (counts, skipped pairs and commands without a recipe are in coverage.extra.e2e): "
              "omitted vs. explicit default for every registered option, liveness of 89 options, identity-at-default for 7 commands. Not covered: commands "
              "without a recipe (network commands, and those needing inputs not set up), options set by the recipe itself (-i, --seed of random commands, ...), "
              "and a Run function that replaces a default value by another value for a command outside E2E_IDENTITY (omitted and explicit runs are affected alike).")

def gen(rng, tier):
    return [{"sx": sx({"op": Sym("flags")}), "meta": {"op": "flags"}},
            {"sx": sx({"op": Sym("flags"), "after": Sym("prerun")}), "meta": {"op": "flags-then-root-prerun"}},
            {"sx": sx({"op": Sym("parse")}), "meta": {"op": "parse-every-default-explicitly"}}]
SEARCH = False   # the input space is the single run-time table

import re, shutil
import build, cli

# how to run a command on a small input: arguments after the command path, files to compare besides stdout
RECIPES = {
    "gotree brlen setrand": (["-i", "tree.nw", "--seed", "3"], []),
    "gotree draw svg": (["-i", "big.nw", "-o", "out.svg"], ["out.svg"]),
    "gotree draw png": (["-i", "big.nw", "-o", "out.png"], ["out.png"]),
    "gotree draw text": (["-i", "big.nw"], []),
}

def _tables():
    src = open(os.path.join(build.COQ, "Gen", "Flags.v")).read()
    regs = re.findall(r'mkReg "([^"]*)" "([^"]*)" "([^"]*)" "([^"]*)" "([^"]*)" "((?:[^"]|"")*)" (true|false)', src)
    m = re.search(r"Definition changed_sites.*?:= \[(.*?)\]\.", src, flags=re.S)
    changed = re.findall(r'\("([^"]*)", "([^"]*)", "([^"]*)"\)', m.group(1)) if m else []
    return regs, changed

# ---------------------------------------------------------------------------------------------------------
# End-to-end differential for every command that has a recipe: option omitted vs. documented default explicit.
# Arguments after the command path; {x} = generated input file / tip name.  Flags set here are not tested.
E2E_RECIPES = {
    "stats": "-i {tree}", "stats edges": "-i {tree}", "stats nodes": "-i {tree}", "stats tips": "-i {tree}",
    "stats splits": "-i {tree}", "stats rooted": "-i {tree}", "stats monophyletic": "-i {rooted} -l {tips}",
    "brlen add": "-i {tree}", "brlen clear": "-i {tree}", "brlen cut": "-i {rooted}", "brlen round": "-i {tree}",
    "brlen scale": "-i {tree}", "brlen set": "-i {tree}", "brlen setmin": "-i {tree}", "brlen setrand": "-i {tree} --seed 3",
    "collapse clade": "-i {rooted} -l {tips}", "collapse depth": "-i {tree}", "collapse length": "-i {tree}",
    "collapse single": "-i {tree}", "collapse support": "-i {tree}",
    "comment clear": "-i {tree}", "comment transfer": "-i {tree}",
    "compare edges": "-i {tree} -c {tree2}", "compare tips": "-i {tree} -c {tree2}", "compare trees": "-i {tree} -c {boot}",
    "compute bipartitiontree": "-i {tree} -f {tips}", "compute consensus": "-i {boot}", "compute edgetrees": "-i {tree}",
    "compute support fbp": "-i {tree} -b {boot}", "compute support tbe": "-i {tree} -b {boot}",
    "compute roccurve": "-i {tree2} -r {tree}",
    "divide": "-i {boot}", "draw text": "-i {tree}", "draw svg": "-i {tree} -o out.svg", "draw png": "-i {tree} -o out.png",
    "draw cyjs": "-i {tree}",
    "generate yuletree": "--seed 1", "generate uniformtree": "--seed 1", "generate balancedtree": "--seed 1",
    "generate caterpillartree": "--seed 1", "generate startree": "--seed 1", "generate topologies": "-l 4 --seed 1",
    "labels": "-i {tree}", "ltt": "-i {rooted}", "matrix": "-i {tree}", "nni": "-i {small}",
    "prune": "-i {tree} {tip0} {tip1}", "reformat newick": "-i {tree}", "reformat nexus": "-i {tree}",
    "reformat phyloxml": "-i {tree}", "rename": "-i {tree} -m {map}",
    "reroot midpoint": "-i {tree}", "reroot outgroup": "-i {tree} {tip0} {tip1}",
    "resolve": "-i {multi} --seed 1", "rotate sort": "-i {tree}", "rotate rand": "-i {tree} --seed 1",
    "sample": "-i {boot} --seed 1", "shuffletips": "-i {tree} --seed 1",
    "support clear": "-i {tree}", "support round": "-i {tree}", "support scale": "-i {tree}",
    "support setrand": "-i {tree} --seed 1", "unroot": "-i {rooted}", "annotate": "-i {tree} -c {tree2}",
    "acr": "-i {rooted} --states {states} --seed 1", "version": "",
}
# why some commands have no recipe
E2E_NO_RECIPE = {
    "download itol": "network", "download ncbitax": "network", "download panther": "network", "upload itol": "network",
    "asr": "needs an alignment and a model; not set up", "compute mutations": "needs an alignment; not set up",
    "collapse name": "needs a file of branch names/ids; not set up", "graft": "needs a second tree with disjoint tips; not set up",
    "merge": "needs two trees sharing exactly one tip; not set up", "repopulate": "needs a group file; not set up",
    "subtree": "needs a named internal node; not set up", "resolve named": "needs named internal nodes; not set up",
}
# (command, option) not run, with the reason
E2E_SKIP = {
    ("draw png", "output"): "set by the recipe", 
}
# options that are known (on the reference checkout, with the recipe's input) to change the output when given the
# alternative value computed by _alt(): the command really reads the variable the option is bound to.  A pair listed
# here whose alternative value no longer changes anything is reported.
E2E_LIVE = {
    'acr --random-resolve', 'annotate --comment', 'brlen add --add-length', 'brlen clear --external',
    'brlen clear --internal', 'brlen round --external', 'brlen round --internal', 'brlen round --precision',
    'brlen scale --factor', 'brlen set --external', 'brlen set --internal', 'brlen set --length',
    'brlen setmin --length', 'brlen setrand --external', 'brlen setrand --internal', 'brlen setrand --max-len',
    'brlen setrand --mean', 'brlen setrand --min-len', 'collapse clade --strict', 'collapse depth --max-depth',
    'collapse length --length', 'collapse support --support', 'compare trees --binary', 'compare trees --rf',
    'compare trees --tips', 'compare trees --weighted', 'compute consensus --freq-min', 'compute edgetrees --deepest',
    'compute edgetrees --text-format', 'compute roccurve --length-geq', 'compute roccurve --length-leq', 'compute roccurve --max',
    'compute roccurve --min', 'compute roccurve --step', 'draw cyjs --with-branch-support', 'draw png --circular',
    'draw png --fill-background', 'draw png --height', 'draw png --no-branch-lengths', 'draw png --no-tip-labels',
    'draw png --radial', 'draw png --width', 'draw png --with-branch-support', 'draw png --with-node-comments',
    'draw png --with-node-symbols', 'draw svg --circular', 'draw svg --height', 'draw svg --no-branch-lengths',
    'draw svg --no-tip-labels', 'draw svg --radial', 'draw svg --width', 'draw svg --with-branch-support',
    'draw svg --with-node-comments', 'draw svg --with-node-labels', 'draw svg --with-node-symbols', 'draw text --no-branch-lengths',
    'draw text --no-tip-labels', 'draw text --width', 'draw text --with-branch-support', 'draw text --with-node-comments',
    'generate balancedtree --depth', 'generate balancedtree --nbtrees', 'generate balancedtree --rooted', 'generate caterpillartree --nbtips',
    'generate caterpillartree --nbtrees', 'generate caterpillartree --rooted', 'generate startree --nbtips', 'generate startree --nbtrees',
    'generate topologies --rooted', 'generate uniformtree --nbtips', 'generate uniformtree --nbtrees', 'generate uniformtree --rooted',
    'generate yuletree --nbtips', 'generate yuletree --nbtrees', 'generate yuletree --rooted', 'labels --tips',
    'prune --random', 'prune --revert', 'reformat nexus --translate', 'rename --add-quotes',
    'rename --auto', 'rename --revert', 'rename --rm-quotes', 'rename --tips',
    'reroot outgroup --remove-outgroup', 'sample --nbtrees', 'sample --replace', 'support round --precision',
    'support scale --factor',
}
E2E_INPUT_SEED = 1
# commands whose documented defaults make them the identity on the recipe's input: with every option omitted the output
# must be the input tree as `gotree reformat newick` prints it (catches a Run function that replaces the default value
# by another one, which the omitted-vs-explicit differential cannot see because both runs are affected alike)
E2E_IDENTITY = ["brlen add", "brlen scale", "brlen setmin", "support scale", "collapse length", "collapse support", "collapse depth"]
# alternative values chosen by hand where default+delta does not change the output on the recipe's input
E2E_ALT = {("collapse length", "length"): "1.5", ("brlen cut", "max-length"): "0.1", ("collapse support", "support"): "0.6",
           ("draw text", "support-cutoff"): "0.3", ("draw svg", "support-cutoff"): "0.3", ("draw png", "support-cutoff"): "0.3",
           ("compute support tbe", "dist-cutoff"): "0.01", ("compute roccurve", "length-geq"): "1.5", ("compute roccurve", "pvalue"): "0.01",
           ("collapse depth", "min-depth"): "1", ("collapse depth", "max-depth"): "3"}

def _alt(kind, dflt):
    """a value different from the documented default, or None"""
    try:
        if kind == "Bool":
            return "false" if dflt == "true" else "true"
        if kind in ("Int", "Int64"):
            return str(int(dflt) + 2)
        if kind == "Float64":
            return repr(float(dflt) + 0.25) if float(dflt) >= 0 else "0.25"
    except ValueError:
        pass
    return None

def _cmd_tree():
    """all command paths of the binary, from its help texts"""
    out = []
    def subs(path):
        rc, so, se = cli.run(path + ["--help"], build.BUILD)
        m = re.search(r"Available Commands:\n(.*?)\n\n", so.decode("utf-8", "replace"), re.S)
        return [l.split()[0] for l in m.group(1).splitlines() if l.split()] if m else []
    def walk(p):
        ss = [s for s in subs(p) if s not in ("help", "completion")]
        for s in ss:
            out.append((" ".join(p + [s])))
            walk(p + [s])
    walk([])
    return out

def _e2e(tier, rng, g, d, regs, presence_pairs):
    from concurrent.futures import ThreadPoolExecutor
    import time
    t0 = time.time()
    info = {"commands_with_recipe": 0, "pairs_run": 0, "pairs_skipped": {}, "commands_without_recipe": {}, "liveness_run": 0,
            "liveness_changed_output": 0, "liveness_asserted": 0, "not_nontrivial": []}
    fails = []
    inp = os.path.join(d, "in")
    os.makedirs(inp)
    P = lambda n: os.path.join(inp, n)
    def gt(argv, stdin=None):
        rc, so, se = cli.run(argv, inp, stdin=stdin)
        if rc != 0:
            raise RuntimeError("input preparation failed: gotree %s: %s" % (" ".join(argv), se[-200:]))
        return so
    import random
    g = Gen(random.Random(E2E_INPUT_SEED))   # fixed inputs: every recipe is known to run successfully on them
    t = g.tree(ntips=10, rooted=False, maxdeg=2, lenmode="all", supmode="all")
    open(P("tree.nw"), "w").write(newick(t) + "\n")
    open(P("multi.nw"), "w").write(newick(g.tree(ntips=10, rooted=False, maxdeg=4, lenmode="all", supmode="all")) + "\n")
    open(P("small.nw"), "w").write("((a:1,b:2)0.5:1,c:0.25,(d:1,e:0.5)0.75:2);\n")
    names = gt(["labels", "-i", P("tree.nw")]).decode().split()
    open(P("rooted.nw"), "wb").write(gt(["reroot", "midpoint", "-i", P("tree.nw")]))
    open(P("tree2.nw"), "wb").write(gt(["shuffletips", "--seed", "2", "-i", P("tree.nw")]))
    open(P("boot.nw"), "wb").write(b"".join(gt(["shuffletips", "--seed", str(k), "-i", P("tree.nw")]) for k in (1, 2, 3, 1, 5)))
    open(P("map.txt"), "w").write("".join("%s\tN%d\n" % (n, i) for i, n in enumerate(names)))
    open(P("tips.txt"), "w").write("".join(n + "\n" for n in names[:3]))
    open(P("states.txt"), "w").write("".join("%s,%s\n" % (n, "AB"[i % 2]) for i, n in enumerate(names)))
    # every run gets its own copy of the inputs in its working directory (rename --auto writes its map file)
    subst = {"tree": "tree.nw", "tree2": "tree2.nw", "boot": "boot.nw", "multi": "multi.nw", "small": "small.nw",
             "rooted": "rooted.nw", "map": "map.txt", "tips": "tips.txt", "states": "states.txt",
             "tip0": names[0], "tip1": names[1]}
    inputs = {f: open(P(f), "rb").read() for f in os.listdir(inp)}

    paths = _cmd_tree()
    leaves = [p for p in paths if not any(q.startswith(p + " ") for q in paths)]
    for p in leaves:
        if p not in E2E_RECIPES:
            info["commands_without_recipe"][p] = E2E_NO_RECIPE.get(p, "no recipe written")
    info["recipes_for_unknown_commands"] = sorted(set(E2E_RECIPES) - set(paths))

    def flags_of(p):
        """local options of the command and persistent options of its ancestors (the nearest registration wins)"""
        full = "gotree " + p if p else "gotree"
        words = full.split()
        res = {}
        for k in range(1, len(words) + 1):
            anc = " ".join(words[:k])
            for r in regs:
                if r[0] == anc and (k == len(words) or r[6] == "true"):
                    res[r[1]] = r
        return res

    jobs = {}      # key -> argv
    plan = []      # (cmd, flag, given, altgiven or None)
    for p, rec in E2E_RECIPES.items():
        if p not in paths:
            continue
        info["commands_with_recipe"] += 1
        base = p.split() + [w.format(**subst) for w in rec.split()]
        jobs[(p, None, "omitted")] = base
        fl = flags_of(p)
        short = {r[2]: n for n, r in fl.items() if r[2]}
        used = set()
        for w in rec.split():
            if w.startswith("--"):
                used.add(w[2:].split("=")[0])
            elif w.startswith("-") and len(w) == 2:
                used.add(short.get(w[1], w[1]))
        allgiven = []
        for n, r in sorted(fl.items()):
            kind, dflt = r[3], r[5].replace('""', '"')
            why = None
            if n in used:
                why = "set by the recipe"
            elif (p, n) in E2E_SKIP:
                why = E2E_SKIP[(p, n)]
            elif ("gotree " + p, n) in presence_pairs:
                why = "already run by the presence-test differential above"
            elif kind not in ("Bool", "Int", "Int64", "Float64", "String"):
                why = "default of type %s (%s) is not expressible as one --name=value" % (kind, dflt)
            if why:
                info["pairs_skipped"]["%s --%s" % (p, n)] = why
                continue
            given = "--%s=%s" % (n, dflt)
            jobs[(p, n, "given")] = base + [given]
            alt = E2E_ALT.get((p, n)) or _alt(kind, dflt)
            if alt is not None:
                jobs[(p, n, "alt")] = base + ["--%s=%s" % (n, alt)]
            plan.append((p, n, given, alt))
            allgiven.append(given)
        if tier != "quick" and len(allgiven) > 1:
            jobs[(p, "*", "given")] = base + allgiven
            plan.append((p, "*", " ".join(allgiven), None))

    def runjob(item):
        (key, argv) = item
        sub = os.path.join(d, "r%d" % runjob.ids[key])
        os.makedirs(sub)
        for f in inputs:
            if f in argv:
                open(os.path.join(sub, f), "wb").write(inputs[f])
        tj = time.time()
        rc, so, se = cli.run(argv, sub, stdin=b"")
        slow.append((round(time.time() - tj, 2), " ".join(argv)))
        files = {}     # files created or modified by the run
        for root, _, fs in os.walk(sub):
            for f in fs:
                rel = os.path.relpath(os.path.join(root, f), sub)
                b = open(os.path.join(root, f), "rb").read()
                if inputs.get(rel) != b:
                    files[rel] = b
        shutil.rmtree(sub, ignore_errors=True)
        return key, (rc, so, sorted(files.items())), se
    runjob.ids = {k: i for i, k in enumerate(jobs)}
    slow = []
    with ThreadPoolExecutor(16) as ex:
        res = {k: (o, se) for k, o, se in ex.map(runjob, list(jobs.items()))}

    def show(o):
        return ("rc=%d stdout=%r files=%r" % (o[0], o[1][:300], [(n, b[:120]) for n, b in o[2]]))[:900]
    info["identity_at_default"] = 0
    for p in E2E_IDENTITY:
        if (p, None, "omitted") in res and ("reformat newick", None, "omitted") in res and E2E_RECIPES[p] == E2E_RECIPES["reformat newick"]:
            om, ref = res[(p, None, "omitted")][0], res[("reformat newick", None, "omitted")][0]
            info["identity_at_default"] += 1
            if om != ref:
                a, b = jobs[(p, None, "omitted")], jobs[("reformat newick", None, "omitted")]
                fails.append(("e2e-identity:" + p, "`gotree %s` with every option omitted should leave the tree unchanged under the documented defaults, but differs from `gotree %s`: %s ; %s"
                              % (" ".join(a), " ".join(b), show(om), show(ref)),
                              {"cmdline_omitted": "gotree " + " ".join(a), "cmdline_reference": "gotree " + " ".join(b), "out_omitted": show(om), "out_reference": show(ref)}))
    live_seen = []
    for p, n, given, alt in plan:
        om, om_err = res[(p, None, "omitted")]
        gv, gv_err = res[(p, n, "given")]
        info["pairs_run"] += 1
        nontriv = om[0] == 0 and (len(om[1]) > 0 or len(om[2]) > 0)
        if not nontriv and p not in info["not_nontrivial"]:
            info["not_nontrivial"].append(p)
            fails.append(("e2e-recipe:" + p, "the recipe `gotree %s` does not run successfully (rc %d, stderr %r): the differential would be vacuous"
                          % (" ".join(jobs[(p, None, "omitted")]), om[0], om_err[-300:]), None))
        if gv != om:
            a, b = jobs[(p, None, "omitted")], jobs[(p, n, "given")]
            fails.append(("e2e:%s --%s" % (p, n),
                          "`gotree %s` and `gotree %s` (documented default given explicitly) differ: omitted %s ; given %s"
                          % (" ".join(a), " ".join(b), show(om), show(gv)),
                          {"cmdline_omitted": "gotree " + " ".join(a), "cmdline_given": "gotree " + " ".join(b),
                           "out_omitted": show(om), "out_given": show(gv), "stderr_given": gv_err[-300:].decode("utf-8", "replace")}))
        if alt is not None:
            al, _ = res[(p, n, "alt")]
            info["liveness_run"] += 1
            changed = al != om
            if changed:
                info["liveness_changed_output"] += 1
                live_seen.append("%s --%s" % (p, n))
            else:
                info.setdefault("alternative_value_changed_nothing", []).append("%s --%s=%s" % (p, n, alt))
            if "%s --%s" % (p, n) in E2E_LIVE:
                info["liveness_asserted"] += 1
                if not changed:
                    a, b = jobs[(p, None, "omitted")], jobs[(p, n, "alt")]
                    fails.append(("e2e-dead:%s --%s" % (p, n),
                                  "`gotree %s` and `gotree %s` (a value different from the documented default) give the same result: the command does not use the value of the option it registered"
                                  % (" ".join(a), " ".join(b)),
                                  {"cmdline_omitted": "gotree " + " ".join(a), "cmdline_alternative": "gotree " + " ".join(b), "out_both": show(om)}))
    info["live_seen"] = live_seen
    info["slowest_runs"] = sorted(slow, reverse=True)[:4]
    info["evaluations"] = len(jobs)
    info["seconds"] = round(time.time() - t0, 2)
    return fails, info

def extra(tier, seed, st):
    """For every option-presence test found in the source (cmd.Flags().Changed): run the command with the option
    omitted and with its documented default given explicitly; the outputs must be identical.  Then the same differential
    for every (command with a recipe, registered option): _e2e."""
    info = {"presence_tests": 0, "evaluations": 0, "distinct_nontrivial": 0, "differentials": {}}
    regs, changed = _tables()
    info["presence_tests"] = len(changed)
    if not changed:
        return [], info
    ok, err = cli.build_gotree()
    if not ok:
        return [("build", "gotree no longer builds: " + err[-400:], None)], info
    import random
    rng = random.Random(seed)
    g = Gen(rng)
    d = cli.scratch("c19-")
    fails = []
    try:
        open(os.path.join(d, "tree.nw"), "w").write(newick(g.tree(ntips=10, rooted=False, maxdeg=2, lenmode="all", supmode="all")) + "\n")
        open(os.path.join(d, "big.nw"), "w").write(newick(g.tree(ntips=40, rooted=False, maxdeg=2, lenmode="all", supmode="all")) + "\n")
        defaults = {}
        for r in regs:
            defaults[(r[0], r[1])] = r[5].replace('""', '"')
        bycmd = {}
        for fl, cmdpath, flag in changed:
            bycmd.setdefault(cmdpath, [])
            if flag not in bycmd[cmdpath]:
                bycmd[cmdpath].append(flag)
        for cmdpath, flags in bycmd.items():
            base, files = RECIPES.get(cmdpath, (["-i", "tree.nw"], []))
            argv = cmdpath.split()[1:] + base
            groups = [[f] for f in flags] + ([flags] if len(flags) > 1 else [])
            def runit(variant):
                sub = os.path.join(d, "run")
                shutil.rmtree(sub, ignore_errors=True)
                os.makedirs(sub)
                for f in ("tree.nw", "big.nw"):
                    shutil.copy(os.path.join(d, f), sub)
                rc, so, se = cli.run(variant, sub)
                return rc, [so] + [open(os.path.join(sub, f), "rb").read() if os.path.exists(os.path.join(sub, f)) else b"<missing>" for f in files]
            omitted = runit(argv)
            info["evaluations"] += 1
            for grp in groups:
                given = ["--%s=%s" % (f, defaults.get((cmdpath, f), "")) for f in grp]
                out = runit(argv + given)
                info["evaluations"] += 1
                key = "%s %s" % (cmdpath, " ".join("--" + f for f in grp))
                same = out == omitted
                info["differentials"][key] = {"given": given, "same": same, "rc": [omitted[0], out[0]], "bytes": sum(len(b) for b in omitted[1])}
                if omitted[0] == 0 and sum(len(b) for b in omitted[1]) > 0:
                    info["distinct_nontrivial"] += 1
                if not same:
                    fails.append(("changed:" + key, "`gotree %s` gives a different result when %s (documented defaults) is passed explicitly than when omitted" % (" ".join(argv), " ".join(given)),
                                  {"argv_omitted": argv, "argv_given": argv + given,
                                   "out_omitted": b"\n".join(omitted[1]).decode("utf-8", "replace")[:800], "out_given": b"\n".join(out[1]).decode("utf-8", "replace")[:800]}))
        info["samples"] = [{"differential": k, **v} for k, v in list(info["differentials"].items())[:5]]
        try:
            f2, i2 = _e2e(tier, rng, g, d, regs, set((c, f) for _, c, f in changed))
        except Exception as e:   # a crash of the machinery must not pass silently
            import traceback
            f2, i2 = [("e2e:machinery", "end-to-end differential crashed: " + traceback.format_exc()[-600:], None)], {}
        fails += f2
        info["e2e"] = i2
    finally:
        shutil.rmtree(d, ignore_errors=True)
    return fails, info

MATCHERS = {
    # open finding: brlen setrand switches mode on the PRESENCE of --min-mean and --max-mean
    "C19-setrand-presence": lambda c: (c.get("meta") or {}).get("extra", "").startswith("changed:gotree brlen setrand --"),
}
