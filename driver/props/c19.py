"""C19: omitting a command-line option means its documented default."""
from lib import *

PROP = "C19"
LEVEL = "proof"
TECHNIQUE = "Coq theorem over a registration table regenerated from cmd/*.go by the translator (gotrans) + run-time cross-check of the table"
RULE = ("one case: the complete table of (command, option, DefValue, current value, bound-variable identity) read from "
        "cmd.RootCmd at run time after all init() functions; compared row by row with the table the translator generated from "
        "the source, over which the Coq theorems are stated; non-trivial = the table has > 200 options; the second "
        "distinct case re-reads the table after a help rendering of every command")
TRUSTED = ["tools/gotrans (go/ast + go/types): extraction of the registration table from cmd/*.go, cross-checked against the run-time table",
           "pflag: XVar(&v, ..., default, ...) assigns default to v at registration and records DefValue (modelled in Model/Flags.v)"]
ASSUMPTIONS = ["a command reads its option through the bound variable", "cobra/pflag parse only the options given on the command line"]
LEVEL_TEXT = ("Theorem over the registration table regenerated from the source on every run: after all registrations every option's "
              "bound variable holds the documented default (vm_compute on the generated table) and, in general, this holds iff no two "
              "registrations bind one variable to different defaults; the table is tied to the running code by comparing it with the "
              "table observed from cmd.RootCmd.")
LEVEL_NOTE = "Trusted: translator, pflag registration semantics as modelled, Coq kernel/vm_compute. Behaviour of each command beyond reading its variables is not modelled."

def gen(rng, tier):
    return [{"sx": sx({"op": Sym("flags")}), "meta": {"op": "flags"}},
            {"sx": sx({"op": Sym("flags"), "after": Sym("help")}), "meta": {"op": "flags-after-help"}}]
SEARCH = False   # the input space is the single run-time table
