"""C19: omitting a command-line option means its documented default."""
from lib import *

PROP = "C19"
LEVEL = "proof"
TECHNIQUE = "Coq theorem over a registration table regenerated from cmd/*.go by the translator (gotrans) + run-time cross-check of the table"
RULE = ("one case: the complete table of (command, option, DefValue, current value, bound-variable identity) read from "
        "cmd.RootCmd at run time after all init() functions; compared row by row with the table the translator generated from "
        "the source, over which the Coq theorems are stated; non-trivial = the table has > 200 options; the second "
        "distinct case re-reads the table and then runs the root command's pre-run hook and re-reads the global options; the "
        "third gives every option of every command its documented default explicitly through the command's own ParseFlags "
        "(--name v, --name=v, -s v) and reads back value, left-over words and error")
TRUSTED = ["tools/gotrans (go/ast + go/types): extraction of the registration table from cmd/*.go, cross-checked against the run-time table",
           "pflag: XVar(&v, ..., default, ...) assigns default to v at registration and records DefValue (modelled in Model/Flags.v)"]
ASSUMPTIONS = ["a command reads its option through the bound variable", "cobra/pflag parse only the options given on the command line"]
LEVEL_TEXT = ("Theorem over the registration table regenerated from the source on every run: after all registrations every option's "
              "bound variable holds the documented default (vm_compute on the generated table) and, in general, this holds iff no two "
              "registrations bind one variable to different defaults; the table is tied to the running code by comparing it with the "
              "table observed from cmd.RootCmd.")
LEVEL_NOTE = "Trusted: translator, pflag registration semantics as modelled, Coq kernel/vm_compute. Behaviour of each command beyond reading its variables is not modelled."

def gen(rng, tier):
    return [{"sx": sx({"op": Sym("flags")}), "meta": {"op": "flags"}},
            {"sx": sx({"op": Sym("flags"), "after": Sym("prerun")}), "meta": {"op": "flags-then-root-prerun"}},
            {"sx": sx({"op": Sym("parse")}), "meta": {"op": "parse-every-default-explicitly"}}]
SEARCH = False   # the input space is the single run-time table

import re, shutil
import build, cli

# how to run a command on a small input: arguments after the command path, files to compare besides stdout
RECIPES = {
    "gotree brlen setrand": (["-i", "tree.nw", "--seed", "3"], []),
    "gotree draw svg": (["-i", "big.nw", "-o", "out.svg"], ["out.svg"]),
    "gotree draw png": (["-i", "big.nw", "-o", "out.png"], ["out.png"]),
    "gotree draw text": (["-i", "big.nw"], []),
}

def _tables():
    src = open(os.path.join(build.COQ, "Gen", "Flags.v")).read()
    regs = re.findall(r'mkReg "([^"]*)" "([^"]*)" "([^"]*)" "([^"]*)" "([^"]*)" "((?:[^"]|"")*)" (true|false)', src)
    m = re.search(r"Definition changed_sites.*?:= \[(.*?)\]\.", src, flags=re.S)
    changed = re.findall(r'\("([^"]*)", "([^"]*)", "([^"]*)"\)', m.group(1)) if m else []
    return regs, changed

def extra(tier, seed, st):
    """For every option-presence test found in the source (cmd.Flags().Changed): run the command with the option
    omitted and with its documented default given explicitly; the outputs must be identical."""
    info = {"presence_tests": 0, "evaluations": 0, "distinct_nontrivial": 0, "differentials": {}}
    regs, changed = _tables()
    info["presence_tests"] = len(changed)
    if not changed:
        return [], info
    ok, err = cli.build_gotree()
    if not ok:
        return [("build", "gotree no longer builds: " + err[-400:], None)], info
    import random
    rng = random.Random(seed)
    g = Gen(rng)
    d = cli.scratch("c19-")
    fails = []
    try:
        open(os.path.join(d, "tree.nw"), "w").write(newick(g.tree(ntips=10, rooted=False, maxdeg=2, lenmode="all", supmode="all")) + "\n")
        open(os.path.join(d, "big.nw"), "w").write(newick(g.tree(ntips=40, rooted=False, maxdeg=2, lenmode="all", supmode="all")) + "\n")
        defaults = {}
        for r in regs:
            defaults[(r[0], r[1])] = r[5].replace('""', '"')
        bycmd = {}
        for fl, cmdpath, flag in changed:
            bycmd.setdefault(cmdpath, [])
            if flag not in bycmd[cmdpath]:
                bycmd[cmdpath].append(flag)
        for cmdpath, flags in bycmd.items():
            base, files = RECIPES.get(cmdpath, (["-i", "tree.nw"], []))
            argv = cmdpath.split()[1:] + base
            groups = [[f] for f in flags] + ([flags] if len(flags) > 1 else [])
            def runit(variant):
                sub = os.path.join(d, "run")
                shutil.rmtree(sub, ignore_errors=True)
                os.makedirs(sub)
                for f in ("tree.nw", "big.nw"):
                    shutil.copy(os.path.join(d, f), sub)
                rc, so, se = cli.run(variant, sub)
                return rc, [so] + [open(os.path.join(sub, f), "rb").read() if os.path.exists(os.path.join(sub, f)) else b"<missing>" for f in files]
            omitted = runit(argv)
            info["evaluations"] += 1
            for grp in groups:
                given = ["--%s=%s" % (f, defaults.get((cmdpath, f), "")) for f in grp]
                out = runit(argv + given)
                info["evaluations"] += 1
                key = "%s %s" % (cmdpath, " ".join("--" + f for f in grp))
                same = out == omitted
                info["differentials"][key] = {"given": given, "same": same, "rc": [omitted[0], out[0]], "bytes": sum(len(b) for b in omitted[1])}
                if omitted[0] == 0 and sum(len(b) for b in omitted[1]) > 0:
                    info["distinct_nontrivial"] += 1
                if not same:
                    fails.append(("changed:" + key, "`gotree %s` gives a different result when %s (documented defaults) is passed explicitly than when omitted" % (" ".join(argv), " ".join(given)),
                                  {"argv_omitted": argv, "argv_given": argv + given,
                                   "out_omitted": b"\n".join(omitted[1]).decode("utf-8", "replace")[:800], "out_given": b"\n".join(out[1]).decode("utf-8", "replace")[:800]}))
        info["samples"] = [{"differential": k, **v} for k, v in list(info["differentials"].items())[:5]]
    finally:
        shutil.rmtree(d, ignore_errors=True)
    return fails, info

MATCHERS = {
    # open finding: brlen setrand switches mode on the PRESENCE of --min-mean and --max-mean
    "C19-setrand-presence": lambda c: (c.get("meta") or {}).get("extra", "").startswith("changed:gotree brlen setrand --"),
}
