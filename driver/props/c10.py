"""C10: bootstrap supports equal their definitions (FBP and TBE)."""
from lib import *

PROP = "C10"
PAR_OK = True
LEVEL = "proof"
RULE = ("reference tree on 4..12 taxa (rooted or not, binary or multifurcating, parent slot at random positions, old supports "
        "on inner branches, root with a tip child included) and 1..7 bootstrap trees on the same taxa drawn from: the reference "
        "itself, re-rootings / child rotations of it, contractions + random re-resolutions sharing some splits, tip-swapped "
        "copies (small transfer distances), random binary / multifurcating / star trees, rooted or not; every base collection "
        "is also run with the bootstrap order shuffled, every tree re-rooted and rotated, and the reference re-rooted; "
        "rejection cases replace one tip of one bootstrap tree by a foreign name, drop or add a tip, at the first / middle / "
        "last position; both FBP and TBE are run on each case, with Supporter = nil (as the commands) or a fresh "
        "support.NewSupporter() per call; chain cases run two computations in a row (fbp>fbp, tbe>fbp, fbp>tbe, tbe>tbe; "
        "accepted or rejected collections in either position) with ONE shared Supporter value and judge each call on its own "
        "collection; Supporter.Progress() is compared with the number of trees read; every call gets a thread count in "
        "{1, 2, 4, 16} and an id policy for the feeder (Trees.Id consecutive as ReadMultiTrees on one file, all zero as a "
        "channel built without setting Id, restarting every k trees as concatenated files, random with duplicates, decreasing): "
        "the model does not look at the ids, and by the theorems on the order of the bootstrap trees (fbp/tbe_bootstrap_order) "
        "the supports depend on the multiset of trees only, so they are independent of the ids; 'many' cases: 2000..10000 bootstrap trees given as 2..5 small distinct trees with multiplicities "
        "((repeat k T), judged through the proved closed form of the model on the expanded list) on 2..16 threads; 'family' cases: support.MinTransferDist called "
        "directly (absent = false and true) on the eleven reference branches outside H of the pair (((a,b),(c,d)),(e,f),H) / "
        "((H,(c,e)),(a,f),(b,d)) with H a common clade on m = 65537..70000 taxa (also small m); the judge does not rebuild trees "
        "of that size: it evaluates the definition and the model on the member m = 12 of the family; that light sides and "
        "transfer indexes of these branches are the same for ANY common clade H on >= 8 taxa is proved "
        "(family_definition, family_in_the_model, family_in_the_model_absent); non-trivial = some inner branch has a support strictly between "
        "0 and 1 (or the collection must be rejected); distinct = distinct case text")
TRUSTED = ["trees built through NewNode/NewEdge + verif hooks (exact neighbour order); supports read through Edges()/Support()/Right().Tip()",
           "bootstrap trees are fed through a closed buffered channel of tree.Trees as utils.ReadMultiTrees does (no Newick parsing)",
           "a call that does not return within 4 s is reported as a hang"]
ASSUMPTIONS = ["the sequential semantics is modelled; the same cases are run with cpus in {1, 2, 4, 16} and must give the same "
               "result (the scheduling itself is property C11)",
               "the model represents the per-bootstrap EdgeIndex as a set of bipartitions; that the hash map (bucket array, FNV hash "
               "codes of the tip names, rehash) behaves so for trees on the same taxa is a theorem "
               "(fbp/tbe_edge_index_is_a_set_of_bipartitions) about the C04 model of hashmap.go / edgeindex.go, itself tied to the "
               "code by the C04 correspondence; after an error (bootstrap tree on other taxa) only err/hang/panic/progress are "
               "compared with the model, not the supports left in the reference tree",
               "float64 results are compared with the exact rationals up to 1e-9"]
LEVEL_TEXT = "proof"
LEVEL_NOTE = ""

def _msg(case):
    f = case.get("fields") or [""]
    return f[0] if f else ""

# Known-finding matchers (ids to be used in known_findings.json if the coordinator records the defects as findings).
# It only matches oracle messages that the judge emits after every other check of the case passed, and only when the
# model (bug-compatible) reproduces the implementation's output.
MATCHERS = {
    # rooted reference whose root has a tip child: the other root branch is 'inner' for the code but defines a trivial
    # split; FBP gives it (number of bootstrap trees rooted the same way)/n instead of 1, TBE leaves it without support
    "C10-root-branch-beside-tip": lambda case: case.get("kind") == "ORACLE"
        and "(inner branch with a one-taxon side)" in _msg(case)
        and "[the model agrees with the implementation]" in _msg(case),
}

# ---------------------------------------------------------------- shapes (nested lists of names)

def sh_leaves(sh):
    if not isinstance(sh, list):
        return [sh]
    r = []
    for c in sh:
        r += sh_leaves(c)
    return r

def sh_rename(sh, m):
    if not isinstance(sh, list):
        return m.get(sh, sh)
    return [sh_rename(c, m) for c in sh]

def sh_rotate(rng, sh):
    if not isinstance(sh, list):
        return sh
    l = [sh_rotate(rng, c) for c in sh]
    rng.shuffle(l)
    return l

def sh_unroot(sh):
    """merge the two root branches of a rooted shape (if possible)"""
    if isinstance(sh, list) and len(sh) == 2:
        a, b = sh
        if isinstance(a, list):
            return a + [b]
        if isinstance(b, list):
            return [a] + b
    return sh

def sh_adj(sh):
    """unrooted adjacency of a shape: nodes 0..k-1, label[i] = name or None"""
    label, adj = [], []
    def rec(s, parent):
        i = len(label)
        label.append(None if isinstance(s, list) else s)
        adj.append([] if parent is None else [parent])
        if isinstance(s, list):
            for c in s:
                j = rec(c, i)
                adj[i].append(j)
        return i
    rec(sh, None)
    return label, adj

def sh_from(label, adj, node, parent):
    if label[node] is not None:
        return label[node]
    nb = adj[node]
    if parent is not None:
        k = nb.index(parent)
        nb = nb[k + 1:] + nb[:k]
    return [sh_from(label, adj, c, node) for c in nb]

def sh_reroot(rng, sh, rooted=None):
    """the same unrooted tree seen from another inner node (rooted=False) or with a degree-2 root placed on a random
    branch (rooted=True)"""
    sh = sh_unroot(sh)
    label, adj = sh_adj(sh)
    inner = [i for i, l in enumerate(label) if l is None]
    if rooted is None:
        rooted = rng.random() < 0.4
    if not rooted:
        return sh_from(label, adj, rng.choice(inner), None)
    edges = [(i, j) for i in range(len(adj)) for j in adj[i] if i < j]
    i, j = rng.choice(edges)
    a, b = sh_from(label, adj, i, j), sh_from(label, adj, j, i)
    return [a, b] if rng.random() < 0.5 else [b, a]

def sh_contract(rng, sh, q, top=True):
    """dissolve each inner child with probability q"""
    if not isinstance(sh, list):
        return sh
    out = []
    for c in sh:
        c2 = sh_contract(rng, c, q, False)
        if isinstance(c2, list) and rng.random() < q:
            out += c2
        else:
            out.append(c2)
    return out

def sh_resolve(rng, sh, q, top=True):
    """group children of multifurcations at random (with probability q per grouping step)"""
    if not isinstance(sh, list):
        return sh
    l = [sh_resolve(rng, c, q, False) for c in sh]
    while len(l) > (3 if top else 2) and rng.random() < q:
        i, j = sorted(rng.sample(range(len(l)), 2))
        b = l.pop(j)
        a = l.pop(i)
        l.insert(i, [a, b])
    return l

def sh_swap(rng, sh, k):
    ls = sh_leaves(sh)
    m = {}
    for _ in range(k):
        a, b = rng.sample(ls, 2)
        ma, mb = m.get(a, a), m.get(b, b)
        m[a], m[b] = mb, ma
    return sh_rename(sh, m)

def sh_star(names):
    return list(names)

def sh_drop(sh, name):
    """remove a tip and the single-child node this may leave"""
    if not isinstance(sh, list):
        return None if sh == name else sh
    l = [x for x in (sh_drop(c, name) for c in sh) if x is not None]
    if len(l) == 1:
        return l[0]
    return l if l else None

# ---------------------------------------------------------------- cases

NAMESETS = [lambda i: "t%d" % i, lambda i: "T%02d" % i, lambda i: "abcdefghijklmnop"[i], lambda i: "sp_%d" % (i * 7 % 17)]

def gen(rng, tier):
    g = Gen(rng)
    nbase = {"quick": 70, "thorough": 1500, "search": 120}[tier]
    out = []

    def deco_ref(sh):
        return g.decorate(sh, lenmode=rng.choice(["all", "mixed", "none"]), supmode=rng.choice(["mixed", "none", "all"]),
                          up_random=rng.random() < 0.4)

    def deco_boot(sh):
        return g.decorate(sh, lenmode=rng.choice(["all", "none"]), supmode="none", up_random=rng.random() < 0.3)

    pool = []    # collections emitted so far: (ref, boots, reject)

    def root_tip(ref):
        return len(ref["slots"]) == 2 and any(not kids(ch) for _, ch in kids(ref))

    def cpus_pick():
        return rng.choice([1, 1, 1, 2, 4, 16])

    def ids_pick():
        """how the feeder numbers the trees (Trees.Id): the supports must not depend on it"""
        r = rng.random()
        if r < 0.4: return Sym("seq")
        if r < 0.6: return Sym("zero")
        if r < 0.8: return [Sym("restart"), rng.choice([1, 2, 3, 5])]
        if r < 0.9: return [Sym("rand"), rng.randrange(1, 1000)]
        return Sym("dec")

    def ids_name(v):
        return v.s if isinstance(v, Sym) else v[0].s

    def bsx(b):
        """a bootstrap tree, or (k, tree) for k consecutive copies"""
        return [Sym("repeat"), b[0], T(b[1])] if isinstance(b, tuple) else T(b)

    def nb(boots):
        return sum(b[0] if isinstance(b, tuple) else 1 for b in boots)

    def emit(ref, boots, kind, reject=False, mode="nil", cpus=None):
        """FBP and TBE on one collection; mode nil: Supporter = nil, fresh: a new Supporter per call"""
        cpus = cpus or cpus_pick()
        ids = ids_pick()
        out.append({"sx": sx({"mode": Sym(mode), "cpus": cpus, "ids": ids, "ref": T(ref), "boots": [bsx(b) for b in boots]}),
                    "meta": {"kind": kind, "mode": mode, "cpus": cpus, "ids": ids_name(ids), "ntips": len(leaves(ref)), "nboot": nb(boots),
                             "ref_rooted": len(ref["slots"]) == 2, "ref_root_tip": root_tip(ref),
                             "reject": reject}})
        if mode == "nil" and kind != "many":
            pool.append((ref, boots, reject))

    def emit_chain(first, second, algs):
        """two computations in a row with ONE shared Supporter value"""
        (ref1, boots1, rej1), (ref2, boots2, rej2) = first, second
        cpus = cpus_pick()
        ids = ids_pick()
        out.append({"sx": sx({"mode": Sym("chain"), "cpus": cpus, "ids": ids, "alg1": Sym(algs[0]), "alg2": Sym(algs[1]),
                              "ref": T(ref1), "boots": [T(b) for b in boots1],
                              "ref2": T(ref2), "boots2": [T(b) for b in boots2]}),
                    "meta": {"kind": "chain", "mode": "chain:%s>%s" % algs, "cpus": cpus, "ids": ids_name(ids), "ntips": len(leaves(ref2)),
                             "nboot": len(boots2), "ref_rooted": len(ref2["slots"]) == 2,
                             "ref_root_tip": root_tip(ref1) or root_tip(ref2), "reject": rej2,
                             "first_reject": rej1}})

    for it in range(nbase):
        n = rng.randint(4, 12 if tier != "thorough" else 16)
        nm = rng.choice(NAMESETS)
        names = [nm(i) for i in range(n)]
        style = rng.random()
        if style < 0.08:
            # rooted reference whose root has a tip child
            rest = g.shape(names[1:], maxdeg=rng.choice([2, 2, 3]), rootdeg=rng.choice([2, 2, 3]) if n > 3 else None)
            refsh = [names[0], rest] if rng.random() < 0.5 else [rest, names[0]]
        elif style < 0.5:
            refsh = g.shape(names, maxdeg=rng.choice([2, 2, 3, 4]), rootdeg=2)
        else:
            refsh = g.shape(names, maxdeg=rng.choice([2, 2, 2, 3, 4]), rootdeg=min(n, rng.choice([3, 3, 3, 4])))
        k = rng.randint(1, 7)
        bsh = []
        for _ in range(k):
            r = rng.random()
            if r < 0.15:
                s = refsh
            elif r < 0.3:
                s = sh_rotate(rng, sh_reroot(rng, refsh))
            elif r < 0.55:
                s = sh_resolve(rng, sh_contract(rng, sh_unroot(refsh), rng.choice([0.2, 0.5, 0.8])), rng.choice([0, 0.5, 1]))
                if rng.random() < 0.5:
                    s = sh_reroot(rng, s)
            elif r < 0.75:
                s = sh_swap(rng, refsh, rng.choice([1, 1, 2, 3]))
                if rng.random() < 0.5:
                    s = sh_reroot(rng, s)
            elif r < 0.95:
                rooted = rng.random() < 0.3
                s = g.shape(names, maxdeg=rng.choice([2, 2, 3, 5]), rootdeg=2 if rooted else min(n, rng.choice([3, 3, 4])))
            else:
                s = sh_star(names)
            bsh.append(s)
        ref = deco_ref(refsh)
        boots = [deco_boot(s) for s in bsh]
        earlier = rng.choice(pool) if pool else None
        rejected = [x for x in pool if x[2]]
        if rejected and rng.random() < 0.25:
            earlier = rng.choice(rejected)      # an error in one of the two computations
        emit(ref, boots, "base")
        # Supporter state: a fresh non-nil Supporter; two computations sharing one Supporter
        if rng.random() < 0.3:
            emit(ref, boots, "base", mode="fresh")
        if earlier is not None and rng.random() < 0.75:
            algs = rng.choice([("fbp", "fbp"), ("fbp", "fbp"), ("tbe", "fbp"), ("tbe", "fbp"), ("fbp", "tbe"), ("tbe", "tbe")])
            if rng.random() < 0.5:
                emit_chain(earlier, (ref, boots, False), algs)
            else:
                emit_chain((ref, boots, False), earlier, algs)
        # the same collection: other order, other rootings and child orders
        if rng.random() < 0.6:
            p = list(boots)
            rng.shuffle(p)
            emit(ref, p, "shuffled")
        if rng.random() < 0.6:
            emit(ref, [deco_boot(sh_rotate(rng, sh_reroot(rng, s))) for s in bsh], "boots-rerooted")
        if rng.random() < 0.6:
            emit(deco_ref(sh_rotate(rng, sh_reroot(rng, refsh))), boots, "ref-rerooted")
        # rejection: a bootstrap tree on other taxa
        if rng.random() < 0.5:
            pos = rng.choice([0, k // 2, k - 1])
            victim = rng.choice(names)
            mode = rng.choice(["foreign", "foreign", "drop", "add"])
            s = bsh[pos]
            if mode == "foreign":
                s2 = sh_rename(s, {victim: rng.choice(["zz", "A0", victim + "x", "mm"])})
            elif mode == "drop":
                s2 = sh_drop(sh_unroot(s), victim)
                if not isinstance(s2, list) or len(s2) < 2:
                    continue
            else:
                s2 = [s, "zz"] if rng.random() < 0.5 else sh_unroot(s) + ["zz"]
            b2 = list(boots)
            b2[pos] = deco_boot(s2)
            emit(ref, b2, "reject-" + mode + "-" + ("first" if pos == 0 else "last" if pos == k - 1 else "middle"), reject=True,
                 mode="fresh" if rng.random() < 0.25 else "nil")

    # thousands of bootstrap trees (a few small distinct trees with multiplicities) on several threads:
    # a lost update of a shared counter shows as a wrong exact fraction
    nmany = {"quick": 6, "thorough": 40, "search": 10}[tier]
    for it in range(nmany):
        n = rng.randint(4, 7)
        nm = rng.choice(NAMESETS)
        names = [nm(i) for i in range(n)]
        refsh = g.shape(names, maxdeg=2, rootdeg=rng.choice([2, 3]))
        if isinstance(refsh, list) and len(refsh) == 2 and any(not isinstance(x, list) for x in refsh):
            refsh = sh_unroot(refsh)       # keep the known root-tip class out of this stream
        ref = deco_ref(refsh)
        total = rng.randint(2000, 10000)
        kinds = rng.randint(2, 5)
        cuts = sorted(rng.sample(range(1, total), kinds - 1))
        mult = [b - a for a, b in zip([0] + cuts, cuts + [total])]
        boots = []
        for j, k in enumerate(mult):
            r = rng.random()
            if j == 0 or r < 0.4:
                s2 = sh_rotate(rng, sh_reroot(rng, refsh))          # most lookups succeed
            elif r < 0.7:
                s2 = sh_swap(rng, refsh, 1)
            else:
                s2 = g.shape(names, maxdeg=rng.choice([2, 3]), rootdeg=min(n, 3))
            boots.append((k, deco_boot(s2)))
        emit(ref, boots, "many", cpus=rng.choice([2, 4, 16, 16]), mode=rng.choice(["nil", "nil", "fresh"]))

    # transfer distances on trees with more than 65536 taxa (counters narrower than int wrap there):
    # support.MinTransferDist called directly on the family (((a,b),(c,d)),(e,f),H) / ((H,(c,e)),(a,f),(b,d));
    # ~0.7 GB and ~1 s per case with m > 65536
    fam = {"quick": [(65537, 256)], "search": [(65537, 256), (300, 7)],
           "thorough": [(65537, 256), (66001, 64), (12, 4), (300, 7), (70000, 1000)]}[tier]
    for m, gsz in fam:
        out.append({"sx": sx({"mode": Sym("family"), "m": m, "g": gsz}),
                    "meta": {"kind": "family", "mode": "family", "cpus": 1, "ntips": m + 6, "nboot": 1,
                             "ref_rooted": False, "ref_root_tip": False, "reject": False}})
    return out
