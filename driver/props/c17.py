"""C17: the NNI neighbourhood is complete, minimal and reversible."""
import re
from lib import *

PROP = "C17"
PAR_OK = True
LEVEL = "proof"
RULE = ("binary trees on 4..12 tips (thorough: up to 24), unrooted (root of degree 3) and rooted (root of degree 2, with 0, 1 or 2 "
        "inner root children), the parent slot of every inner node at a random position of its neighbour array (as after earlier "
        "re-rootings), lengths present/zero/absent, supports, p-values, inner names, node and branch comments; plus every "
        "combination of parent-slot positions for caterpillar and balanced trees on 4..6 tips; the real NNIRearranger is driven "
        "as cmd/nni.go does (Apply, CheckTreePostOrder, Newick, Undo, CheckTreePostOrder) and the rearranged tree of every "
        "proposal is dumped; sequence cases give 2 or 3 trees (different sizes in both orders, rooted/unrooted mixes, the same tree "
        "twice) to ONE NNIRearranger value one after the other, as the loop over a multi-tree input of cmd/nni.go does, every tree "
        "judged on its own; operation cases run Apply/Undo sequences (A U A U, A A U, A U U, U A U, A U A A U U, ...) on every "
        "proposal object inside the callback with a dump after every operation; kept-object cases only collect the proposal "
        "objects in the callback and use them after Rearrange has returned, in enumeration order, in a shuffled order, and in "
        "order then shuffled again (every object used twice), with A U or A U A U; non-trivial = at least one proposal; "
        "multifurcating trees (outside the property: correspondence and the per-proposal clauses only, tag nonbinary); "
        "distinct = distinct case text")
TRUSTED = ["tree built through NewNode/NewEdge + verif hooks (exact neighbour order); dump through Neigh()/Edges()/Left()/Right() "
           "with a pointer-level audit (symmetric adjacency, branches oriented away from the root)"]
ASSUMPTIONS = ["the Newick text of the rearranged trees is compared with the writer model of Model/Newick.v (property C01)"]
LEVEL_TEXT = ("theorems in coq/Properties/C17.v about Model/NNI.v for all well-formed binary trees; correspondence by exact structural "
              "equality of every proposed neighbour and of the tree left after the enumeration")
LEVEL_NOTE = ("the clause 'exactly two rearrangements per inner branch' is false for rooted trees whose two root children are both inner "
              "nodes: the branch through the degree-2 root is never proposed (kept as a refuted statement with its witness)")

def _msg(case):
    f = case.get("fields") or [""]
    return f[0] if f else ""

# Known finding: emitted by the judge only when every other check of the case passed (every proposal is a valid,
# distinct neighbour, the tree is restored exactly, every other inner branch has its two proposals), the un-proposed
# inner branch is the one through the degree-2 root, and the bug-compatible model reproduces Go's output exactly.
_ROOT_RE = re.compile(r"the inner branch through the degree-2 root \{.*\} gets no proposal, every other inner branch two: "
                      r"\d+ proposals for \d+ inner branches \[the model agrees with the implementation\]"
                      r"( \(tree (\d+) of \d+: same rearranger value\))?$")

def _root_branch(case):
    if case.get("kind") != "ORACLE":
        return False
    m = _ROOT_RE.match(_msg(case))
    if m is None:
        return False
    meta = case.get("meta") or {}
    if m.group(2) is None:      # single tree
        return bool(meta.get("rooted")) and meta.get("root_inner_kids") == 2
    # sequence case: the judge reports this message only when no tree of the sequence failed in any other way
    ks = meta.get("root_inner_kids_seq") or []
    i = int(m.group(2))
    return 1 <= i <= len(ks) and ks[i - 1] == 2

MATCHERS = {"C17-nni-root-branch": _root_branch}

def binary_shape(rng, names, rootdeg):
    """random binary shape (nested lists); the root has rootdeg children"""
    def build(ns):
        if len(ns) == 1:
            return ns[0]
        if rng.random() < 0.3:
            cut = rng.choice([1, len(ns) - 1])
        else:
            cut = rng.randrange(1, len(ns))
        return [build(ns[:cut]), build(ns[cut:])]
    ns = list(names)
    rng.shuffle(ns)
    if rootdeg == 2 or len(ns) < 3:
        return build(ns)
    a, b = sorted(rng.sample(range(1, len(ns)), 2))
    return [build(ns[:a]), build(ns[a:b]), build(ns[b:])]

def set_ups(t, positions):
    """move the parent slot of every inner non-root node (pre-order) to the given position"""
    it = iter(positions)
    def go(x, is_root):
        ks = kids(x)
        if not is_root and ks:
            x["slots"] = [s for s in x["slots"] if s is not None]
            x["slots"].insert(next(it), None)
        for _, c in ks:
            go(c, False)
    go(t, True)

def n_inner_nonroot(t):
    return sum(1 for x in preorder(t) if kids(x)) - 1

def meta_of(t, src):
    rooted = len(t["slots"]) == 2
    return {"src": src, "ntips": len(leaves(t)), "rooted": rooted,
            "root_inner_kids": sum(1 for _, c in kids(t) if kids(c)) if rooted else -1}

def gen(rng, tier):
    from itertools import product
    g = Gen(rng)
    out = []
    def add(t, src):
        out.append({"sx": sx({"tree": T(t)}), "meta": meta_of(t, src)})
    # systematic: small shapes, every combination of parent-slot positions
    if tier != "search":
        small = [
            [["a", "b"], ["c", "d"]], ["a", ["b", ["c", "d"]]], [["a", "b"], "c", "d"], ["a", "b", ["c", "d"]],
            [["a", "b"], ["c", ["d", "e"]]], ["a", ["b", ["c", ["d", "e"]]]], [["a", "b"], "c", ["d", "e"]],
            [["a", ["b", "c"]], "d", "e"], [[["a", "b"], "c"], ["d", ["e", "f"]]], [["a", "b"], ["c", "d"], ["e", "f"]],
            [[["a", "b"], ["c", "d"]], "e", "f"],
        ]
        for sh in small:
            base = g.decorate(sh, lenmode="all", supmode="all")
            k = n_inner_nonroot(base)
            combos = list(product(range(3), repeat=k))
            if len(combos) > 81:
                combos = rng.sample(combos, 81)
            for pos in combos:
                t = sx_to_tree(parse_sexp(tree_sx(base)))
                set_ups(t, pos)
                add(t, "small")
    n = {"quick": 220, "thorough": 5000, "search": 400}[tier]
    for _ in range(n):
        ntips = rng.randint(4, 12 if tier != "thorough" else 24)
        rooted = rng.random() < 0.45
        sh = binary_shape(rng, ["t%d" % i for i in range(ntips)], 2 if rooted else 3)
        t = g.decorate(sh, lenmode=rng.choice(["all", "all", "mixed", "none"]), supmode=rng.choice(["mixed", "all", "none"]),
                       inner_names=rng.random() < 0.3, comments=rng.random() < 0.3, up_random=rng.random() < 0.85)
        add(t, "random")
    # outside the property: multifurcations (branches with an end of degree > 3 get no proposal)
    for _ in range({"quick": 40, "thorough": 800, "search": 60}[tier]):
        t = g.tree(lo=5, hi=12, maxdeg=rng.choice([3, 4, 5]), rooted=rng.random() < 0.3,
                   lenmode=rng.choice(["all", "mixed"]), supmode="mixed", inner_names=rng.random() < 0.2,
                   comments=rng.random() < 0.2, up_random=rng.random() < 0.8)
        if all(len(x["slots"]) in (1, 3) for x in preorder(t) if x is not t) and len(t["slots"]) in (2, 3):
            continue
        m = meta_of(t, "multifurcating")
        out.append({"sx": sx({"tree": T(t)}), "meta": m})
    # sequences: the same rearranger value for several trees
    def rnd_tree(ntips=None, rooted=None):
        ntips = ntips or rng.randint(4, 10)
        if rooted is None:
            rooted = rng.random() < 0.4
        sh = binary_shape(rng, ["t%d" % i for i in range(ntips)], 2 if rooted else 3)
        return g.decorate(sh, lenmode=rng.choice(["all", "mixed"]), supmode="mixed", inner_names=rng.random() < 0.2,
                          comments=rng.random() < 0.2, up_random=rng.random() < 0.8)
    def add_seq(ts, src):
        metas = [meta_of(t, src) for t in ts]
        out.append({"sx": sx({"trees": [T(t) for t in ts]}),
                    "meta": {"src": src, "ntrees": len(ts), "ntips": max(m["ntips"] for m in metas),
                             "rooted": any(m["rooted"] for m in metas),
                             "root_inner_kids_seq": [m["root_inner_kids"] for m in metas]}})
    nseq = {"quick": 70, "thorough": 1200, "search": 150}[tier]
    for i in range(nseq):
        style = i % 5
        if style == 0:      # small then large
            ts = [rnd_tree(rng.randint(4, 6)), rnd_tree(rng.randint(8, 12))]
        elif style == 1:    # large then small
            ts = [rnd_tree(rng.randint(8, 12)), rnd_tree(rng.randint(4, 6))]
        elif style == 2:    # the same tree twice (two objects)
            t = rnd_tree()
            ts = [t, sx_to_tree(parse_sexp(tree_sx(t)))]
        elif style == 3:    # same size, other shape; unrooted trees and rooted ones with a tip root child only
            n = rng.randint(5, 9)
            ts = [rnd_tree(n, False), rnd_tree(n, False), rnd_tree(n, False)]
        else:
            ts = [rnd_tree() for _ in range(rng.choice([2, 3]))]
        add_seq(ts, "sequence")
    # operations on the proposal objects (the applied flag), inside the callback and on kept objects
    OPS = ["AUAU", "AAU", "AUU", "UAU", "AUAAUU", "AAUAU", "UUAAUU", "AU"]
    K = 64
    def add_ops(t, ops, collect, src):
        d = {"tree": T(t)}
        if ops is not None:
            d["ops"] = [Sym(x) for x in ops]
        if collect is not None:
            d["collect"] = list(collect)
        m = meta_of(t, src)
        m["ops"] = ops or ""
        m["collect"] = "" if collect is None else ("twice" if len(collect) > K else ("order" if list(collect) == sorted(collect) else "shuffled"))
        out.append({"sx": sx(d), "meta": m})
    nops = {"quick": 14, "thorough": 300, "search": 40}[tier]
    for i in range(nops):
        t = rnd_tree(rng.randint(4, 11))
        for ops in rng.sample(OPS[:-1], 3):
            add_ops(t, ops, None, "ops")
        ident = list(range(K))
        sh = ident[:]
        rng.shuffle(sh)
        add_ops(t, None, ident, "kept")
        add_ops(t, None, sh, "kept")
        add_ops(t, rng.choice(["AUAU", "AAUU", "UAUAU"]), ident + sh, "kept")
    return out
