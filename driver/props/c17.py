"""C17: the NNI neighbourhood is complete, minimal and reversible."""
import re
from lib import *

PROP = "C17"
# concurrent pass of the runner (several cases at a time in one process, each with its own rearranger value): a sample
# is enough here, the "shared" stream below gives ONE rearranger value to several goroutines
PAR_OK = lambda c: (c.get("meta") or {}).get("src") in ("random", "multifurcating", "sequence")
LEVEL = "proof"
RULE = ("binary trees on 4..12 tips (thorough: up to 24), unrooted (root of degree 3) and rooted (root of degree 2, with 0, 1 or 2 "
        "inner root children), the parent slot of every inner node at a random position of its neighbour array (as after earlier "
        "re-rootings), lengths present/zero/absent, supports, p-values, inner names, node and branch comments; plus every "
        "combination of parent-slot positions for caterpillar and balanced trees on 4..6 tips; the real NNIRearranger is driven "
        "as cmd/nni.go does (Apply, CheckTreePostOrder, Newick, Undo, CheckTreePostOrder) and the rearranged tree of every "
        "proposal is dumped; sequence cases give 2 or 3 trees (different sizes in both orders, rooted/unrooted mixes, the same tree "
        "twice) to ONE NNIRearranger value one after the other, as the loop over a multi-tree input of cmd/nni.go does, every tree "
        "judged on its own; operation cases run Apply/Undo sequences (A U A U, A A U, A U U, U A U, A U A A U U, ...) on every "
        "proposal object inside the callback with a dump after every operation; kept-object cases only collect the proposal "
        "objects in the callback and use them after Rearrange has returned, in enumeration order, in a shuffled order, and in "
        "order then shuffled again (every object used twice), with A U or A U A U; non-trivial = at least one proposal; "
        "re-entrant cases start, from inside the callback of proposal i (first, second, middle, last; applied), a second "
        "enumeration with the SAME rearranger value on another tree (smaller, equal, larger) or on the same tree object (the "
        "2-step neighbourhood); shared cases give ONE rearranger value to 2-4 goroutines that enumerate different trees (equal "
        "sizes, mixed sizes) concurrently, the enumerations forced to overlap (barrier in the first callback, yield in every "
        "callback); every enumeration is judged on its own by the same oracle and model; CLI stream (extra): `gotree nni -i f "
        "-o out` on small, 16-24-tip and 60-70-tip trees and a two-tree file (outputs below 4096, above 4096 and above 65536 "
        "bytes): the output file must hold, line by line, the neighbours that the judged worker run of the same tree produced, "
        "and equal the run writing to stdout; "
        "greedy cases (outside the literal quantifier, oracle only): the callback KEEPS proposals (the first / second of a "
        "branch, early, middle, late, two of them, every first one) applied and lets the enumeration continue; every proposal "
        "is judged against the tree as it is when it is handed out (one split replaced, exact Undo, no error); greedy-stop "
        "cases: the callback answers false at proposal j (first/middle/last, first or second of a branch), having kept it, "
        "not kept it, or kept an earlier one too: nothing may be handed out afterwards (calls = j+1) and the tree is the one "
        "left by the kept moves or the original; "
        "multifurcating trees (outside the property: correspondence and the per-proposal clauses only, tag nonbinary); "
        "distinct = distinct case text")
TRUSTED = ["tree built through NewNode/NewEdge + verif hooks (exact neighbour order); dump through Neigh()/Edges()/Left()/Right() "
           "with a pointer-level audit (symmetric adjacency, branches oriented away from the root)"]
ASSUMPTIONS = ["the Newick text of the rearranged trees is compared with the writer model of Model/Newick.v (property C01)"]
LEVEL_TEXT = ("theorems in coq/Properties/C17.v about Model/NNI.v for all well-formed binary trees; correspondence by exact structural "
              "equality of every proposed neighbour and of the tree left after the enumeration")
LEVEL_NOTE = ("the clause 'exactly two rearrangements per inner branch' is false for rooted trees whose two root children are both inner "
              "nodes: the branch through the degree-2 root is never proposed (kept as a refuted statement with its witness)")

def _msg(case):
    f = case.get("fields") or [""]
    return f[0] if f else ""

# Known finding: emitted by the judge only when every other check of the case passed (every proposal is a valid,
# distinct neighbour, the tree is restored exactly, every other inner branch has its two proposals), the un-proposed
# inner branch is the one through the degree-2 root, and the bug-compatible model reproduces Go's output exactly.
_ROOT_RE = re.compile(r"the inner branch through the degree-2 root \{.*\} gets no proposal, every other inner branch two: "
                      r"\d+ proposals for \d+ inner branches \[the model agrees with the implementation\]"
                      r"( \(tree (\d+) of \d+: same rearranger value\))?$")

def _root_branch(case):
    if case.get("kind") != "ORACLE":
        return False
    m = _ROOT_RE.match(_msg(case))
    if m is None:
        return False
    meta = case.get("meta") or {}
    if m.group(2) is None:      # single tree
        return bool(meta.get("rooted")) and meta.get("root_inner_kids") == 2
    # sequence case: the judge reports this message only when no tree of the sequence failed in any other way
    ks = meta.get("root_inner_kids_seq") or []
    i = int(m.group(2))
    return 1 <= i <= len(ks) and ks[i - 1] == 2

MATCHERS = {"C17-nni-root-branch": _root_branch}

def binary_shape(rng, names, rootdeg):
    """random binary shape (nested lists); the root has rootdeg children"""
    def build(ns):
        if len(ns) == 1:
            return ns[0]
        if rng.random() < 0.3:
            cut = rng.choice([1, len(ns) - 1])
        else:
            cut = rng.randrange(1, len(ns))
        return [build(ns[:cut]), build(ns[cut:])]
    ns = list(names)
    rng.shuffle(ns)
    if rootdeg == 2 or len(ns) < 3:
        return build(ns)
    a, b = sorted(rng.sample(range(1, len(ns)), 2))
    return [build(ns[:a]), build(ns[a:b]), build(ns[b:])]

def set_ups(t, positions):
    """move the parent slot of every inner non-root node (pre-order) to the given position"""
    it = iter(positions)
    def go(x, is_root):
        ks = kids(x)
        if not is_root and ks:
            x["slots"] = [s for s in x["slots"] if s is not None]
            x["slots"].insert(next(it), None)
        for _, c in ks:
            go(c, False)
    go(t, True)

def n_inner_nonroot(t):
    return sum(1 for x in preorder(t) if kids(x)) - 1

def meta_of(t, src):
    rooted = len(t["slots"]) == 2
    return {"src": src, "ntips": len(leaves(t)), "rooted": rooted,
            "root_inner_kids": sum(1 for _, c in kids(t) if kids(c)) if rooted else -1}

def gen(rng, tier):
    from itertools import product
    g = Gen(rng)
    out = []
    def add(t, src):
        out.append({"sx": sx({"tree": T(t)}), "meta": meta_of(t, src)})
    # systematic: small shapes, every combination of parent-slot positions
    if tier != "search":
        small = [
            [["a", "b"], ["c", "d"]], ["a", ["b", ["c", "d"]]], [["a", "b"], "c", "d"], ["a", "b", ["c", "d"]],
            [["a", "b"], ["c", ["d", "e"]]], ["a", ["b", ["c", ["d", "e"]]]], [["a", "b"], "c", ["d", "e"]],
            [["a", ["b", "c"]], "d", "e"], [[["a", "b"], "c"], ["d", ["e", "f"]]], [["a", "b"], ["c", "d"], ["e", "f"]],
            [[["a", "b"], ["c", "d"]], "e", "f"],
        ]
        for sh in small:
            base = g.decorate(sh, lenmode="all", supmode="all")
            k = n_inner_nonroot(base)
            combos = list(product(range(3), repeat=k))
            cap = 81 if tier == "thorough" else 12
            if len(combos) > cap:
                combos = rng.sample(combos, cap)
            for pos in combos:
                t = sx_to_tree(parse_sexp(tree_sx(base)))
                set_ups(t, pos)
                add(t, "small")
    n = {"quick": 120, "thorough": 5000, "search": 400}[tier]
    for _ in range(n):
        ntips = rng.randint(4, 12 if tier != "thorough" else 24)
        rooted = rng.random() < 0.45
        sh = binary_shape(rng, ["t%d" % i for i in range(ntips)], 2 if rooted else 3)
        t = g.decorate(sh, lenmode=rng.choice(["all", "all", "mixed", "none"]), supmode=rng.choice(["mixed", "all", "none"]),
                       inner_names=rng.random() < 0.3, comments=rng.random() < 0.3, up_random=rng.random() < 0.85)
        add(t, "random")
    # outside the property: multifurcations (branches with an end of degree > 3 get no proposal)
    for _ in range({"quick": 25, "thorough": 800, "search": 60}[tier]):
        t = g.tree(lo=5, hi=12, maxdeg=rng.choice([3, 4, 5]), rooted=rng.random() < 0.3,
                   lenmode=rng.choice(["all", "mixed"]), supmode="mixed", inner_names=rng.random() < 0.2,
                   comments=rng.random() < 0.2, up_random=rng.random() < 0.8)
        if all(len(x["slots"]) in (1, 3) for x in preorder(t) if x is not t) and len(t["slots"]) in (2, 3):
            continue
        m = meta_of(t, "multifurcating")
        out.append({"sx": sx({"tree": T(t)}), "meta": m})
    # sequences: the same rearranger value for several trees
    def rnd_tree(ntips=None, rooted=None):
        ntips = ntips or rng.randint(4, 10)
        if rooted is None:
            rooted = rng.random() < 0.4
        sh = binary_shape(rng, ["t%d" % i for i in range(ntips)], 2 if rooted else 3)
        return g.decorate(sh, lenmode=rng.choice(["all", "mixed"]), supmode="mixed", inner_names=rng.random() < 0.2,
                          comments=rng.random() < 0.2, up_random=rng.random() < 0.8)
    def add_seq(ts, src):
        metas = [meta_of(t, src) for t in ts]
        out.append({"sx": sx({"trees": [T(t) for t in ts]}),
                    "meta": {"src": src, "ntrees": len(ts), "ntips": max(m["ntips"] for m in metas),
                             "rooted": any(m["rooted"] for m in metas),
                             "root_inner_kids_seq": [m["root_inner_kids"] for m in metas]}})
    nseq = {"quick": 40, "thorough": 1200, "search": 150}[tier]
    for i in range(nseq):
        style = i % 5
        if style == 0:      # small then large
            ts = [rnd_tree(rng.randint(4, 6)), rnd_tree(rng.randint(8, 12))]
        elif style == 1:    # large then small
            ts = [rnd_tree(rng.randint(8, 12)), rnd_tree(rng.randint(4, 6))]
        elif style == 2:    # the same tree twice (two objects)
            t = rnd_tree()
            ts = [t, sx_to_tree(parse_sexp(tree_sx(t)))]
        elif style == 3:    # same size, other shape; unrooted trees and rooted ones with a tip root child only
            n = rng.randint(5, 9)
            ts = [rnd_tree(n, False), rnd_tree(n, False), rnd_tree(n, False)]
        else:
            ts = [rnd_tree() for _ in range(rng.choice([2, 3]))]
        add_seq(ts, "sequence")
    # one rearranger value used by two overlapping enumerations: re-entrant (from the callback) and shared by goroutines
    def nprops(t):
        return 2 * sum(1 for x in preorder(t) if len(x["slots"]) == 3 for _, c in kids(x) if len(c["slots"]) == 3)
    def seq_meta(ts, src, **kw):
        metas = [meta_of(t, src) for t in ts]
        m = {"src": src, "ntrees": len(ts), "ntips": max(x["ntips"] for x in metas), "rooted": any(x["rooted"] for x in metas),
             "root_inner_kids_seq": [x["root_inner_kids"] for x in metas]}
        m.update(kw)
        return m
    nnest = {"quick": 36, "thorough": 600, "search": 80}[tier]
    for i in range(nnest):
        t = rnd_tree(rng.randint(5, 11))
        n = nprops(t)
        if n == 0:
            continue
        at = [0, 1, n // 2, n - 1][i % 4] % n
        style = (i // 4) % 4
        if style == 3:      # the same tree object: the neighbourhood of the neighbour
            out.append({"sx": sx({"tree": T(t), "at": at}), "meta": seq_meta([t, t], "reentrant", at=at, other="same")})
        else:
            k = len(leaves(t))
            t2 = rnd_tree([max(4, k - 3), k, k + 3][style])
            out.append({"sx": sx({"tree": T(t), "at": at, "nested": T(t2)}),
                        "meta": seq_meta([t, t2], "reentrant", at=at, other=["smaller", "equal", "larger"][style])})
    npar = {"quick": 36, "thorough": 600, "search": 80}[tier]
    for i in range(npar):
        k = rng.choice([2, 2, 3, 4])
        if i % 2 == 0:
            n = rng.randint(6, 12)
            ts = [rnd_tree(n) for _ in range(k)]
        else:
            ts = [rnd_tree(rng.randint(5, 12)) for _ in range(k)]
        out.append({"sx": sx({"par": [T(t) for t in ts]}), "meta": seq_meta(ts, "shared", goroutines=k)})
    # greedy sweep: some proposals are kept applied, the enumeration continues
    ngreedy = {"quick": 30, "thorough": 700, "search": 90}[tier]
    for i in range(ngreedy):
        t = rnd_tree(rng.randint(5, 12))
        n = nprops(t)
        if n == 0:
            continue
        h = (n // 2) & ~1
        keep = [[0], [1], [h], [h + 1], [n - 2], [n - 1], [0, h + 1], list(range(0, n, 2)), sorted(rng.sample(range(n), min(n, 3)))][i % 9]
        m = meta_of(t, "greedy")
        m["keep"] = ",".join(map(str, keep))[:40]
        out.append({"sx": sx({"tree": T(t), "keep": keep}), "meta": m})
        # first-improvement style: the callback answers false at proposal j, having kept it or not
        j = [0, 1, h, h + 1, n - 2, n - 1][i % 6]
        for kp in ([j], [], [0, j] if j > 0 else [j]):
            m2 = meta_of(t, "greedy-stop")
            m2["keep"] = ",".join(map(str, kp)); m2["stop"] = j
            out.append({"sx": sx({"tree": T(t), "keep": kp, "stop": j}), "meta": m2})
    # operations on the proposal objects (the applied flag), inside the callback and on kept objects
    OPS = ["AUAU", "AAU", "AUU", "UAU", "AUAAUU", "AAUAU", "UUAAUU", "AU"]
    K = 64
    def add_ops(t, ops, collect, src):
        d = {"tree": T(t)}
        if ops is not None:
            d["ops"] = [Sym(x) for x in ops]
        if collect is not None:
            d["collect"] = list(collect)
        m = meta_of(t, src)
        m["ops"] = ops or ""
        m["collect"] = "" if collect is None else ("twice" if len(collect) > K else ("order" if list(collect) == sorted(collect) else "shuffled"))
        out.append({"sx": sx(d), "meta": m})
    nops = {"quick": 10, "thorough": 300, "search": 40}[tier]
    for i in range(nops):
        t = rnd_tree(rng.randint(4, 11))
        for ops in rng.sample(OPS[:-1], 3):
            add_ops(t, ops, None, "ops")
        ident = list(range(K))
        sh = ident[:]
        rng.shuffle(sh)
        add_ops(t, None, ident, "kept")
        add_ops(t, None, sh, "kept")
        add_ops(t, rng.choice(["AUAU", "AAUU", "UAUAU"]), ident + sh, "kept")
    return out


# ---------------------------------------------------------------- CLI stream: gotree nni -o <file>
import os, random
import cli

def extra(tier, seed, st):
    """`gotree nni -i in.nw -o out.nw`: the output FILE must hold exactly the neighbours, one per line, that the worker run
    of the same tree (judged by the extracted oracle and against the model) produced, and equal the run that writes to stdout."""
    rng = random.Random(seed + 1717)
    fails = []
    info = {"evaluations": 0, "distinct_nontrivial": 0, "cli_output_bytes": []}
    ok, err = cli.build_gotree()
    if not ok:
        return [("build", "gotree no longer builds: " + err[-500:], None)], info
    d = cli.scratch("c17x-")
    g = Gen(rng)
    def tree_for_cli(ntips, rooted):
        # parent slot first, no comments / names on inner nodes: the structure the Newick parser builds
        sh = binary_shape(rng, ["t%d" % i for i in range(ntips)], 2 if rooted else 3)
        t = g.decorate(sh, lenmode="all", supmode="all", inner_names=False, comments=False, up_random=False)
        for x in preorder(t):
            for e, _ in kids(x):
                e["pv"] = None          # lib.newick does not write p-values
        return t
    sizes = [(4, False), (5, True), (8, False), (12, True), (rng.randint(16, 24), False), (rng.randint(16, 24), True),
             (rng.randint(60, 70), False)]
    if tier != "quick":
        sizes += [(rng.randint(4, 30), rng.random() < 0.4) for _ in range(12)] + [(rng.randint(60, 80), True)]
    groups = [[tree_for_cli(n, r)] for n, r in sizes]
    groups.append([tree_for_cli(9, False), tree_for_cli(7, True)])        # a two-tree input file
    try:
        for gi, ts in enumerate(groups):
            text = "".join(newick(t) + "\n" for t in ts)
            body = {"input": text, "cmd": "gotree nni -i in.nw -o out.nw", "ntips": [len(leaves(t)) for t in ts]}
            label = "nni -o (%s tips)" % "+".join(str(len(leaves(t))) for t in ts)
            # expected lines: the judged worker run of each tree
            cases = [sx({"tree": T(t)}) for t in ts]
            res, werr = run_pipeline(PROP, cases)
            expected = []
            bad = None
            for t, (kind, fields, obs) in zip(ts, res):
                c = {"kind": kind, "fields": fields, "meta": meta_of(t, "cli")}
                if kind != "OK" and not _root_branch(c):
                    bad = "%s %s" % (kind, (fields or [""])[0][:300])
                    break
                o = alist(parse_sexp(obs))
                expected += [alist(p)["nw"] for p in o["props"]]
            info["evaluations"] += 1
            if bad:
                fails.append((label, "the library run of the CLI input tree is not accepted: " + bad, body)); continue
            open(os.path.join(d, "in.nw"), "w").write(text)
            out = os.path.join(d, "out.nw")
            if os.path.exists(out):
                os.remove(out)
            rc, so, se = cli.run(["nni", "-i", "in.nw", "-o", "out.nw"], d)
            rc2, so2, se2 = cli.run(["nni", "-i", "in.nw"], d)
            if rc != 0 or rc2 != 0 or b"panic" in se or b"panic" in se2:
                fails.append((label, "`gotree nni` failed (rc=%d/%d): %s" % (rc, rc2, (se or se2)[:200]), body)); continue
            got = open(out, "rb").read().decode("utf-8", "replace") if os.path.exists(out) else None
            std = so2.decode("utf-8", "replace")
            want = "".join(x + "\n" for x in expected)
            info["cli_output_bytes"].append(len(want))
            if std != want:
                fails.append((label, "`gotree nni -i in.nw` (stdout): %d lines instead of the %d neighbours of the library run, or different text"
                              % (std.count("\n"), len(expected)), body)); continue
            if got is None:
                fails.append((label, "`gotree nni -i in.nw -o out.nw` wrote no output file (%d neighbours expected)" % len(expected), body)); continue
            if got != want:
                fails.append((label, "`gotree nni -i in.nw -o out.nw`: the output file holds %d bytes / %d complete lines instead of %d bytes / %d "
                              "neighbours (stdout of the same command without -o is complete)" %
                              (len(got), got.count("\n"), len(want), len(expected)), body)); continue
            if expected:
                info["distinct_nontrivial"] += 1
    finally:
        import shutil
        shutil.rmtree(d, ignore_errors=True)
    return fails, info
