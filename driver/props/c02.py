"""C02: tree readers are total: never crash, never hang; every delivered tree is usable."""
from lib import *
import json as _json
import sys as _sys
_sys.setrecursionlimit(max(_sys.getrecursionlimit(), 20000))   # documents nested a few hundred levels deep are walked recursively

PROP = "C02"
LEVEL = "proof"
LEVEL_TEXT = "partial"
LEVEL_NOTE = ("proof for the three modelled readers (single Newick via the C01 model, the multi-Newick splitter + reader loop, "
              "the Nexus lexer/parser) and for the structural clade conversions; PhyloXML / Nextstrain text decoding is "
              "encoding/xml / encoding/json (trusted, observed only); stack and heap exhaustion under huge nesting is observed "
              "only (thorough tier); the channel hand-off of ReadMultiTrees (buffer of 10, send* then close, draining or "
              "stop-at-first-error consumer) is a small-step model (Model/C02Extra8.v) proved deadlock-free and delivering under "
              "every fair schedule when an error record is sent last, tied to the real goroutine by the case family chan "
              "(records received / waiting in the buffer / left behind)")
RULE = ("family chan: ((fmt chan) (src multi|phyloxml) (text) (policy drain|stop)): utils.ReadMultiTrees on a stream of 0..40 "
        "records with chosen error positions, consumer policy drain / return at the first error; compared with the channel model: "
        "number of records received, len(channel) once stable, records left (buffer + held by the goroutine).  Other "
        "cases = (format, bytes) for the five formats newick | multi (multi-Newick stream) | nexus | phyloxml | nextstrain. "
        "Valid documents are generated from random trees (2..12 tips, lengths/supports/inner names/comments; numbers dyadic or, for "
        "10% of the trees, full-precision binary64 values with 16-17 significant digits): Newick text; "
        "multi-Newick streams with 1..6 trees laid out one per line, over several lines, several per line, with blank and "
        "whitespace-only lines, trailing blanks, CRLF, no final newline, lines longer than bufio's 4096-byte buffer, streams of "
        "5..40 KB whose trees (150..400 tips) are wrapped at random commas so that statements straddle the buffer refills; Nexus "
        "(several TREE statements under one name included) "
        "with TAXA (DIMENSIONS NTAX, TAXLABELS), TREES (TRANSLATE table, [&R] comments, several trees), DATA/CHARACTERS "
        "(DIMENSIONS, FORMAT DATATYPE/MISSING/GAP, MATRIX) and unknown blocks/commands, comments everywhere, mixed case "
        "keywords; PhyloXML (name / taxonomy scientific_name / code, branch_length, confidence, several phylogenies); "
        "Nextstrain v2 JSON (div, num_date, country, accession, aa labels). Then: truncation at every kind of position, "
        "splices of two documents (also across formats), byte mutations (replace/insert/delete, NUL, CR, high bytes, "
        "metacharacters), and targeted damage: unterminated comments and blocks, missing values after '=', "
        "whitespace-only lines, unbalanced parentheses, empty labels, duplicated labels; structural damage of the decoded "
        "JSON / XML documents (kind json-struct / xml-struct): null in place of any value (child entries, the tree, names, node_attrs, "
        "div / num_date values), values of another type (number/string/array/object/bool swapped), empty arrays and objects, removed "
        "and duplicated keys, children nested up to 400 deep; empty <clade/>, missing or empty <name>, non-numeric or empty "
        "<branch_length>/<confidence>, empty and nested empty elements (taxonomy, id, code), unknown and renamed elements, "
        "duplicated children, odd attributes; grammar-based Newick anomalies, 2..4 independent ones per document (kind "
        "anomaly:*; as single tree, in a multi-tree stream and embedded in a Nexus TREE command): empty child at first / middle / "
        "last position at any depth incl. the root, every order of up to two (thorough three) of {length, support, name, comment, "
        "second comment} after the outermost ')' x eight empty-child bodies, all orders of three after an empty last child, "
        "reordered/repeated suffixes after inner ')', double colons, comments in odd places, missing ';', trailing garbage, "
        "unbalanced parentheses at the end; trees written over several lines with LF / CRLF right after labels and numbers (single "
        "reader = parser on the first ';'-terminated text, fix 6227553); Nexus blocks closed with ENDBLOCK; in any case and "
        "look-alikes (kind nexus-endblock:*), several TREES blocks (nexus-blocks:*); text after the outermost ')' (kind anomaly:reopened: one or two extra ')' and then a "
        "new closed or unclosed group, the defect fixed by bd702f3); every delivered tree is then used: Nodes, Edges, Tips, Newick, "
        "PreOrder, PostOrder, the id-indexed NodeRootDistance, LTT, CutEdgesMaxLength, SortedTips, ReinitIndexes, and for trees of at "
        "most 200 nodes ToDistanceMatrix and Quartets (observed, not judged: Quartets ends the whole process through "
        "io.ExitWithMessage when a delivered tree has duplicate tip names, i.e. no tip index; it is therefore called only "
        "after ReinitIndexes succeeded); very large magnitude integers (2^31, 2^32, 2^62, 2^63-1, 2^63, 2^64, 10^9..10^30, "
        "negative ones) at EVERY integer-valued position of each grammar (kind hugeint:<position>): Nexus DIMENSIONS NTAX= of "
        "the TAXA block, NTAX= and NCHAR= of the DATA/CHARACTERS block (before MATRIX, either block order), TRANSLATE indices, "
        "numeric tree names and labels, supports, lengths, numbers in comments; Newick lengths, supports, p-values, names; "
        "PhyloXML branch_length, confidence, taxonomy ids, rooted; Nextstrain div, num_date, confidence, lbi, entropy, "
        "version; and one integer token of random valid documents; deep nesting (depth 500..5000 quick; up to "
        "20000 thorough, with a relaxed watchdog: indexing is quadratic in the depth). Plus a fixed list of hand-written witnesses (the three crashes found on the unchanged code "
        "among them). A case is non-trivial when the model/implementation comparison ran (modelled formats) or a tree was "
        "delivered (PhyloXML/Nextstrain); distinct = distinct case text")
TRUSTED = ["the readers run in a child process of the worker (same binary, kept alive from case to case) whose address space is "
           "capped (RLIMIT_AS 4 GiB, harness/worker/c02.go): an allocation sized from the input ends the child with 'fatal error: "
           "out of memory'; the worker reports exactly that case as class panic 'the reader process died: ...' (an oracle "
           "failure with this input as the witness), starts a new child and goes on; it never dies itself",
           "watchdog: each entry point runs in a goroutine under recover, 5 s timer; the input reader also stops a caller that "
           "asks for more input 2,000,000 times after the end of the input (reported as hang)",
           "utils.ReadMultiTrees' reader goroutine cannot be put under recover: its Newick loop is replicated in the handler "
           "(same library calls) and the real function is called only when the replica neither panicked nor hung; both must agree",
           "bufio.Reader.ReadLine (buffer 4096) is transcribed in Model/MultiTree.v phys_reads and compared through every multi case",
           "encoding/xml, encoding/json, goalign's alignment container (transcribed: alphabet names, equal sequence lengths)"]
ASSUMPTIONS = ["models are exact on valid UTF-8 without NUL bytes (bufio.ReadRune turns invalid bytes into U+FFFD; rune 0 is the "
               "lexers' EOF marker: modelled for Nexus, not for the C01 Newick model); other inputs are judged by the oracle only",
               "strconv.ParseFloat on non-finite spellings (inf, nan) is outside the C01 Newick model: oracle only"]
MATCHERS = {}

NL = "\n"

# ---------------------------------------------------------------- valid documents

LABELS = ["A", "B", "Homo_sapiens", "x1", "t", "Taxon-7", "a.b", "12", "0", "1e5", "é", "α", "end", "TREE", "gap", "data", "#NEXUS",
          "matrix", "N", "taxlabelſ", "mıssıng", "a|b", "x/y", "100%", "_", "k'v", "\"q\""]

def rand_names(rng, n, odd=0.15):
    out = []
    for i in range(n):
        if rng.random() < odd:
            out.append(rng.choice(LABELS) + (str(i) if rng.random() < 0.7 else ""))
        else:
            out.append("t%d" % i)
    return out

import struct as _struct, math as _math

def full_double(rng):
    r = rng.random()
    if r < 0.5:
        bits = ((1023 + rng.randint(-20, 20)) << 52) | rng.getrandbits(52)
        x = _struct.unpack(">d", _struct.pack(">Q", bits))[0]
    elif r < 0.7:
        x = _math.nextafter(rng.choice([0.1, 0.2, 0.3, 0.7, 1.1, 2.5, 123.456, 1e-5]), rng.choice([0.0, 1e9]))
    else:
        x = rng.choice([0.1 * 3, 0.1 + 0.2, 1.0 / 3, 2.0 / 3, 1.0 / 7, 1.1 * 1.1, 1e-7 / 3, 1e22 / 3])
    return Fraction(x)

def rand_tree(rng, lo=2, hi=12, names=None):
    g = Gen(rng)
    n = rng.randint(lo, hi) if names is None else len(names)
    t = g.tree(ntips=n, maxdeg=5, lenmode=rng.choice(["all", "mixed", "none"]), supmode=rng.choice(["mixed", "none", "all"]),
               inner_names=rng.random() < 0.25, comments=False)
    nm = names or rand_names(rng, n)
    i = 0
    full = rng.random() < 0.1        # full-precision binary64 lengths/supports (16-17 significant digits)
    for x in preorder(t):
        if not kids(x):
            x["name"] = nm[i]; i += 1
        if full:
            for e, c in kids(x):
                if e["len"] is not None and rng.random() < 0.6: e["len"] = full_double(rng)
                if e["sup"] is not None and rng.random() < 0.6: e["sup"] = full_double(rng)
    return t

def nwk(rng, t, top=True, comments=0.0):
    k = kids(t)
    s = ""
    if k:
        parts = []
        for e, c in k:
            p = nwk(rng, c, False, comments)
            if e["sup"] is not None and c["name"] == "" and kids(c):
                p += repr(float(e["sup"])).rstrip("0").rstrip(".") if float(e["sup"]) != int(e["sup"]) else str(int(e["sup"]))
            if comments and rng.random() < comments:
                p += "[" + rng.choice(["c", "&x=1", "a b", "k:v", "z,w", "(p)", "q;r", ""]) + "]"
            if e["len"] is not None:
                f = float(e["len"])
                p += ":" + (str(int(f)) if f == int(f) else repr(f))
            parts.append(p)
        s = "(" + ",".join(parts) + ")"
    s += t["name"]
    return s + (";" if top else "")

def gen_newick(rng):
    t = rand_tree(rng)
    s = nwk(rng, t, comments=rng.choice([0, 0, 0.3]))
    r = rng.random()
    if r < 0.15:
        s = "".join(ch + (rng.choice([" ", "\n", "\t", ""]) if ch in ",()" else "") for ch in s)
    elif r < 0.25:
        s = "[&R] " + s
    elif r < 0.3:
        s = s + "\n" + nwk(rng, rand_tree(rng))
    elif r < 0.42:
        # a tree written over several lines with the line break (LF / CRLF) right AFTER labels and numbers, i.e. before
        # ',' ')' ':' (fix 6227553: the single-tree reader joins the lines as the multi-tree reader does)
        e = rng.choice(["\n", "\n", "\r\n"])
        p = rng.choice([0.15, 0.4, 1.0])
        s = "".join((e if ch in ",):" and rng.random() < p else "") + ch for ch in s)
    return s

def gen_multi_big(rng):
    """a stream of 5..40 KB whose trees are wrapped over several physical lines at random commas (statements straddle the
    refills of bufio's 4096-byte buffer)"""
    k = rng.choice([2, 3, 4])
    g = Gen(rng)
    out = []
    p = rng.choice([0.02, 0.05, 0.1, 0.3])
    for _ in range(k):
        t = g.tree(ntips=rng.randint(150, 400), maxdeg=4, lenmode="all", supmode="mixed", inner_names=False, comments=False)
        s = nwk(rng, t)
        out.append("".join(ch + ("\n" if ch == "," and rng.random() < p else "") for ch in s))
    return rng.choice(["\n", "\r\n"]).join(out) + rng.choice(["\n", ""])

def gen_multi(rng):
    k = rng.choice([1, 2, 2, 3, 4, 6])
    trees = [nwk(rng, rand_tree(rng), comments=rng.choice([0, 0, 0.2])) for _ in range(k)]
    style = rng.choice(["lines", "lines", "lines", "blank", "wsline", "trail", "crlf", "nofinal", "sameline", "split", "long", "longblank"])
    eol = "\r\n" if style == "crlf" else "\n"
    out = []
    for i, t in enumerate(trees):
        if style == "split" and rng.random() < 0.3:
            e = rng.choice(["\n", "\r\n"])
            t = "".join((e if ch in ",):" and rng.random() < 0.4 else "") + ch for ch in t)
        elif style == "split" and rng.random() < 0.7:
            t = "".join(ch + ("\n" if ch == "," and rng.random() < 0.4 else "") for ch in t)
        if style == "trail":
            t += rng.choice([" ", "\t", "  \t ", ""])
        if style == "long" and i == 0:
            t = t[:-1] + (":0" * 0) + ";"
            t = "(" + ",".join("x%d" % j for j in range(900)) + "," + t[1:]
        out.append(t)
        if style == "sameline" and i % 2 == 0 and i + 1 < len(trees):
            out.append(rng.choice(["", " ", "\t"]))
            continue
        out.append(eol)
        if style == "blank" and rng.random() < 0.5:
            out.append(eol)
        if style == "wsline" and rng.random() < 0.6:
            out.append(rng.choice([" ", "\t", "   ", " \t "]) + eol)
        if style == "longblank" and rng.random() < 0.5:
            out.append(" " * rng.choice([4095, 4096, 4097, 8192, 5000]) + rng.choice(["", ";", "x"]) + eol)
    s = "".join(out)
    if style == "nofinal" and s.endswith("\n"):
        s = s[:-1]
    if style == "wsline" and rng.random() < 0.3:
        s = rng.choice([" ", "\t"]) + eol + s
    return s

KW = lambda rng, w: w if rng.random() < 0.7 else rng.choice([w.lower(), w.capitalize(), "".join(rng.choice([c.lower(), c.upper()]) for c in w)])

def nexus_comment(rng):
    return rng.choice(["", "", "", "[c]", "[ a comment ]", "[&R]", "[x;y]", "[a\nb]", "[[nested]", "[1]", "[end;]", "[=,]"])

def renamed(t, idx):
    return {"name": idx.get(t["name"], t["name"]) if not kids(t) else t["name"], "coms": t["coms"],
            "slots": [None if x is None else (x[0], renamed(x[1], idx)) for x in t["slots"]]}

def gen_nexus(rng):
    kw = lambda w: KW(rng, w)
    n = rng.randint(2, 8)
    names = rand_names(rng, n, odd=0.1)
    ntrees = rng.choice([1, 1, 2, 3])
    trees = [rand_tree(rng, names=list(names)) for _ in range(ntrees)]
    translate = rng.random() < 0.35
    dupname = rng.choice(["tree0", "t", "1"]) if (ntrees > 1 and rng.random() < 0.3) else None   # several TREE statements under one name
    parts = ["#NEXUS" if rng.random() < 0.9 else rng.choice(["#nexus", "#Nexus"]), NL]
    parts.append(nexus_comment(rng))
    blocks = []
    if rng.random() < 0.8:
        b = [kw("BEGIN"), " ", kw("TAXA"), ";", NL]
        if rng.random() < 0.8:
            b += [" ", kw("DIMENSIONS"), " ", kw("NTAX"), rng.choice(["=", " = ", "= "]), str(n if rng.random() < 0.9 else n + 1), ";", NL]
        b += [" ", kw("TAXLABELS")]
        for x in names:
            b += [rng.choice([" ", " ", NL + "  "]), x]
        b += [rng.choice(["", " ", NL]), ";", NL, nexus_comment(rng), kw("END"), ";", NL]
        blocks.append("".join(b))
    tb = [kw("BEGIN"), " ", kw("TREES"), ";", NL, nexus_comment(rng)]
    idx = {x: str(i) for i, x in enumerate(names)}
    if translate:
        tb += ["  ", kw("TRANSLATE"), NL]
        items = ["   %s %s" % (idx[x], x) for x in names]
        sep = rng.choice(["\n", ",\n", ", "])
        tb += [sep.join(items), rng.choice(["\n  ;", ";", "\n;"]), NL]
    for i, t in enumerate(trees):
        s = nwk(rng, renamed(t, idx) if translate else t, comments=rng.choice([0, 0, 0.2]))
        tb += ["  ", kw("TREE"), " ", (dupname if dupname else rng.choice(["tree%d" % i, "t", "1", "PAUP_1"])), rng.choice([" = ", "=", " =", "= "]),
               rng.choice(["", "", "[&R] ", "[&U]", "[x]\n "]), s[:-1], rng.choice(["", " "]), ";", NL]
    tb += [kw("END"), ";", NL]
    blocks.append("".join(tb))
    if rng.random() < 0.4:
        L = rng.randint(1, 12)
        dt = rng.choice(["dna", "DNA", "protein", "rna", "nucleotide", "standard", "proteİn"])
        db = [kw("BEGIN"), " ", kw(rng.choice(["DATA", "CHARACTERS"])), ";", NL]
        if rng.random() < 0.8:
            db += [" ", kw("DIMENSIONS"), " ", kw("NTAX"), "=", str(n), " ", kw("NCHAR"), "=", str(L if rng.random() < 0.9 else L + 1), ";", NL]
        if rng.random() < 0.8:
            db += [" ", kw("FORMAT"), " ", kw("DATATYPE"), "=", dt]
            if rng.random() < 0.6: db += [" ", kw("MISSING"), "=", rng.choice(["*", "*", "?", "N", "**", ""])]
            if rng.random() < 0.6: db += [" ", kw("GAP"), "=", rng.choice(["-", "-", ".", "--", ""])]
            if rng.random() < 0.2: db += [" INTERLEAVE=yes"]
            db += [";", NL]
        db += [" ", kw("MATRIX"), NL]
        for x in names:
            seq = "".join(rng.choice("ACGT-*" if "pro" not in dt.lower() else "ARNDCQEGHILKMFPSTWYV-*") for _ in range(L if rng.random() < 0.95 else L + 1))
            if rng.random() < 0.15 and L > 3:
                seq = seq[:L // 2] + " " + seq[L // 2:]
            db += ["  ", x, " ", seq, NL]
        db += [";", NL, kw("END"), ";", NL]
        blocks.append("".join(db))
    if rng.random() < 0.25:
        blocks.append("BEGIN PAUP;\n set autoclose=yes [comment];\n log file=x.log;\nEND;\n")
    if rng.random() < 0.3:
        rng.shuffle(blocks)
    sep = rng.choice(["", "", NL, nexus_comment(rng) + NL])
    return "".join(parts) + sep.join(blocks)

def px_clade(rng, t, e, indent):
    tab = "  " * indent
    s = tab + "<clade>\n"
    style = rng.random()
    if t["name"] != "":
        if style < 0.8:
            s += tab + "<name>%s</name>\n" % t["name"]
        elif style < 0.9:
            s += tab + "<taxonomy><scientific_name>%s</scientific_name></taxonomy>\n" % t["name"]
        else:
            s += tab + "<taxonomy><id provider=\"ncbi\">9606</id><code>%s</code></taxonomy>\n" % t["name"]
    if e is not None:
        if e["len"] is not None:
            s += tab + "<branch_length>%s</branch_length>\n" % repr(float(e["len"]))
        if e["sup"] is not None:
            s += tab + "<confidence type=\"bootstrap\">%s</confidence>\n" % repr(float(e["sup"]))
    for e2, c in kids(t):
        s += px_clade(rng, c, e2, indent + 1)
    return s + tab + "</clade>\n"

def gen_phyloxml(rng):
    k = rng.choice([1, 1, 2, 3, 0])
    s = '<?xml version="1.0" encoding="UTF-8"?>\n' if rng.random() < 0.7 else ""
    s += rng.choice(['<phyloxml xmlns:xsi="http://www.w3.org/2001/XMLSchema-instance" xmlns="http://www.phyloxml.org">\n', "<phyloxml>\n"])
    for _ in range(k):
        t = rand_tree(rng)
        if rng.random() < 0.1:
            rng.choice([x for x in preorder(t) if not kids(x)])["name"] = ""
        s += '  <phylogeny rooted="%s">\n' % rng.choice(["true", "false", "maybe"])
        s += px_clade(rng, t, None, 2)
        s += "  </phylogeny>\n"
    return s + "</phyloxml>\n"

def ns_node(rng, t, div):
    d = {"name": t["name"]} if (t["name"] != "" or rng.random() < 0.5) else {}
    na = {"div": div}
    if rng.random() < 0.4: na["num_date"] = {"value": rng.choice([2019.5, 2020.25, 0.0]), "confidence": [2019.0, 2020.0]}
    if rng.random() < 0.3: na["country"] = {"value": rng.choice(["France", "New Zealand", "a:b,c"])}
    if rng.random() < 0.2: na["accession"] = rng.choice(["MN908947", "X 1:2"])
    if rng.random() < 0.9: d["node_attrs"] = na
    if rng.random() < 0.3: d["branch_attrs"] = {"labels": {"aa": "ORF1a: A1T, B2C"}, "mutations": {"nuc": ["A1T"]}}
    ks = kids(t)
    if ks:
        d["children"] = [ns_node(rng, c, div + float(e["len"] if e["len"] is not None else 0)) for e, c in ks]
    return d

def gen_nextstrain(rng):
    t = rand_tree(rng)
    if rng.random() < 0.1:
        rng.choice([x for x in preorder(t) if not kids(x)])["name"] = ""
    doc = {"version": rng.choice(["v2", "v2", "v2", "v2", "v1", 2]), "meta": {"title": "x"}, "tree": ns_node(rng, t, 0.0)}
    if rng.random() < 0.05: del doc["tree"]
    if rng.random() < 0.05: doc["tree"] = [doc.get("tree")]
    return _json.dumps(doc, indent=rng.choice([None, 1]), ensure_ascii=rng.random() < 0.5)

# ---------------------------------------------------------------- structural damage of decoded documents

class Dup:
    """a JSON object written with one key twice: pairs = [(key, value), ...]"""
    def __init__(self, pairs): self.pairs = pairs

def jdump(v, rng=None):
    """json writer that knows Dup objects (duplicated keys)"""
    if isinstance(v, Dup):
        return "{" + ",".join(_json.dumps(k) + ":" + jdump(x) for k, x in v.pairs) + "}"
    if isinstance(v, dict):
        return "{" + ",".join(_json.dumps(k) + ":" + jdump(x) for k, x in v.items()) + "}"
    if isinstance(v, list):
        return "[" + ",".join(jdump(x) for x in v) + "]"
    return _json.dumps(v)

def jpaths(v, path=()):
    """every position of a JSON value: (container, key) pairs, the root excluded"""
    out = []
    if isinstance(v, dict):
        for k, x in v.items():
            out.append((v, k)); out += jpaths(x)
    elif isinstance(v, list):
        for i, x in enumerate(v):
            out.append((v, i)); out += jpaths(x)
    return out

def jwrong(rng, old):
    """a value of another JSON type / an empty or degenerate value"""
    pool = [None, None, None, True, False, 0, -1, 1.5, 1e308, "", "x", "null", [], {}, [None], [[]], [{}], {"children": None}, {"name": None},
            {"children": [None]}, {"children": []}, {"node_attrs": None}, {"node_attrs": {"div": None}}, [1, "a", None], {"value": None}]
    x = rng.choice(pool)
    if type(x) == type(old) and x == old:
        x = None
    return x

def json_struct(rng, doc):
    """structural mutations of a decoded JSON document (a deep copy is changed); returns text"""
    doc = _json.loads(_json.dumps(doc))
    for _ in range(rng.choice([1, 1, 1, 2, 3])):
        ps = jpaths(doc)
        if not ps:
            break
        # favour the positions the converter walks: children arrays and their entries, names, node_attrs, div, num_date
        hot = [(c, k) for c, k in ps if k in ("children", "name", "node_attrs", "div", "num_date", "value", "tree", "version", "branch_attrs", "labels", "aa",
                                              "country", "accession", "confidence", "mutations") or isinstance(c, list)]
        c, k = rng.choice(hot if hot and rng.random() < 0.8 else ps)
        op = rng.random()
        if op < 0.45:
            c[k] = None if rng.random() < 0.6 else jwrong(rng, c[k])
        elif op < 0.6:
            c[k] = jwrong(rng, c[k])
        elif op < 0.7:
            if isinstance(c, list): c.insert(k, None if rng.random() < 0.7 else jwrong(rng, None))
            else: c[k] = [c[k]] if rng.random() < 0.5 else {"value": c[k]}
        elif op < 0.8:
            del c[k]
        elif op < 0.9 and isinstance(c, dict):
            # duplicated key: second occurrence null / wrong type / a copy
            other = rng.choice([None, jwrong(rng, c[k]), c[k]])
            pairs = []
            for kk, vv in c.items():
                pairs.append((kk, vv))
                if kk == k: pairs.append((kk, other))
            if rng.random() < 0.5: pairs.reverse()
            # replace c in its parent by a Dup (or at the root)
            for pc, pk in jpaths(doc):
                if pc[pk] is c:
                    pc[pk] = Dup(pairs); break
            else:
                if c is doc: return jdump(Dup(pairs))
        else:
            # nest the subtree a few levels deeper through children arrays
            v = c[k]
            for _ in range(rng.choice([1, 3, 50, 400])):
                v = {"children": [v]} if rng.random() < 0.8 else {"name": "n", "children": [v, None]}
            c[k] = v
    return jdump(doc)

GENERIC_JSON = ["null", "true", "0", "\"v2\"", "[]", "[null]", "{}", "{\"tree\":null}", "{\"version\":null,\"tree\":null}", "{\"version\":\"v2\",\"tree\":null}",
                "{\"version\":\"v2\",\"tree\":[]}", "{\"version\":\"v2\",\"tree\":\"x\"}", "{\"version\":\"v2\",\"tree\":3}",
                "{\"version\":\"v2\",\"tree\":{\"children\":[null]}}", "{\"version\":\"v2\",\"tree\":{\"name\":\"root\",\"children\":[{\"name\":\"A\"},null]}}",
                "{\"version\":\"v2\",\"tree\":{\"name\":\"root\",\"children\":[null,{\"name\":\"A\"}]}}",
                "{\"version\":\"v2\",\"tree\":{\"name\":null,\"children\":[{\"name\":null}]}}", "{\"version\":\"v2\",\"tree\":{\"name\":\"r\",\"children\":{}}}",
                "{\"version\":\"v2\",\"tree\":{\"name\":\"r\",\"children\":[[]]}}", "{\"version\":\"v2\",\"tree\":{\"name\":\"r\",\"children\":[1]}}",
                "{\"version\":\"v2\",\"tree\":{\"name\":\"r\",\"children\":[\"a\"]}}", "{\"version\":\"v2\",\"tree\":{\"name\":\"r\",\"node_attrs\":null}}",
                "{\"version\":\"v2\",\"tree\":{\"name\":\"r\",\"node_attrs\":{\"div\":null,\"num_date\":null}}}",
                "{\"version\":\"v2\",\"tree\":{\"name\":\"r\",\"node_attrs\":{\"num_date\":{\"value\":null,\"confidence\":null}}}}",
                "{\"version\":\"v2\",\"tree\":{\"name\":\"r\",\"node_attrs\":{\"num_date\":{\"value\":\"2020\"}}}}",
                "{\"version\":\"v2\",\"tree\":{\"name\":\"r\",\"node_attrs\":{\"country\":null,\"region\":{\"confidence\":null}}}}",
                "{\"version\":\"v2\",\"tree\":{\"name\":\"r\",\"branch_attrs\":null}}", "{\"version\":\"v2\",\"tree\":{\"name\":\"r\",\"branch_attrs\":{\"labels\":null,\"mutations\":null}}}",
                "{\"version\":\"v2\",\"tree\":{\"name\":\"r\",\"branch_attrs\":{\"mutations\":{\"nuc\":null}}}}", "{\"version\":\"v2\",\"tree\":{\"name\":\"r\",\"branch_attrs\":{\"mutations\":{\"nuc\":[null]}}}}",
                "{\"version\":\"v2\",\"tree\":{\"name\":\"a\"},\"tree\":null}", "{\"version\":\"v2\",\"tree\":null,\"tree\":{\"name\":\"a\"}}",
                "{\"version\":\"v2\",\"version\":null,\"tree\":{\"name\":\"a\"}}", "{\"version\":\"v2\",\"tree\":{\"children\":[{\"name\":\"a\"}],\"children\":null,\"name\":\"r\"}}",
                "{\"version\":\"v2\",\"tree\":{\"children\":[{\"children\":[{\"children\":[null]}]}]}}", "{\"VERSION\":\"v2\",\"Tree\":{\"NAME\":\"a\",\"CHILDREN\":[null]}}"]

def gen_json_struct(rng):
    if rng.random() < 0.12:
        return rng.choice(GENERIC_JSON)
    t = rand_tree(rng)
    doc = {"version": "v2", "meta": {"title": "x"}, "tree": ns_node(rng, t, 0.0)}
    return json_struct(rng, doc)

# XML: element = [tag, attrs dict, children list | text]
def px_elem(rng, t, e):
    kidsl = []
    if t["name"] != "":
        kidsl.append(["name", {}, t["name"]])
    if e is not None:
        if e["len"] is not None: kidsl.append(["branch_length", {}, repr(float(e["len"]))])
        if e["sup"] is not None: kidsl.append(["confidence", {"type": "bootstrap"}, repr(float(e["sup"]))])
    for e2, c in kids(t):
        kidsl.append(px_elem(rng, c, e2))
    return ["clade", {}, kidsl]

def xdump(el):
    tag, attrs, body = el
    a = "".join(' %s="%s"' % kv for kv in attrs.items())
    if body is None:
        return "<%s%s/>" % (tag, a)
    if isinstance(body, str):
        return "<%s%s>%s</%s>" % (tag, a, body, tag)
    return "<%s%s>%s</%s>" % (tag, a, "".join(xdump(x) for x in body), tag)

def xnodes(el, out=None):
    out = [] if out is None else out
    out.append(el)
    if isinstance(el[2], list):
        for x in el[2]:
            xnodes(x, out)
    return out

BAD_NUM = ["", " ", "abc", "NaN", "Inf", "-Inf", "1e999", "-1e999", "0x10", "1,5", "1.5.2", "--1", "1e", ".", "+", "1 2", "１２", "1e-999", "-0", "-1"]

def xml_struct(rng, root):
    """structural mutations of a PhyloXML element tree; returns text"""
    for _ in range(rng.choice([1, 1, 2, 3])):
        ns = xnodes(root)
        el = rng.choice(ns)
        clades = [x for x in ns if x[0] == "clade"]
        nums = [x for x in ns if x[0] in ("branch_length", "confidence")]
        names = [x for x in ns if x[0] == "name"]
        op = rng.random()
        if op < 0.2 and clades:
            c = rng.choice(clades); c[2] = None if rng.random() < 0.6 else []          # <clade/>
        elif op < 0.35 and names:
            n = rng.choice(names)
            for x in ns:
                if isinstance(x[2], list) and n in x[2]:
                    if rng.random() < 0.6: x[2].remove(n)                                # missing <name>
                    else: n[2] = rng.choice([None, "", " ", [["name", {}, "x"]]])        # <name/>, nested
        elif op < 0.55 and nums:
            n = rng.choice(nums); n[2] = rng.choice(BAD_NUM) if rng.random() < 0.8 else rng.choice([None, [["x", {}, None]]])
        elif op < 0.65 and clades:
            c = rng.choice(clades)
            if isinstance(c[2], list):
                c[2].insert(rng.randrange(len(c[2]) + 1),
                            rng.choice([["clade", {}, None], ["clade", {}, [["clade", {}, None]]], ["taxonomy", {}, None], ["taxonomy", {}, [["id", {}, None]]],
                                        ["taxonomy", {}, [["id", {"provider": ""}, "x"], ["code", {}, None]]], ["taxonomy", {}, [["scientific_name", {}, None]]],
                                        ["name", {}, None], ["branch_length", {}, None], ["confidence", {}, None], ["confidence", {}, "0.5"], ["unknown", {}, [["clade", {}, None]]],
                                        ["name", {}, "dup"], ["branch_length", {}, "1"], ["sequence", {}, [["name", {}, "s"]]]]))
        elif op < 0.72:
            el[1][rng.choice(["rooted", "type", "xmlns", "branch_length", "id"])] = rng.choice(["", "x", "true", "1", "null"])
        elif op < 0.8 and clades:
            c = rng.choice(clades)                                                    # nested empty elements
            v = None
            for _ in range(rng.choice([1, 2, 30, 300])):
                v = [["clade", {}, v]]
            c[2] = v
        elif op < 0.88:
            el[0] = rng.choice(["Clade", "CLADE", "phylogeny", "clade", "name", "x:clade", "phyloxml"])
        elif op < 0.94 and isinstance(el[2], list) and el[2]:
            el[2].append(_json.loads(_json.dumps(rng.choice(el[2]))))                  # duplicated child
        else:
            el[2] = rng.choice([None, "", "text", []])
    return xdump(root)

GENERIC_XML = ["<phyloxml/>", "<phyloxml><phylogeny/></phyloxml>", "<phyloxml><phylogeny><clade/></phylogeny></phyloxml>",
               "<phyloxml><phylogeny><clade><clade/></clade></phylogeny></phyloxml>", "<phyloxml><phylogeny><clade><clade/><clade/></clade></phylogeny></phyloxml>",
               "<phyloxml><phylogeny><clade><name/></clade></phylogeny></phyloxml>", "<phyloxml><phylogeny><clade><name>a</name><branch_length/></clade></phylogeny></phyloxml>",
               "<phyloxml><phylogeny><clade><clade><name>a</name><branch_length>abc</branch_length></clade><clade><name>b</name></clade></clade></phylogeny></phyloxml>",
               "<phyloxml><phylogeny><clade><clade><name>a</name></clade><clade><confidence>x</confidence><clade><name>b</name></clade><clade><name>c</name></clade></clade></clade></phylogeny></phyloxml>",
               "<phyloxml><phylogeny><clade><clade><name>a</name><confidence/></clade><clade><name>b</name></clade></clade></phylogeny></phyloxml>",
               "<phyloxml><phylogeny><clade><taxonomy/></clade></phylogeny></phyloxml>", "<phyloxml><phylogeny><clade><taxonomy><id/><code/></taxonomy></clade></phylogeny></phyloxml>",
               "<phyloxml><phylogeny><clade><taxonomy><id>x</id><code>c</code></taxonomy></clade></phylogeny></phyloxml>",
               "<phyloxml><phylogeny><clade><taxonomy><scientific_name/></taxonomy><clade><taxonomy><code>a</code></taxonomy></clade><clade/></clade></phylogeny></phyloxml>",
               "<phyloxml><phylogeny rooted=\"\"><clade><name>a</name></clade></phylogeny></phyloxml>", "<phyloxml><phylogeny><clade><name>a</name></clade><clade><name>b</name></clade></phylogeny></phyloxml>",
               "<phyloxml><clade><name>a</name></clade></phyloxml>", "<phylogeny><clade><name>a</name></clade></phylogeny>", "<phyloxml><phylogeny><name>t</name></phylogeny></phyloxml>"]

def gen_xml_struct(rng):
    if rng.random() < 0.12:
        return rng.choice(GENERIC_XML)
    k = rng.choice([1, 1, 2])
    phys = []
    for _ in range(k):
        phys.append(["phylogeny", {"rooted": rng.choice(["true", "false"])}, [px_elem(rng, rand_tree(rng), None)]])
    return xml_struct(rng, ["phyloxml", {}, phys])

# ---------------------------------------------------------------- very large magnitude integers at every integer position
HUGE = [2**31, 2**32, 2**62, 2**63 - 1, 2**63, 2**64, 10**9, 10**11, 10**12, 10**13, 10**30,
        -(2**31), -(2**63), -(2**63) - 1, -(10**13), 4611686018427387904, 99999999999999999999]

NEXUS_INT_DEFAULTS = {"taxa_ntax": "3", "data_ntax": "3", "data_nchar": "4", "idx0": "0", "idx1": "1", "idx2": "2",
                      "tree_name": "1", "support": "1", "length": "2", "comment": "7", "label": "c"}

def nexus_int_doc(vals, data_first=False, keyword="DATA"):
    v = dict(NEXUS_INT_DEFAULTS); v.update(vals)
    lab = v["label"]
    taxa = "BEGIN TAXA;\n DIMENSIONS NTAX=%s;\n TAXLABELS a b %s;\nEND;\n" % (v["taxa_ntax"], lab)
    data = ("BEGIN %s;\n  DIMENSIONS NTAX=%s NCHAR=%s;\n  FORMAT DATATYPE=dna MISSING=* GAP=-;\n  MATRIX\na ACGT\nb ACGA\n%s ACTT\n;\nEND;\n"
            % (keyword, v["data_ntax"], v["data_nchar"], lab if not lab.lstrip("+-").isdigit() else "c"))
    trees = ("BEGIN TREES;\n  TRANSLATE\n   %s a,\n   %s b,\n   %s %s\n  ;\n  TREE %s = [&R] [%s] ((%s:1,%s:1)%s:%s,%s:2);\nEND;\n"
             % (v["idx0"], v["idx1"], v["idx2"], lab, v["tree_name"], v["comment"], v["idx0"], v["idx1"], v["support"], v["length"], v["idx2"]))
    blocks = [data, taxa, trees] if data_first else [taxa, data, trees]
    return "#NEXUS\n" + "".join(blocks)

def huge_cases(rng, tier):
    """every integer-valued position of each grammar x every very large value"""
    out = []
    def add(fmt, text, pos, h):
        out.append(case(fmt, text, "hugeint:" + pos, timeout_ms=5000))
    for h in HUGE:
        hs = str(h)
        for pos in ["taxa_ntax", "data_ntax", "data_nchar", "idx0", "idx2", "tree_name", "support", "length", "comment", "label"]:
            add("nexus", nexus_int_doc({pos: hs}, data_first=(pos.startswith("data") and h % 2 == 0),
                                       keyword="CHARACTERS" if h % 3 == 0 else "DATA"), pos, h)
        add("nexus", nexus_int_doc({"data_ntax": hs, "data_nchar": hs, "taxa_ntax": hs}), "all_dimensions", h)
        # Newick / multi-Newick: length, support, p-value, names
        for pos, txt in [("length", "((a:1,b:%s):1,c:2);" % hs), ("support", "((a:1,b:1)%s:1,c:2);" % hs),
                         ("pvalue", "((a:1,b:1)0.5/%s:1,c:2);" % hs), ("name", "((a:1,%s:1):1,c:2);" % hs),
                         ("root_length", "((a:1,b:1):1,c:2):%s;" % hs), ("inner_name", "((a:1,b:1)x%s:1,c:2);" % hs)]:
            add("newick", txt, pos, h)
            add("multi", txt + "\n(a,b);\n", pos, h)
        # PhyloXML: every numeric element and attribute
        for pos, inner in [("branch_length", "<name>a</name><branch_length>%s</branch_length>" % hs),
                           ("confidence", "<confidence type=\"bootstrap\">%s</confidence><clade><name>a</name></clade><clade><name>x</name></clade>" % hs),
                           ("taxonomy_id", "<name>a</name><taxonomy><id provider=\"ncbi\">%s</id><code>A</code></taxonomy>" % hs),
                           ("taxonomy_Id", "<name>a</name><taxonomy><id><Id>%s</Id></id></taxonomy>" % hs),
                           ("name", "<name>%s</name>" % hs)]:
            add("phyloxml", "<phyloxml><phylogeny rooted=\"true\"><clade><clade>%s</clade><clade><name>b</name><branch_length>1</branch_length></clade></clade></phylogeny></phyloxml>" % inner, pos, h)
        add("phyloxml", "<phyloxml><phylogeny rooted=\"%s\"><clade><name>a</name></clade></phylogeny></phyloxml>" % hs, "rooted", h)
        # Nextstrain: every number
        for pos, node in [("div", '{"name":"a","node_attrs":{"div":%s}}' % hs),
                          ("num_date", '{"name":"a","node_attrs":{"div":1,"num_date":{"value":%s,"confidence":[1,2]}}}' % hs),
                          ("confidence", '{"name":"a","node_attrs":{"div":1,"num_date":{"value":2020,"confidence":[%s,%s]}}}' % (hs, hs)),
                          ("lbi", '{"name":"a","node_attrs":{"div":1,"lbi":{"value":%s}}}' % hs),
                          ("entropy", '{"name":"a","node_attrs":{"div":1,"region":{"value":"x","entropy":%s,"confidence":{"x":%s}}}}' % (hs, hs)),
                          ("name", '{"name":%s}' % hs)]:
            add("nextstrain", '{"version":"v2","tree":{"name":"r","node_attrs":{"div":0},"children":[%s,{"name":"b","node_attrs":{"div":%s}}]}}' % (node, hs if pos == "div" else "1"), pos, h)
        add("nextstrain", '{"version":%s,"tree":{"name":"r"}}' % hs, "version", h)
    # and in random valid documents: one integer token replaced
    import re
    for _ in range({"quick": 60, "thorough": 3000, "search": 30}[tier]):
        fmt = rng.choice(["nexus", "nexus", "nexus", "multi", "newick", "phyloxml", "nextstrain"])
        d = GENS[fmt](rng)
        ms = list(re.finditer(r"(?<![\w.])\d+(?![\w.])", d))
        if not ms:
            continue
        m = rng.choice(ms)
        out.append(case(fmt, d[:m.start()] + str(rng.choice(HUGE)) + d[m.end():], "hugeint:random"))
    return out

# ---------------------------------------------------------------- grammar-based Newick anomalies, several per document
SUFFIX = {"length": ":0.5", "support": "0.75", "name": "X", "comment": "[&rate=1.0]", "comment2": "[c]"}

def anomalous_newick(rng, t, k_anom, top=True, state=None):
    """Newick text of a node dict with [k_anom] independent local anomalies spread over it: empty children (first / middle /
    last position, any depth incl. the root), any order of {length, support, name, comment, second comment} after a ')'
    incl. the outermost, double colons, comments in odd places, and at the end: missing ';', trailing garbage, unbalanced
    parentheses"""
    if state is None:
        nodes = sum(1 for _ in preorder(t))
        state = {"left": k_anom, "p": min(1.0, 1.5 * k_anom / max(1, nodes))}
    def hit():
        if state["left"] > 0 and rng.random() < state["p"]:
            state["left"] -= 1
            return True
        return False
    k = kids(t)
    s = ""
    if k:
        parts = []
        for e, c in k:
            p = anomalous_newick(rng, c, 0, False, state)
            if kids(c):
                # after the ')' of an inner node: support / name / length / comments, possibly reordered or repeated
                suf = []
                if e["sup"] is not None and c["name"] == "": suf.append("support")
                if e["len"] is not None: suf.append("length")
                if hit():
                    extra = rng.sample(list(SUFFIX), rng.randint(1, 4))
                    suf = extra if rng.random() < 0.5 else suf + extra
                    rng.shuffle(suf)
                p += "".join(SUFFIX[x] for x in suf)
            else:
                if e["len"] is not None:
                    p += (":" if not hit() else rng.choice(["::", ":", ":[c]", "[c]:", ":1:"])) + "1.5"
                if hit():
                    p += rng.choice(["[c]", "[a][b]", ":2", " x", "[", "]"])
            parts.append(p)
        if hit():
            parts.insert(rng.choice([0, len(parts) // 2, len(parts)]), "")          # an empty child
        if hit():
            parts.insert(rng.randrange(len(parts) + 1), rng.choice(["[c]", "()", "(,)", ":1"]))
        s = "(" + ",".join(parts) + ")"
    s += t["name"]
    if top:
        if hit() or state["left"] > 0:
            extra = rng.sample(list(SUFFIX), rng.randint(1, 4))
            state["left"] = max(0, state["left"] - 1)
            s += "".join(SUFFIX[x] for x in extra)
        r = rng.random()
        if state["left"] > 0:
            state["left"] -= 1
            s += rng.choice(["", ";;", ";x", "; (a,b);", ")", "));", "(", ";[c]", " ;", "[c", ":;", ",;", ")(Z;", ")(Z,Y;", "))((Z,Y),W;"])
        else:
            s += ";"
    return s

def suffix_orders(maxk):
    from itertools import permutations
    keys = list(SUFFIX)
    out = [()]
    for k in range(1, maxk + 1):
        out += list(permutations(keys, k))
    return out

def anomaly_cases(rng, tier):
    out = []
    bodies = {"none": "(A:1,B:2)", "first": "(,A:1,B:2)", "middle": "(A:1,,B:2)", "last": "(A:1,B:2,)",
              "inner-last": "((A:1,B:2,):1,C:1)", "inner-first": "((,A:1,B:2),C:1)", "only": "(,)", "nested-empty": "((),A:1)"}
    def emit(text, kind):
        out.append(case("newick", text, "anomaly:" + kind))
        out.append(case("multi", text + "\n(A,B);\n", "anomaly:" + kind))
        out.append(case("nexus", "#NEXUS\nBEGIN TREES;\n TREE t = " + text + "\nEND;\n", "anomaly:" + kind))
    # every order of up to two (thorough: three) suffix items after the outermost ')' x the empty-child variants
    for perm in suffix_orders(3 if tier == "thorough" else 2):
        for bk, body in bodies.items():
            if tier == "search" and bk not in ("last", "none"):
                continue
            emit(body + "".join(SUFFIX[x] for x in perm) + ";", "root-suffix/" + bk)
    # every order of three suffix items after an empty last child (the parser's stack is empty there)
    if tier != "search":
        for perm in suffix_orders(3)[26:]:
            out.append(case("newick", "(A:1,B:2,)" + "".join(SUFFIX[x] for x in perm) + ";", "anomaly:root-suffix3/last"))
    # text after the outermost ')' was closed: k extra ')' and then a new, unclosed or closed, group (the reader then starts a
    # second root whose node ids go on from the abandoned first tree)
    for first in ["(a)", "(a,b)", "((a,b),c)", "(a:1,b:2)x:3"]:
        for k in (1, 2):
            for tail in ["(b;", "(b,c;", "((c,d),e;", "(c:1,d:2;", "(b);", "(c,d);", ",(c,d);", "b;", ";", "(", "(b", "(b;(c,d);"]:
                emit(first + ")" * k + tail, "reopened")
    # every way of going on after the tree is over: a prefix that brings the parser back to level 0 with an empty or popped
    # stack (closed tree, + label / length / comment, closed empty group, comma at level 0, unmatched ')', several of these,
    # nothing at all) x every kind of continuation ('(' group closed or not, label, ',', ':' length, '[' comment, ')')
    PRE = ["(a,b)", "(a,b)x", "(a,b):1", "(a,b)x:3", "(a,b)[c]", "(a,b)0.9[c]:2", "()", "(a,)", "(,)", "(a,b),", "(a,b)x,", "(),", "a,", "a",
           "a:1", ",", "", "(a,b))", "(a,b)),", "(a,b)x,y", "(a,b),,", "(a,b)()", "((a,b),c)"]
    CONT = ["(c,d)", "(c,d", "(c", "((c,d),e)", "()", "(", "x", "x:2", ",", ",x", ",(c,d)", ",(c,d)y", "(c,d)y:2", ":1", "[c]", "[c", ")", "))", ")(c,d)"]
    for pre in PRE:
        for cont in CONT:
            emit(pre + cont + ";", "reopened/" + ("closed" if pre.endswith(")") else "comma" if pre.endswith(",") else "label"))
            if tier != "search" and cont[-1] not in ")":
                out.append(case("newick", pre + cont, "anomaly:reopened/eof"))
    for _ in range({"quick": 150, "thorough": 5000, "search": 60}[tier]):
        text = rng.choice(PRE) + "".join(rng.choice(CONT) for _ in range(rng.randint(2, 3))) + rng.choice([";", ";", ""])
        emit(text, "reopened/chained")
    # random trees with 2..4 composed anomalies
    for _ in range({"quick": 220, "thorough": 20000, "search": 120}[tier]):
        t = rand_tree(rng, lo=2, hi=8)
        text = anomalous_newick(rng, t, rng.randint(2, 4))
        fmt = rng.choice(["newick", "newick", "multi", "nexus"])
        if fmt == "multi":
            text = rng.choice(["", "(A,B);\n"]) + text + "\n" + rng.choice(["", "(C,D);\n"])
        elif fmt == "nexus":
            text = "#NEXUS\nBEGIN TREES;\n TREE t = " + text + "\nEND;\n"
        out.append(case(fmt, text, "anomaly:composed"))
    return out

GENS = {"newick": gen_newick, "multi": gen_multi, "nexus": gen_nexus, "phyloxml": gen_phyloxml, "nextstrain": gen_nextstrain}

# ---------------------------------------------------------------- damage

def b(s):
    return s if isinstance(s, bytes) else s.encode("utf-8", "surrogateescape")

HOT = [b"[", b"]", b"(", b")", b";", b",", b":", b"=", b" ", b"\t", b"\n", b"\r", b"\r\n", b"\x00", b"\xff", b"\xc3", b"\xe2\x82", b"'", b"\"",
       b"<", b">", b"&", b"{", b"}", b"END;", b"BEGIN ", b"TREE ", b"#NEXUS", b"MISSING=", b"GAP=", b"FORMAT ", b"MATRIX", b"TRANSLATE",
       b"</clade>", b"<clade>", b"null", b"\\", b"\xef\xbf\xbd", b"-", b"+", b"9223372036854775808", b"1e999", b"inf", b"nan"]

def truncate(rng, d):
    if not d: return d
    r = rng.random()
    if r < 0.5:
        return d[:rng.randrange(0, len(d))]
    # just after a hot character
    pos = [i + 1 for i, c in enumerate(d) if c in b"[=(,;:<\"{ \n"]
    return d[:rng.choice(pos)] if pos else d[:len(d) // 2]

def mutate(rng, d, k=None):
    d = bytearray(d)
    for _ in range(k or rng.choice([1, 1, 2, 3, 6])):
        op = rng.random()
        pos = rng.randrange(0, len(d) + 1)
        if op < 0.35 and pos < len(d):
            d[pos:pos + 1] = rng.choice(HOT) if rng.random() < 0.7 else bytes([rng.randrange(256)])
        elif op < 0.65:
            d[pos:pos] = rng.choice(HOT) if rng.random() < 0.8 else bytes([rng.randrange(256)])
        elif pos < len(d):
            n = rng.choice([1, 1, 2, 5, 20])
            del d[pos:pos + n]
    return bytes(d)

def splice(rng, a, c):
    i = rng.randrange(0, len(a) + 1)
    j = rng.randrange(0, len(c) + 1)
    return a[:i] + c[j:]

def targeted(rng, fmt, d):
    """format-specific damage named after the quantifier's list"""
    s = d
    kind = rng.choice(["unterminated-comment", "unterminated-block", "missing-value", "ws-lines", "unbalanced", "empty-label", "dup-label"])
    if kind == "unterminated-comment":
        pos = rng.randrange(0, len(s) + 1)
        s = s[:pos] + b"[" + s[pos:].replace(b"]", b"")
        if rng.random() < 0.5: s = s[:pos + 1 + rng.randrange(0, len(s) - pos)]
    elif kind == "unterminated-block":
        s = s.replace(b"END;", b"", rng.choice([1, 2, 9])).replace(b"end;", b"").replace(b"End;", b"")
        s = s.replace(b"</clade>", b"", rng.choice([1, 3])).replace(b"}", b"", rng.choice([1, 2]))
    elif kind == "missing-value":
        eq = [i for i, c in enumerate(s) if c in b"=:"]
        if eq:
            i = rng.choice(eq)
            j = i + 1
            while j < len(s) and s[j:j + 1] not in (b" ", b";", b"\n", b",", b")", b"<", b"\""):
                j += 1
            s = s[:i + 1] + (b"" if rng.random() < 0.7 else b" ") + (s[j:] if rng.random() < 0.7 else b"")
    elif kind == "ws-lines":
        lines = s.split(b"\n")
        for _ in range(rng.choice([1, 2, 4])):
            lines.insert(rng.randrange(0, len(lines) + 1), rng.choice([b" ", b"\t", b"  \t ", b"", b" \r"]))
        s = b"\n".join(lines)
    elif kind == "unbalanced":
        ps = [i for i, c in enumerate(s) if c in b"()"]
        for _ in range(rng.choice([1, 1, 2])):
            if ps:
                i = rng.choice(ps)
                s = s[:i] + (b"" if rng.random() < 0.6 else rng.choice([b"((", b"))", b")("])) + s[i + 1:]
                ps = [i for i, c in enumerate(s) if c in b"()"]
    elif kind == "empty-label":
        import re
        ms = list(re.finditer(rb"t\d+", s))
        for m in rng.sample(ms, min(len(ms), rng.choice([1, 2]))):
            s = s.replace(m.group(0), b"", 1)
    elif kind == "dup-label":
        import re
        ms = list(re.finditer(rb"t\d+", s))
        if len(ms) >= 2:
            a, c = rng.sample(ms, 2)
            s = s.replace(c.group(0), a.group(0))
    return kind, s

def deep(rng, fmt, depth):
    if fmt in ("newick", "multi"):
        style = rng.choice(["left", "right", "open"])
        if style == "left":
            s = "(" * depth + "a" + "".join(",b%d)" % i for i in range(depth)) + ";"
        elif style == "right":
            s = "".join("(b%d," % i for i in range(depth)) + "a" + ")" * depth + ";"
        else:
            s = "(" * depth + "a,b"
        return s + ("\n" if fmt == "multi" else "")
    if fmt == "nexus":
        return "#NEXUS\nBEGIN TREES;\n TREE t = " + "(" * depth + "a" + "".join(",b%d)" % i for i in range(depth)) + ";\nEND;\n"
    if fmt == "phyloxml":
        return "<phyloxml><phylogeny>" + "<clade>" * depth + "<name>a</name>" + "</clade><clade><name>b</name></clade>" * (depth - 1) + "</clade></phylogeny></phyloxml>"
    s = '{"name":"a","node_attrs":{"div":1}}'
    for i in range(depth):
        s = '{"children":[%s,{"name":"b%d"}]}' % (s, i)
    return '{"version":"v2","tree":%s}' % s

def nexus_blocks_cases(rng, tier):
    """Nexus files with two or three TREES blocks: trees in every block, an empty first / middle / last block, a TRANSLATE
    table in the first, the last, or every block, a TAXA block before / between, a broken tree in the last block"""
    out = []
    def block(trees, table):
        s = "BEGIN TREES;\n"
        if table:
            s += "  TRANSLATE\n" + ",\n".join("    %d %s" % (i + 1, n) for i, n in enumerate(table)) + "\n  ;\n"
        for name, t in trees:
            s += "  TREE %s = %s\n" % (name, t)
        return s + "END;\n"
    names = ["a", "b", "c", "d"]
    plain = ["(a,b,(c,d));", "((a,b),(c,d));", "(a,(b,(c,d)));", "((a,c),b,d);"]
    idx = ["(1,2,(3,4));", "((1,2),(3,4));", "(1,(2,(3,4)));", "((1,3),2,4);"]
    taxa = "BEGIN TAXA;\n DIMENSIONS NTAX=4;\n TAXLABELS a b c d;\nEND;\n"
    n = 0
    for sizes in [(1, 1), (2, 1), (1, 2), (0, 1), (1, 0), (0, 0), (1, 1, 1), (1, 0, 1), (2, 0, 0), (0, 2, 0)]:
        for tables in ("none", "first", "last", "all"):
            for tx in ("", "before", "between"):
                if tier == "search" and (tx or len(sizes) > 2):
                    continue
                blocks = []
                k = 0
                for bi, sz in enumerate(sizes):
                    tab = tables == "all" or (tables == "first" and bi == 0) or (tables == "last" and bi == len(sizes) - 1)
                    src = idx if (tab or (tables == "first" and bi > 0 and n % 2 == 0)) else plain
                    trees = []
                    for _ in range(sz):
                        trees.append(("t%d" % k if n % 3 else "tree0", src[k % 4])); k += 1
                    blocks.append(block(trees, names if tab else None))
                doc = "#NEXUS\n" + (taxa if tx == "before" else "") + blocks[0] + (taxa if tx == "between" else "") + "".join(blocks[1:])
                out.append(case("nexus", doc, "nexus-blocks:%s/%s" % ("-".join(map(str, sizes)), tables)))
                n += 1
    out.append(case("nexus", "#NEXUS\n" + block([("t0", plain[0])], None) + block([("t1", "(a,b;")], None), "nexus-blocks:broken-last"))
    out.append(case("nexus", "#NEXUS\n" + block([("t0", "(a,b;")], None) + block([("t1", plain[0])], None), "nexus-blocks:broken-first"))
    out.append(case("nexus", "#NEXUS BEGIN TREES;TREE a=(a,b);END;BEGIN TREES;END;", "nexus-blocks:minimal"))
    # ENDBLOCK; is the other spelling of END; (fix d0ed28a): unsupported blocks closed with it before / between / after TREES
    # blocks, TREES / TAXA / DATA blocks closed with it, in any letter case, and words that only begin like it
    tb = lambda name, t, e: "BEGIN TREES;\n TREE %s = %s\n%s\n" % (name, t, e)
    for e1 in ["END;", "ENDBLOCK;", "EndBlock;", "endblock ;", "ENDBLOCK", "ENDBLOCKS;", "END BLOCK;", "ENDBLOC;"]:
        for e2 in ["END;", "ENDBLOCK;"]:
            foo = "BEGIN FOO;\n x y;\n [c] z;\n%s\n" % e1
            out.append(case("nexus", "#NEXUS\n" + foo + tb("t0", plain[0], e2), "nexus-endblock:unsupported-before"))
            out.append(case("nexus", "#NEXUS\n" + tb("t0", plain[0], e2) + foo + tb("t1", plain[1], e2), "nexus-endblock:unsupported-between"))
            out.append(case("nexus", "#NEXUS\n" + tb("t0", plain[0], e2) + foo, "nexus-endblock:unsupported-after"))
            out.append(case("nexus", "#NEXUS\n" + tb("t0", plain[0], e1) + tb("t1", plain[1], e2), "nexus-endblock:trees"))
            out.append(case("nexus", "#NEXUS\n" + taxa.replace("END;", e1) + tb("t0", plain[0], e2), "nexus-endblock:taxa"))
            out.append(case("nexus", "#NEXUS\nBEGIN DATA;\n DIMENSIONS NTAX=2 NCHAR=2;\n FORMAT DATATYPE=DNA;\n MATRIX\n a AC\n b AC\n ;\n%s\n" % e1
                            + tb("t0", "(a,b);", e2), "nexus-endblock:data"))
    return out

FIXED = [
    ("nexus", "#NEXUS\nBEGIN TREES;\nTREE t = (a,b);\nTREE t = (c,d);\nTREE u = (e,f);\nTREE t = (g,h);\nEND;\n"),
    ("nexus", "#NEXUS\nBEGIN TREES;\nTREE tree0 = (a,b);\nEND;\nBEGIN TREES;\nTREE tree0 = (c,d);\nEND;\n"),
    # the three defects of the unchanged code (fixed in /repo by 114996a, fcf4ced, 4b7059e) and their neighbours
    ("multi", " "), ("multi", "\t"), ("multi", " \n"), ("multi", "(a,b);\n \n(c,d);\n"), ("multi", "\n"), ("multi", ""), ("multi", ";"),
    ("multi", " ;"), ("multi", "; "), ("multi", "(a,b); \n"), ("multi", "(a,b);\n(c,d)"), ("multi", "(a,b);(c,d);\n(e,f);\n"),
    ("multi", "(a,b); (c,d)\n"), ("multi", "(a,\nb);\n"), ("multi", "(a,b)\n;\n"), ("multi", "(a,b);\r\n(c,d);\r\n"), ("multi", "\r\n"),
    ("multi", " " * 4096), ("multi", " " * 4096 + ";"), ("multi", " " * 4095 + "\r\n;"), ("multi", "x" * 4095 + "\r" + "\n;\n"),
    ("nexus", "#NEXUS["), ("nexus", "#NEXUS\n["), ("nexus", "#NEXUS\nBEGIN TREES;\nTREE t = ["), ("nexus", "#NEXUS\nBEGIN TAXA;\n["),
    ("nexus", "#NEXUS\nBEGIN TREES;\nTRANSLATE [\n"), ("nexus", "#NEXUS\nBEGIN DATA;\n[\n"), ("nexus", "#NEXUS [ \x00 ] BEGIN TREES; TREE t=(a,b); END;"),
    ("nexus", "#NEXUS BEGIN DATA;FORMAT GAP"), ("nexus", "#NEXUS BEGIN DATA;FORMAT MISSING"), ("nexus", "#NEXUS\nBEGIN DATA;\nFORMAT MISSING="),
    ("nexus", "#NEXUS\nBEGIN DATA;\nFORMAT MISSING=\n;END;"), ("nexus", "#NEXUS\nBEGIN DATA;\nFORMAT GAP=;\nEND;"),
    ("nexus", "#NEXUS\nBEGIN DATA;\nFORMAT DATATYPE=;\nEND;"), ("nexus", "#NEXUS\nBEGIN DATA;\nFORMAT GAP=é;\nEND;"),
    ("nexus", "#NEXUS\nBEGIN DATA;\nDIMENSIONS NTAX 2 NCHAR=;\nEND;"), ("nexus", "#NEXUS\nBEGIN TAXA;\nDIMENSIONS NTAX 2;TAXLABELS a b;\nEND;"),
    ("nexus", "#NEXUS\nBEGIN TAXA;\nDIMENSIONS NTAX=9223372036854775808;\nEND;"), ("nexus", "#NEXUS\nBEGIN TAXA;\nDIMENSIONS NTAX=-1;\nEND;"),
    ("nexus", ""), ("nexus", "#NEXUS"), ("nexus", "#nexus\n"), ("nexus", "\r"), ("nexus", "#NEXUS\r"), ("nexus", "#NEXUS\r\rBEGIN TREES;\r\nEND;"),
    ("nexus", "#NEXUS\nBEGIN"), ("nexus", "#NEXUS\nBEGIN TREES"), ("nexus", "#NEXUS\nBEGIN TREES;"), ("nexus", "#NEXUS\nBEGIN TREES;\nTREE"),
    ("nexus", "#NEXUS\nBEGIN TREES;\nTREE t"), ("nexus", "#NEXUS\nBEGIN TREES;\nTREE t ="), ("nexus", "#NEXUS\nBEGIN TREES;\nTREE t = (a,b)"),
    ("nexus", "#NEXUS\nBEGIN TREES;\nTREE t = (a,b);"), ("nexus", "#NEXUS\nBEGIN TREES;\nTREE t = (a,b);\nEND"), ("nexus", "#NEXUS\nBEGIN TREES;\nTREE t = (a,end,b);\nEND;"),
    ("nexus", "#NEXUS\nBEGIN TREES;\nTRANSLATE 1 a, 2 a;\nTREE t = (1,2);\nEND;"), ("nexus", "#NEXUS\nBEGIN TREES;\nTRANSLATE 1 2, 2 1;\nTREE t = (1,2);\nEND;"),
    ("nexus", "#NEXUS\nBEGIN TREES;\nTREE t = (a,a);\nEND;"), ("nexus", "#NEXUS\nBEGIN TREES;\nTRANSLATE x y;\nTREE t = ((a,b)n,(c,d)n);\nEND;"),
    ("nexus", "#NEXUS\nBEGIN TAXA;\nTAXLABELS a b c;\nEND;\nBEGIN TREES;\nTREE t = (a,b);\nEND;"), ("nexus", "#NEXUS\nBEGIN TAXA;\nTAXLABELS a b;\nEND;\nBEGIN TREES;\nTREE t = (a,(b));\nEND;"),
    ("nexus", "#NEXUS\nBEGIN FOO;\n[END;]\nEND;\nBEGIN TREES;\nTREE t = (a,b);\nEND;"), ("nexus", "#NEXUS\nBEGIN TREES;\n;;;\nfoo bar;\nTREE 1 = (a,b);\nEND;"),
    ("nexus", "#NEXUS\nBEGIN DATA;\nMATRIX\na AC\nb A\n;\nEND;"), ("nexus", "#NEXUS\nBEGIN DATA;\nMATRIX\na AC\na GT\nb ACGT\n;\nEND;"),
    ("nexus", "#NEXUS\nBEGIN DATA;\nMATRIX\n1 AC\n;\nEND;"), ("nexus", "#NEXUS\nBEGIN DATA;\nMATRIX\na 01\n;\nEND;"), ("nexus", "#NEXUS\nBEGIN DATA;\nFORMAT DATATYPE=standard;\nMATRIX\na AC\n;\nEND;"),
    ("nexus", "#NEXUS\nBEGIN TAXA;\nTAXLABELS a;\nEND;\nBEGIN DATA;\nMATRIX\na AC\nb AC\n;\nEND;"),
    ("newick", "((a,b)x\n,c);"), ("newick", "((a,b)0.9\n,c);"), ("newick", "(a:1\n,b);"), ("newick", "((a:0.1,b:0.2\n):0.3,c:1);"), ("newick", "((a,b)x\r\n,c);"),
    ("newick", "(a,b);x"), ("newick", "(a,b)\n"), ("newick", "(a,b);\n(c,d)"), ("newick", "\n\n(a,\nb)\n;\n"), ("newick", " \n"), ("newick", "(a,b) ; \n(c,d);"),
    ("newick", ""), ("newick", ";"), ("newick", "("), ("newick", "()"), ("newick", "();"), ("newick", "(a);"), ("newick", "(,);"), ("newick", "((),());"),
    ("newick", "(a,b);x"), ("newick", "(a,b)"), ("newick", "[(a,b);"), ("newick", "(a,b)[;"), ("newick", "(a:,b);"), ("newick", "(a,b):1;"), ("newick", "a;"),
    ("newick", "(a,b));"), ("newick", "((a,b);"), ("newick", "(a,b)1/2;"), ("newick", "((a,b)1/2/3,c);"), ("newick", "((a,b)[x]:1[y],c);"),
    ("phyloxml", ""), ("phyloxml", "<phyloxml>"), ("phyloxml", "<phyloxml></phyloxml>"), ("phyloxml", "<phyloxml><phylogeny></phylogeny></phyloxml>"),
    ("phyloxml", "<phyloxml><phylogeny><clade></clade></phylogeny></phyloxml>"), ("phyloxml", "<phyloxml><phylogeny><clade><name>a</name></clade></phylogeny></phyloxml>"),
    ("phyloxml", "<phyloxml><phylogeny><clade><clade><name>a</name></clade></clade></phylogeny></phyloxml>"),
    ("phyloxml", "<phyloxml><phylogeny><clade><clade><name>a</name><branch_length>x</branch_length></clade><clade><name>b</name></clade></clade></phylogeny></phyloxml>"),
    ("phyloxml", "<phyloxml><phylogeny><clade><clade><name>a</name><branch_length>NaN</branch_length></clade><clade><name>b</name><branch_length>-1</branch_length></clade></clade></phylogeny></phyloxml>"),
    ("phyloxml", "<phyloxml><phylogeny><clade><clade><name>a</name></clade><clade><name>a</name></clade></clade></phylogeny></phyloxml>"),
    ("phyloxml", "<html></html>"), ("phyloxml", "<phyloxml><phylogeny rooted=\"x\"><clade><name>a</name></clade></phylogeny></phyloxml>"),
    ("nextstrain", ""), ("nextstrain", "{}"), ("nextstrain", "null"), ("nextstrain", "[]"), ("nextstrain", "{\"version\":\"v2\"}"),
    ("nextstrain", "{\"version\":\"v2\",\"tree\":{}}"), ("nextstrain", "{\"version\":\"v2\",\"tree\":{\"name\":\"a\"}}"),
    ("nextstrain", "{\"version\":\"v2\",\"tree\":{\"children\":[{\"name\":\"a\"}]}}"), ("nextstrain", "{\"version\":\"v2\",\"tree\":{\"children\":[{\"name\":\"a\"},{\"name\":\"a\"}]}}"),
    ("nextstrain", "{\"version\":\"v2\",\"tree\":{\"children\":[{}]}}"), ("nextstrain", "{\"version\":\"v2\",\"tree\":{\"children\":null,\"name\":\"r\"}}"),
    ("nextstrain", "{\"version\":\"v2\",\"tree\":{\"name\":\"r\",\"node_attrs\":{\"div\":1e999}}}"), ("nextstrain", "{\"version\":\"v2\",\"tree\":{\"name\":\"r\",\"node_attrs\":{\"div\":\"x\"}}}"),
    ("nextstrain", "{\"version\":\"v2\",\"tree\":{\"name\":\"r\",\"children\":[{\"name\":\"a\",\"node_attrs\":{\"div\":-1}},{\"name\":\"b\",\"node_attrs\":{\"div\":0}}]}}"),
]

# family "chan": the channel hand-off of utils.ReadMultiTrees (buffer of 10) against Model/C02Extra8.v.
# flags = which record carries an error (PhyloXML: a phylogeny with an unnamed tip; every phylogeny gets its own
# record; Newick stream: the reader stops at the first bad tree); policy = the consumer drains / returns at the first error
def chan_text(src, flags):
    if src == "phyloxml":
        s = "<phyloxml>\n"
        for i, bad in enumerate(flags):
            s += '<phylogeny rooted="true"><clade><clade>%s</clade><clade><name>b%d</name></clade></clade></phylogeny>\n' % (
                "" if bad else "<name>a%d</name>" % i, i)
        return s + "</phyloxml>\n"
    return "".join("(a%d,(b,c);\n" % i if bad else "(a%d,(b,c));\n" % i for i, bad in enumerate(flags))

def chan_cases(rng, tier):
    out = []
    fixed = [[True] + [False] * 11, [True] + [False] * 10, [True] + [False] * 9, [False] * 25 + [True], [False] * 12, [],
             [True], [False, True] + [False] * 15, [False] * 11 + [True, True] + [False] * 12]
    rnd = []
    for _ in range({"quick": 30, "thorough": 600, "search": 10}[tier]):
        n = rng.choice([0, 1, 2, 5, 9, 10, 11, 12, 13, 20, 21, 22, 23, 30, 40])
        pe = rng.choice([0.0, 0.05, 0.3])
        fl = [rng.random() < pe for _ in range(n)]
        if n and rng.random() < 0.4:
            fl[rng.randrange(n)] = True
        rnd.append(fl)
    for fl in fixed + rnd:
        for src in ["phyloxml", "multi"]:
            for pol in ["drain", "stop"]:
                out.append(case("chan", chan_text(src, fl), "chan:%s:%s" % (src, pol), src=Sym(src), policy=Sym(pol)))
    return out

def case(fmt, data, kind, **kw):
    d = b(data)
    o = {"fmt": Sym(fmt), "text": d}
    o.update(kw)
    return {"sx": sx(o), "meta": {"fmt": fmt, "kind": kind, "size": len(d) if len(d) < 100 else (len(d) // 100) * 100}}

def gen(rng, tier):
    n = {"quick": 420, "thorough": 40000, "search": 300}[tier]
    out = []
    if tier != "search":
        for fmt, s in FIXED:
            out.append(case(fmt, s, "fixed"))
    if tier != "search":
        for x in GENERIC_JSON:
            out.append(case("nextstrain", x, "fixed"))
        for x in GENERIC_XML:
            out.append(case("phyloxml", x, "fixed"))
    for _ in range({"quick": 250, "thorough": 20000, "search": 150}[tier]):
        out.append(case("nextstrain", gen_json_struct(rng), "json-struct"))
        out.append(case("phyloxml", gen_xml_struct(rng), "xml-struct"))
    bigs = [case("multi", gen_multi_big(rng), "bigwrap") for _ in range({"quick": 10, "thorough": 600, "search": 5}[tier])]
    fmts = ["newick", "multi", "multi", "nexus", "nexus", "nexus", "phyloxml", "nextstrain"]
    for _ in range(n):
        fmt = rng.choice(fmts)
        d = b(GENS[fmt](rng))
        out.append(case(fmt, d, "valid"))
        out.append(case(fmt, truncate(rng, d), "truncated"))
        out.append(case(fmt, mutate(rng, d), "mutated"))
        k, s = targeted(rng, fmt, d)
        out.append(case(fmt, s, "targeted:" + k))
        if rng.random() < 0.5:
            other = rng.choice(fmts) if rng.random() < 0.3 else fmt
            out.append(case(fmt, splice(rng, d, b(GENS[other](rng))), "spliced"))
        if rng.random() < 0.3:
            out.append(case(fmt, mutate(rng, truncate(rng, d)), "truncated+mutated"))
        if fmt == "nextstrain":
            for _ in range(3):
                out.append(case(fmt, gen_json_struct(rng), "json-struct"))
        if fmt == "phyloxml":
            for _ in range(3):
                out.append(case(fmt, gen_xml_struct(rng), "xml-struct"))
    # indexing a caterpillar is quadratic in its depth (ReinitIndexes needs ~6 s at depth 20000, the Nexus tree-string
    # concatenation ~20 s): beyond 5000 the watchdog is relaxed; larger depths only exhaust time and memory
    depths = {"quick": [500, 2000, 5000], "thorough": [1000, 5000, 10000, 20000], "search": []}[tier]
    deeps = []
    for dp in depths:
        for fmt in ["newick", "multi", "nexus", "phyloxml", "nextstrain"]:
            deeps.append(case(fmt, deep(rng, fmt, dp), "deep:%d" % dp, dumpmax=12000, timeout_ms=5000 if dp <= 5000 else 180000))
    # one per chunk of 200 cases (the runner gives each chunk its own worker and judge process)
    for j, dc in enumerate(deeps):
        out.insert(min(len(out), j * 200 + 1), dc)
    for j, bc in enumerate(bigs):
        out.insert(min(len(out), j * 200 + 7), bc)
    # spread over the chunks: a worker that dies on one of them is restarted by the runner for the cases that follow
    hs = huge_cases(rng, tier) + anomaly_cases(rng, tier) + nexus_blocks_cases(rng, tier) + chan_cases(rng, tier)
    step = max(1, len(out) // max(1, len(hs)))
    for j, hc in enumerate(hs):
        out.insert(min(len(out), j * (step + 1) + 3), hc)
    return out
