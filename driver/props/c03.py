"""C03: every successful edit leaves a well-formed tree -- histories of edits on ONE tree object."""
from lib import *
import copy as _copy

PROP = "C03"
PAR_OK = True
LEVEL = "proof"
RULE = ("histories of 1..12 operations applied in turn to one tree object, drawn from the whole editing alphabet: reroot at "
        "an inner node / any node index / a node of no tree, unroot, reroot on an outgroup (clade, tips, absent names; strict / "
        "remove flags), midpoint, rotate (recorded rand stream), sort, prune (names, clade, revert), collapse by length / "
        "support / depth (removeRoot, removeTips flags), resolve (recorded rand stream), remove single nodes, graft of a small "
        "tree on a tip, insert identical tips, merge with a second rooted tree, NNI apply of the k-th proposal (optionally "
        "followed by undo, the intermediate tree observed too), rename of a tip (Tree.Rename), clone and subtree at an inner "
        "node (the history continues on the copy; the original is observed right after the copy and again at the end of "
        "the history); ReinitIndexes before most steps, omitted before some steps whose operation does not read the name "
        "index.  Arguments are symbolic (k-th tip, k-th inner node, tips below the j-th node) and resolved against the "
        "current tree.  Starting trees: rooted / unrooted / multifurcating, 3..14 tips, parent slots anywhere, lengths "
        "all / mixed / none, supports, named inner nodes, comments.  After EVERY step: pointer-level audit, enumerations, "
        "Newick text re-read by the reference reader, exact structural equality with the model state.  The history stops at "
        "the first refusal (or on a structure that fails the audit).  Starting trees of 30% of the random histories carry "
        "single-child inner nodes in every configuration (2-4 single-child siblings under one parent, both children of a "
        "rooted root, chains, above tips, random), with RemoveSingleNodes / prune / unroot / collapse early in the history; "
        "20% contain a KEPT rearrangement: nni_hold (Apply, the object returned by the rearranger is kept), 0-3 sort / rotate / reroot "
        "steps, nni_release (Undo of the same object); prunes that keep exactly two tips or exactly one tip.  Families: "
        "every shape <= 4 tips x 4 single-child configurations x all histories of length <= 2 (sampled in quick); every "
        "shape with 4-5 tips x hold(k = 0..7) x {nothing, sort, rotate, rotate+sort, reroot at each of 5 inner nodes, reroot+reroot, reroot+sort} x release, and collect(k) x {reroot at each of 5 inner nodes, nothing, sort, rotate} x apply x "
        "{nothing, reroot, reroot} x release (6-tip shapes sampled); root tip removal: every unrooted shape with a trifurcating root (4-6 tips) x every arrangement of "
        "the three root neighbours x prune of each root-adjacent tip x {nothing, sort, reroot} (60 sampled in quick).  Oracle additionally: a "
        "successful edit does not leave a tip as the root (except SubTree, UnRoot of the two-tip tree, trees already rooted "
        "at a tip); the oracle is evaluated on Go's result also when the model refuses the step.  thorough: every history of length <= 2 over a fixed alphabet of 36 operation instances on every "
        "rooted/unrooted/multifurcating shape with <= 5 tips (266 shapes), every history of length 3 on the 3-tip shapes, plus 20000 "
        "random histories.  meta n_<op> = number of steps "
        "of that operation in the generated history; outcome tag = full | stop@<operation that refused>, with the share of "
        "observed states on which the text oracle applied (nw-all/part/none).  non-trivial = at least one step succeeded; "
        "distinct = distinct case text")
TRUSTED = ["tree built through NewNode/NewEdge + verif hooks (exact neighbour order); dump and audit through "
           "Root()/Neigh()/Edges()/Left()/Right()/Nodes()/Tips()/Edges()/TipEdges()/InternalEdges() only",
           "symbolic arguments are resolved by the worker on the Go tree and by the judge on the model state independently"]
ASSUMPTIONS = ["math/rand: Intn/Int31n/Perm transcribed in Model/Rand.v; the recorded Int63 stream is what the code under test consumes",
               "symmetric adjacency, acyclicity, shared branch objects and branch orientation of the IMPLEMENTATION are not "
               "expressible on the functional model: they are decided by the run-time audit after every step, not by a theorem",
               "strconv.FormatFloat/ParseFloat as modelled in Model/NewickNum.v (C01)"]
LEVEL_TEXT = ("theorems in coq/Properties/C03.v: wf is preserved by every operation of Model/History.v, hence by every history "
              "(C03_history); enumerations agree and the Newick text round-trips after any history; correspondence by exact "
              "structural equality with the Go tree after every step of every history")
LEVEL_NOTE = ("one defect found by the history check is fixed in /repo (a7e3451: RerootOutGroup dereferenced nil on a two-tip tree, "
              "reached after a successful prune / subtree); the model follows the fixed code (refusal below three tips).  "
              "Theorem side conditions (explicit in C03_history): root with >= 2 neighbours for outgroup / midpoint / prune / "
              "insert, no single-child inner node for prune (the property's proviso), distinct tip names for prune and "
              "outgroup-with-removal (implied by a successful ReinitIndexes), well-formed argument trees for graft / merge; "
              "none for the other 13 operations.  Outside Model/Outgroup.v's domain (root with one neighbour, two-tip tree for "
              "midpoint) and for CollapseTopoDepth on a tree whose root is a tip the step is judged by the oracle alone "
              "(tag :unmodelled) and the history continues from the dumped tree")

# One defect found by this check is fixed in /repo (a7e3451 RerootOutGroup dereferenced nil on a two-tip tree): no open
# finding, no matcher.
MATCHERS = {}

NEEDS_INDEX = {"graft", "insert", "merge", "collapse_depth", "prune"}
OPS = ["reroot", "unroot", "outgroup", "midpoint", "rotate", "sort", "prune", "collapse_len", "collapse_sup",
       "collapse_depth", "resolve", "rmsingle", "graft", "insert", "merge", "nni", "rename", "clone", "subtree",
       "nni_hold", "nni_release", "nni_collect", "nni_apply_held"]
WEIGHTS = {"reroot": 12, "unroot": 5, "outgroup": 9, "midpoint": 4, "rotate": 5, "sort": 4, "prune": 8, "collapse_len": 4,
           "collapse_sup": 4, "collapse_depth": 4, "resolve": 6, "rmsingle": 4, "graft": 5, "insert": 5, "merge": 3,
           "nni": 9, "rename": 5, "clone": 4, "subtree": 3, "nni_hold": 2, "nni_release": 2, "nni_collect": 1, "nni_apply_held": 1}

def tip(k): return [Sym("tip"), k]
def lit(s): return [Sym("lit"), s]
def clade(j): return [Sym("clade"), j]

class Ctx:
    def __init__(self, rng, g):
        self.rng, self.g, self.fresh = rng, g, 0
    def name(self, p="n"):
        self.fresh += 1
        return "%s%d" % (p, self.fresh)

def small_tree(cx, lo, hi, rooted=None, prefix=None):
    rng, g = cx.rng, cx.g
    cx.fresh += 1
    return g.tree(lo=lo, hi=hi, maxdeg=3, prefix=prefix or ("g%d_" % cx.fresh), rooted=rooted,
                  lenmode=rng.choice(["all", "all", "mixed"]), supmode="mixed", inner_names=False, comments=False,
                  up_random=rng.random() < 0.5)

def rand_op(cx, name):
    rng, g = cx.rng, cx.g
    o = {"op": Sym(name), "reinit": True if name in NEEDS_INDEX else rng.random() < 0.75}
    K = lambda: rng.randrange(0, 40)
    if name in ("reroot", "subtree"):
        o["sel"] = Sym("inner") if rng.random() < (0.85 if name == "reroot" else 0.95) else Sym("node")
        o["i"] = K()
    elif name == "outgroup":
        r = rng.random()
        if r < 0.55: names = [clade(K())]
        elif r < 0.70: names = [tip(K())]
        elif r < 0.82: names = [tip(K()) for _ in range(rng.randint(2, 4))]
        elif r < 0.92: names = [clade(K()), lit("zz%d" % rng.randrange(3))]
        elif r < 0.96: names = [lit("zz1"), lit("zz2")]
        else: names = []
        o["names"] = names
        o["remove"] = rng.random() < 0.25
        o["strict"] = rng.random() < 0.35
    elif name in ("rotate", "resolve"):
        o["seed"] = rng.randrange(1, 2**31)
    elif name == "prune":
        r = rng.random()
        revert = False
        if r < 0.55: names = [tip(K()) for _ in range(rng.randint(1, 3))]
        elif r < 0.65:
            # keep exactly two tips / exactly one tip
            revert = True
            a = K()
            names = [tip(a), tip(a + rng.randint(1, 5))] if rng.random() < 0.7 else [tip(a)]
        elif r < 0.80: names = [clade(K())]
        elif r < 0.85: names = [tip(K()), lit("zz1")]
        else:
            revert = True
            names = [tip(K()) for _ in range(rng.randint(3, 9))]
        o["names"] = names
        o["revert"] = revert
    elif name == "collapse_len":
        o["l"] = rng.choice([Fraction(0), Fraction(-1), g.dyadic(64, 64), g.dyadic(256, 64), Fraction(1000)])
        o["rr"] = rng.random() < 0.2
        o["rt"] = rng.random() < 0.2
    elif name == "collapse_sup":
        o["s"] = rng.choice([Fraction(0), g.dyadic(64, 64), g.dyadic(64, 64), Fraction(2)])
        o["rr"] = rng.random() < 0.2
    elif name == "collapse_depth":
        mn = rng.choice([0, 1, 1, 2, 2, 3])
        o["min"] = mn
        o["max"] = rng.choice([mn, mn, mn + 1, mn + 2, 0])
        o["rr"] = rng.random() < 0.2
        o["rt"] = rng.random() < 0.2
    elif name == "graft":
        o["tip"] = tip(K()) if rng.random() < 0.92 else lit("zz1")
        o["graft"] = T(small_tree(cx, 2, 4, prefix="t" if rng.random() < 0.04 else None))
    elif name == "insert":
        groups = []
        for _ in range(rng.choice([1, 1, 2])):
            r = rng.random()
            if r < 0.85: grp = [tip(K())] + [lit(cx.name()) for _ in range(rng.randint(1, 2))]
            elif r < 0.90: grp = [tip(K()), tip(K()), lit(cx.name())]
            elif r < 0.95: grp = [lit(cx.name()), lit(cx.name())]
            else: grp = [tip(K())]
            rng.shuffle(grp)
            groups.append(grp)
        o["groups"] = groups
    elif name == "merge":
        o["t2"] = T(small_tree(cx, 2, 5, rooted=rng.random() < 0.92))
    elif name == "nni":
        o["k"] = K()
        o["undo"] = rng.random() < 0.3
    elif name in ("nni_hold", "nni_collect"):
        o["k"] = K()
    elif name == "rename":
        r = rng.random()
        o["tip"] = tip(K()) if r < 0.93 else lit("I%d" % rng.randrange(1, 6))
        o["to"] = cx.name("r") if rng.random() < 0.9 else "t%d" % rng.randrange(0, 6)
    return o

def start_kind(t):
    d = len(t["slots"])
    multi = any(len(kids(x)) > 2 for x in preorder(t) if x is not t) or d > 3
    return ("rooted" if d == 2 else "unrooted") + ("-multi" if multi else "-bin")

def meta_of(t, ops, src):
    m = {"src": src, "len": len(ops), "ntips": len(leaves(t)), "start": start_kind(t)}
    for n in OPS:
        m["n_" + n] = sum(1 for o in ops if o["op"].s == n)
    m["reinit_F"] = sum(1 for o in ops if not o["reinit"])
    return m

def random_history(rng, g, maxlen=12):
    cx = Ctx(rng, g)
    lenmode = rng.choice(["all", "all", "all", "mixed", "mixed", "none"])
    t = g.tree(lo=3, hi=14, maxdeg=5, lenmode=lenmode, supmode=rng.choice(["mixed", "mixed", "all", "none"]),
               inner_names=rng.random() < 0.3, comments=rng.random() < 0.2, up_random=rng.random() < 0.6)
    singles = "none"
    if rng.random() < 0.3:
        t, singles = add_singles(rng, g, t)
    n = rng.randint(1, maxlen)
    names = rng.choices(OPS, weights=[WEIGHTS[o] for o in OPS], k=n)
    if singles != "none" and rng.random() < 0.6:
        # the operations that suppress single-child nodes, early in the history
        names[rng.randrange(0, min(n, 3))] = rng.choice(["rmsingle", "rmsingle", "prune", "unroot", "collapse_len"])
    if rng.random() < 0.2:
        # a kept rearrangement: Apply, structure-preserving steps, Undo
        mid = lambda: rng.choices(["sort", "rotate", "reroot", "reroot"], k=rng.randint(0, 3))
        if rng.random() < 0.5:
            blk = ["nni_hold"] + mid() + ["nni_release"]
        else:
            # the handle is collected first and applied after other steps
            blk = ["nni_collect"] + mid() + ["nni_apply_held"] + mid()[:2] + ["nni_release"]
        if rng.random() < 0.5:
            blk = ["resolve"] + blk          # more binary nodes, more proposals
        at = rng.randrange(0, n + 1)
        names[at:at] = blk
        names = names[:14]
    ops = [rand_op(cx, nm) for nm in names]
    m = meta_of(t, ops, "random")
    m["singles"] = singles
    return {"sx": sx({"tree": T(t), "ops": ops}), "meta": m}

# ---------------------------------------------------------------- single-child nodes in the starting tree

def _wrap(rng, g, x, i, chain=1):
    """put `chain` single-child nodes on the branch in slot i of node x"""
    for _ in range(chain):
        e, c = x["slots"][i]
        def ln():
            r = rng.random()
            return None if r < 0.3 else (Fraction(0) if r < 0.4 else g.dyadic(256, 64))
        e1 = {"len": ln(), "sup": g.support("mixed") if rng.random() < 0.5 else None, "pv": None, "coms": []}
        e2 = {"len": ln(), "sup": e["sup"], "pv": e["pv"], "coms": e["coms"]}
        slots = [None, (e2, c)]
        if rng.random() < 0.5:
            slots.reverse()
        s = {"name": rng.choice(["", "", "", "S%d" % rng.randrange(1000)]), "coms": [], "slots": slots}
        x["slots"][i] = (e1, s)

def add_singles(rng, g, t, kind=None):
    """single-child inner nodes in every configuration: several single-child siblings under one parent, both children
    of a rooted root, chains, above tips, at random"""
    t = _copy.deepcopy(t)
    kind = kind or rng.choice(["siblings", "siblings", "rootkids", "chain", "abovetips", "random"])
    parents = [x for x in preorder(t) if len(kids(x)) >= 2]
    cidx = lambda x: [i for i, sl in enumerate(x["slots"]) if sl is not None]
    if kind == "siblings":
        x = rng.choice(parents)
        ci = cidx(x)
        for i in rng.sample(ci, rng.randint(2, min(4, len(ci)))):
            _wrap(rng, g, x, i, chain=rng.choice([1, 1, 2]))
    elif kind == "rootkids":
        for i in cidx(t):
            _wrap(rng, g, t, i)
    elif kind == "chain":
        x = rng.choice(parents)
        _wrap(rng, g, x, rng.choice(cidx(x)), chain=rng.randint(2, 4))
    elif kind == "abovetips":
        cands = [(x, i) for x in parents for i in cidx(x) if not kids(x["slots"][i][1])]
        for x, i in rng.sample(cands, min(len(cands), rng.randint(2, 4))):
            _wrap(rng, g, x, i)
    else:
        for _ in range(rng.randint(1, 4)):
            x = rng.choice([y for y in preorder(t) if kids(y)])
            _wrap(rng, g, x, rng.choice(cidx(x)))
    return t, kind

# ---------------------------------------------------------------- exhaustive part: fixed alphabet of operation instances

def _leaf(name):
    return {"name": name, "coms": [], "slots": [None]}

def _edge(l=None, s=None):
    return {"len": l, "sup": s, "pv": None, "coms": []}

def _pair(a, b, l1, l2):
    return {"name": "", "coms": [], "slots": [(_edge(l1), _leaf(a)), (_edge(l2), _leaf(b))]}

def alphabet():
    F = Fraction
    A = []
    def op(name, reinit=True, **kw):
        d = {"op": Sym(name), "reinit": reinit}
        d.update(kw)
        A.append(d)
    for i in range(4):
        op("reroot", sel=Sym("inner"), i=i)
    op("reroot", reinit=False, sel=Sym("node"), i=2)
    op("unroot")
    for j in (1, 2, 3):
        op("outgroup", names=[clade(j)], remove=False, strict=False)
    op("outgroup", names=[clade(1)], remove=True, strict=False)
    op("outgroup", names=[tip(0), tip(2)], remove=False, strict=True)
    op("outgroup", names=[tip(0), tip(2)], remove=False, strict=False)
    op("midpoint")
    op("rotate", seed=7)
    op("sort", reinit=False)
    op("prune", names=[tip(0)], revert=False)
    op("prune", names=[tip(1), tip(2)], revert=False)
    op("prune", names=[tip(0), tip(1), tip(2)], revert=True)
    op("prune", names=[tip(0), tip(1)], revert=True)
    op("prune", names=[tip(1)], revert=True)
    op("collapse_len", l=F(1, 2), rr=False, rt=False)
    op("collapse_sup", s=F(1, 2), rr=False)
    op("collapse_depth", min=2, max=2, rr=False, rt=False)
    op("resolve", seed=3)
    op("rmsingle", reinit=False)
    op("graft", tip=tip(1), graft=T(_pair("ga", "gb", F(1, 4), F(3, 4))))
    op("insert", groups=[[tip(0), lit("n0")]])
    op("merge", t2=T(_pair("ma", "mb", F(1, 2), None)))
    op("nni", k=0, undo=False)
    op("nni", k=1, undo=True)
    op("nni", reinit=False, k=3, undo=False)
    op("nni_hold", reinit=False, k=0)
    op("nni_release", reinit=False)
    op("rename", tip=tip(0), to="zz")
    op("clone")
    op("subtree", sel=Sym("inner"), i=1)
    return A

def small_shapes(rng, g, sizes):
    """every shape (root with >= 2 children) on n tips, decorated with lengths k/4 (ties and zeros) and supports"""
    out = []
    for n in sizes:
        for sh in all_shapes(["t%d" % i for i in range(n)]):
            t = g.decorate(sh, lenmode="all", supmode="all", up_random=rng.random() < 0.5)
            for x in preorder(t):
                for e, c in kids(x):
                    e["len"] = Fraction(rng.randrange(0, 6), 4)
                    if e["sup"] is not None:
                        e["sup"] = Fraction(rng.randrange(0, 5), 4)
            out.append(t)
    return out

def exhaustive(rng, g, sizes, sample=None, maxlen=2):
    A = alphabet()
    out = []
    hist = [[a] for a in A] + [[a, b] for a in A for b in A]
    if maxlen >= 3:
        hist = [[a, b, c] for a in A for b in A for c in A]
    for t in small_shapes(rng, g, sizes):
        hs = hist if sample is None else rng.sample(hist, sample)
        tt = T(t)
        for ops in hs:
            out.append({"sx": sx({"tree": tt, "ops": ops}), "meta": meta_of(t, ops, "exhaustive")})
    return out

def held_family(rng, g, sizes, sample=None):
    """Apply of the k-th proposal, one structure-preserving step (or none), Undo of the SAME rearrangement object"""
    out = []
    H = lambda k: {"op": Sym("nni_hold"), "reinit": k % 2 == 0, "k": k}
    R = {"op": Sym("nni_release"), "reinit": False}
    RR = lambda i, re=True: {"op": Sym("reroot"), "reinit": re, "sel": Sym("inner"), "i": i}
    mids = [[], [{"op": Sym("sort"), "reinit": False}], [{"op": Sym("rotate"), "reinit": True, "seed": 11}],
            [{"op": Sym("rotate"), "reinit": False, "seed": 12}, {"op": Sym("sort"), "reinit": True}]]
    # re-rooting between Apply and Undo: at every inner node (n1, n2, inside each moved clade, the old root)
    mids += [[RR(i, i % 2 == 0)] for i in range(5)] + [[RR(1), RR(3, False)], [RR(2), {"op": Sym("sort"), "reinit": False}]]
    hist = [[H(k)] + m + [R] for k in range(8) for m in mids]
    # collected first, applied after a re-rooting / reordering, possibly re-rooted again, then undone
    C = lambda k: {"op": Sym("nni_collect"), "reinit": k % 2 == 1, "k": k}
    AP = {"op": Sym("nni_apply_held"), "reinit": False}
    pre = [[RR(i, i % 2 == 1)] for i in range(5)] + [[], mids[1], mids[2]]
    post = [[], [RR(0)], [RR(3, False)]]
    hist += [[C(k)] + a + [AP] + b + [R] for k in range(8) for a in pre for b in post]
    for t in small_shapes(rng, g, sizes):
        tt = T(t)
        for ops in (hist if sample is None else rng.sample(hist, sample)):
            out.append({"sx": sx({"tree": tt, "ops": ops}), "meta": meta_of(t, ops, "held")})
    return out

def singles_family(rng, g, sizes, sample=None):
    """every shape with single-child nodes added in each configuration x every history of length <= 2"""
    A = alphabet()
    out = []
    hist = [[a] for a in A] + [[a, b] for a in A for b in A]
    for t0 in small_shapes(rng, g, sizes):
        for kind in ("siblings", "rootkids", "chain", "abovetips"):
            t, _ = add_singles(rng, g, t0, kind)
            tt = T(t)
            for ops in (hist if sample is None else rng.sample(hist, sample)):
                m = meta_of(t, ops, "singles")
                m["singles"] = kind
                out.append({"sx": sx({"tree": tt, "ops": ops}), "meta": m})
    return out

def root_tip_family(rng, g, sizes, sample=None):
    """removeTip at the root of an unrooted tree: every shape whose root has three neighbours, every arrangement of
    these three (tip / inner node in each position), prune of each root-adjacent tip, then sort or reroot"""
    from itertools import permutations
    out = []
    follow = [[{"op": Sym("sort"), "reinit": False}], [{"op": Sym("reroot"), "reinit": True, "sel": Sym("inner"), "i": 1}], []]
    for n in sizes:
        for sh in all_shapes(["t%d" % i for i in range(n)]):
            if len(sh) != 3 or all(isinstance(x, list) for x in sh):
                continue
            for perm in sorted(set(permutations(range(3)))):
                t = g.decorate([sh[i] for i in perm], lenmode=rng.choice(["all", "all", "mixed"]), supmode="mixed",
                               up_random=rng.random() < 0.5)
                tt = T(t)
                for e, c in kids(t):
                    if kids(c):
                        continue
                    for f in follow:
                        ops = [{"op": Sym("prune"), "reinit": True, "names": [lit(c["name"])], "revert": False}] + f
                        m = meta_of(t, ops, "roottip")
                        m["rootkids"] = "".join("T" if not kids(x) else "I" for _, x in kids(t))
                        out.append({"sx": sx({"tree": tt, "ops": ops}), "meta": m})
    if sample is not None and len(out) > sample:
        out = rng.sample(out, sample)
    return out

def gen(rng, tier):
    g = Gen(rng)
    out = []
    n = {"quick": 400, "thorough": 20000, "search": 600}[tier]
    for _ in range(n):
        out.append(random_history(rng, g))
    if tier == "thorough":
        out += exhaustive(rng, g, [3, 4, 5])
        out += exhaustive(rng, g, [3], maxlen=3)
        out += held_family(rng, g, [4, 5])
        out += held_family(rng, g, [6], sample=8)
        out += root_tip_family(rng, g, [4, 5, 6])
        out += singles_family(rng, g, [3, 4])
    elif tier == "quick":
        out += exhaustive(rng, g, [3, 4], sample=8)
        out += held_family(rng, g, [4, 5], sample=2)
        out += root_tip_family(rng, g, [4, 5], sample=60)
        out += singles_family(rng, g, [3, 4], sample=2)
    else:
        out += held_family(rng, g, [4], sample=2)
        out += root_tip_family(rng, g, [4, 5, 6], sample=40)
        out += singles_family(rng, g, [3, 4], sample=2)
    return out
