"""C04: branch split indexes and hashes always describe the actual tree."""
from lib import *
from itertools import permutations

PROP = "C04"
PAR_OK = True
LEVEL = "proof"
RULE = ("index: random multifurcating trees (3..40 tips, occasionally 63/64/65/128/129; rooted/unrooted; parent slot anywhere; "
        "byte-wise tricky tip names incl. bytes >= 0x80, prefixes, digits; a few with duplicated names, a few whose root has a single neighbour [correspondence only]) -> every table of every branch; "
        "edit: one of 13 editing operations (reroot, unroot, removetips, collapse*, resolve, shuffle, removesingle, midpoint, outgroup, "
        "rotate, sort), then the tables as the operation left them or after an explicit ReinitIndexes, against the dumped result tree; "
        "samebip: two trees on the same taxa (re-rooted / re-ordered / root inserted or removed copy, NNI-perturbed copy, or independent "
        "tree), all pairs of branches; edgeindex: histories of PutEdgeValue/AddEdgeCount/Value on one EdgeIndex, initial capacity 0..64 "
        "(non powers of two included), load factor k/128 in [2/128, 4], keys presented through the branches of both trees; "
        "hashmap: the same with abstract keys (hash, class) incl. colliding hashes and hashes >= 2^63; qmap: quartets as keys; "
        "quartet: all 24 x 24 presentations of two quartets.  A case is non-trivial when it exercises at least one equal pair / non-empty map; "
        "distinct = distinct case text")
TRUSTED = ["tree built through NewNode/NewEdge + verif hooks (exact neighbour order); tables read through "
           "Edge.TipPresent/Bitset().Len/NumTipsLeft/NumTipsRight/TopoDepth/HashCode/VerifHashes, Node.TipIndex; "
           "tree.KeyValue's private fields read with reflect+unsafe in the harness",
           "package github.com/fredericlemoine/bitset (New/Set/ClearAll/Test/None/EqualOrComplement) modelled as list bool; "
           "probed at 63/64/65/128/129 tips"]
ASSUMPTIONS = ["Go int counters (ntaxleft/right, tipid, Count) do not overflow 63 bits",
               "hashmap capacity doubling does not reach 2^64 (hashmap_refines_total: policies that never fire at capacity >= 2^63)",
               "sequential histories (the RWMutex of hashmap is not modelled)",
               "float64 load test and length sums are exact for the dyadic load factors / lengths generated"]
LEVEL_TEXT = "machine-checked theorems about the Gallina model + correspondence/oracle runs against the Go code"
LEVEL_NOTE = ""

INCLUDE_CAP0 = True       # initial capacity 0 is inside "every initial capacity" (NewHashMap turns it into 1)

# ---------------------------------------------------------------- names

def tricky_names(rng, n):
    """n distinct tip names, byte-wise ordering traps included"""
    style = rng.random()
    names = set()
    if style < 0.35:
        return ["t%d" % i for i in range(n)]
    alphabet = [b"a", b"b", b"A", b"B", b"Z", b"0", b"1", b"9", b"_", b"-", b" ", b".", b"t", b"\xc3\xa9", b"\xff", b"\x80", b"~", b"'"]
    tries = 0
    while len(names) < n:
        tries += 1
        k = rng.choice([1, 1, 2, 2, 3, 4, 6, 12])
        s = b"".join(rng.choice(alphabet) for _ in range(k))
        if rng.random() < 0.3 and names:
            s = rng.choice(sorted(names)) + s          # proper prefixes
        if rng.random() < 0.2:
            s = b"%d" % rng.randrange(0, 120)
        names.add(s)
        if tries > 50 * n:
            break
    names = sorted(names)
    while len(names) < n:
        names.append(b"x%d" % len(names))
    rng.shuffle(names)
    return names[:n]

def rename(t, mapping):
    k = kids(t)
    return {"name": mapping.get(t["name"], t["name"]) if not k else t["name"], "coms": t["coms"],
            "slots": [None if s is None else (s[0], rename(s[1], mapping)) for s in t["slots"]]}

def rand_tree(g, rng, n, **kw):
    t = g.tree(ntips=n, maxdeg=rng.choice([2, 3, 4, 6]), lenmode=kw.pop("lenmode", "mixed"), supmode="mixed",
               inner_names=rng.random() < 0.3, comments=False, up_random=rng.random() < 0.6, **kw)
    names = tricky_names(rng, n)
    return rename(t, {"t%d" % i: names[i] for i in range(n)})

# ---------------------------------------------------------------- graph view of a tree (python-side re-rooting)

def to_graph(t):
    nodes, adj = [], {}
    def walk(n):
        i = len(nodes)
        nodes.append({"name": n["name"], "coms": n["coms"]})
        adj[i] = []
        for s in n["slots"]:
            if s is not None:
                e, c = s
                j = walk(c)
                adj[i].append((j, e))
                adj[j].append((i, e))
        return i
    walk(t)
    return nodes, adj

def from_graph(nodes, adj, root, rng, shuffle=True, up_random=True):
    def build(i, parent):
        nb = [(j, e) for (j, e) in adj[i] if j != parent]
        if shuffle:
            rng.shuffle(nb)
        slots = [(e, build(j, i)) for (j, e) in nb]
        if parent is not None:
            slots.insert(rng.randrange(0, len(slots) + 1) if up_random else 0, None)
        return {"name": nodes[i]["name"], "coms": nodes[i]["coms"], "slots": slots}
    return build(root, None)

def other_view(t, rng):
    """the same unrooted tree seen differently: new root node, new neighbour orders, possibly a root inserted on a
    branch or the degree-2 root removed"""
    nodes, adj = to_graph(t)
    nodes = [dict(n) for n in nodes]
    r = rng.random()
    # remove a degree-2 root (merge its two branches)
    if len(adj[0]) == 2 and r < 0.5:
        (a, ea), (b, eb) = adj[0]
        if len(adj[a]) > 1 or len(adj[b]) > 1:
            ln = None if ea["len"] is None and eb["len"] is None else (ea["len"] or 0) + (eb["len"] or 0)
            e = {"len": ln, "sup": None, "pv": None, "coms": []}
            adj[a] = [(b, e) if j == 0 else (j, x) for (j, x) in adj[a]]
            adj[b] = [(a, e) if j == 0 else (j, x) for (j, x) in adj[b]]
            del adj[0]
    elif r < 0.3:
        # insert a new degree-2 node in the middle of a random branch and root there
        i = rng.choice(sorted(adj))
        j, e = rng.choice(adj[i])
        k = len(nodes)
        nodes.append({"name": "", "coms": []})
        h = None if e["len"] is None else e["len"] / 2
        e1 = {"len": h, "sup": e["sup"], "pv": None, "coms": []}
        e2 = {"len": h, "sup": e["sup"], "pv": None, "coms": []}
        adj[i] = [(k, e1) if (x == j and y is e) else (x, y) for (x, y) in adj[i]]
        adj[j] = [(k, e2) if (x == i and y is e) else (x, y) for (x, y) in adj[j]]
        adj[k] = [(i, e1), (j, e2)]
        return from_graph(nodes, adj, k, rng)
    inner = [i for i in sorted(adj) if len(adj[i]) >= 2]
    root = rng.choice(inner) if inner else sorted(adj)[0]
    return from_graph(nodes, adj, root, rng)

def nni(t, rng):
    """a copy with one random subtree swap across an inner branch (changes some splits, keeps most)"""
    import copy
    t = copy.deepcopy(t)
    cands = []
    for n in preorder(t):
        for s in n["slots"]:
            if s is not None and len(kids(s[1])) >= 2 and len(kids(n)) >= 2:
                cands.append((n, s[1]))
    if not cands:
        return t
    p, c = rng.choice(cands)
    pi = [i for i, s in enumerate(p["slots"]) if s is not None and s[1] is not c]
    ci = [i for i, s in enumerate(c["slots"]) if s is not None]
    a, b = rng.choice(pi), rng.choice(ci)
    p["slots"][a], c["slots"][b] = c["slots"][b], p["slots"][a]
    return t

def second_tree(g, rng, t):
    r = rng.random()
    if r < 0.45:
        return other_view(t, rng), "view"
    if r < 0.75:
        return other_view(nni(nni(t, rng), rng), rng), "nni"
    names = leaves(t)
    n = len(names)
    u = g.tree(ntips=n, maxdeg=rng.choice([2, 3, 4]), lenmode="all", supmode="mixed", up_random=True)
    return rename(u, {"t%d" % i: names[i] for i in range(n)}), "indep"

def n_edges(t):
    return n_nodes(t) - 1

# ---------------------------------------------------------------- cases

def case_index(g, rng, tier):
    r = rng.random()
    if r < 0.12:
        n = rng.choice([31, 32, 33, 63, 64, 65, 127, 128, 129])
    else:
        n = rng.randint(3, 40)
    t = rand_tree(g, rng, n)
    if rng.random() < 0.04:
        # a root with a single neighbour (a "tip" for the Go tip index): correspondence only
        t["slots"].insert(rng.randrange(len(t["slots"]) + 1), None)
        t = {"name": rng.choice(["", "r", "a", "~root"]), "coms": [],
             "slots": [({"len": Fraction(1, 2), "sup": None, "pv": None, "coms": []}, t)]}
    dup = False
    if rng.random() < 0.04:
        ls = [x for x in preorder(t) if not kids(x)]
        a, b = rng.sample(ls, 2)
        b["name"] = a["name"]
        dup = True
    return {"sx": sx({"kind": Sym("index"), "tree": T(t)}),
            "meta": {"kind": "index", "ntips": n if n > 40 else (n // 10) * 10, "rooted": len(t["slots"]) == 2, "dup": dup}}

def case_samebip(g, rng, tier):
    n = rng.randint(3, 24 if tier == "quick" else 40)
    if rng.random() < 0.05:
        n = rng.choice([63, 64, 65])
    t1 = rand_tree(g, rng, n, lenmode="all")
    t2, how = second_tree(g, rng, t1)
    return {"sx": sx({"kind": Sym("samebip"), "t1": T(t1), "t2": T(t2)}),
            "meta": {"kind": "samebip", "how": how, "ntips": (n // 10) * 10}}

EDIT_OPS = ["reroot", "unroot", "removetips", "collapselen", "collapsesup", "collapsedepth", "resolve", "shuffle",
            "removesingle", "midpoint", "outgroup", "rotate", "sort"]
# operations that recompute the branch indexes themselves (Reinit*Indexes at their end)
SELF_REINIT = {"reroot", "unroot", "removetips", "collapselen", "collapsesup", "collapsedepth", "resolve", "shuffle",
               "removesingle", "midpoint", "outgroup"}

def case_edit(g, rng, tier):
    n = rng.randint(4, 30)
    if rng.random() < 0.04:
        n = rng.choice([64, 65, 66])
    t = rand_tree(g, rng, n, lenmode="all")
    names = leaves(t)
    op = rng.choice(EDIT_OPS)
    c = {"kind": Sym("edit"), "tree": T(t), "op": Sym(op), "seed": rng.randrange(1, 2 ** 31)}
    if op == "reroot":
        c["i"] = rng.randrange(n_nodes(t))
    elif op == "removetips":
        k = rng.randint(1, max(1, n - 3))
        c["revert"] = rng.random() < 0.3
        if c["revert"]:
            k = rng.randint(3, n)
        c["names"] = rng.sample(names, k)
    elif op == "collapselen":
        c["x"] = Fraction(rng.randrange(0, 200), 64); c["root"] = rng.random() < 0.5; c["tips"] = rng.random() < 0.3
    elif op == "collapsesup":
        c["x"] = Fraction(rng.randrange(0, 65), 64); c["root"] = rng.random() < 0.5
    elif op == "collapsedepth":
        a = rng.randint(0, 4); c["a"] = a; c["b"] = a + rng.randint(0, 4); c["root"] = rng.random() < 0.5; c["tips"] = rng.random() < 0.2
    elif op == "outgroup":
        c["names"] = rng.sample(names, rng.randint(1, max(1, n // 3))); c["remove"] = rng.random() < 0.4
    # ops that recompute their indexes are observed as they leave them (half of the time); the others, and the
    # other half, after an explicit ReinitIndexes
    c["reinit"] = (op not in SELF_REINIT) or rng.random() < 0.5
    return {"sx": sx(c), "meta": {"kind": "edit", "op": op, "reinit": c["reinit"]}}

def case_edit_removetips(g, rng, tier):
    """RemoveTips around the root and on whole clades:
    (i)   unrooted, root with exactly 3 neighbours of which two are tips, one root tip removed, the remaining root
          neighbours in both orders (tip first / clade first);
    (ii)  rooted trees, removal of tips attached to the root (and of a whole root child);
    (iii) whole clades and cherries anywhere."""
    n = rng.randint(5, 16)
    names = tricky_names(rng, n)
    mode = rng.choice(["root3", "root3", "rooted", "rooted", "clade", "cherry"])
    maxdeg = rng.choice([2, 3, 4])
    def sub(ns):
        return g.shape(ns, maxdeg=maxdeg) if len(ns) > 1 else ns[0]
    if mode == "root3":
        a, b, rest = names[0], names[1], names[2:]
        kids3 = [a, b, sub(rest)]
        order = rng.choice([[0, 1, 2], [0, 2, 1], [2, 0, 1], [1, 0, 2], [1, 2, 0], [2, 1, 0]])
        shape = [kids3[i] for i in order]
        remove = [rng.choice([a, b])]
        if rng.random() < 0.1:
            remove = [a, b]
    elif mode == "rooted":
        a, rest = names[0], names[1:]
        r = rng.random()
        if r < 0.6:
            shape = [a, sub(rest)] if rng.random() < 0.5 else [sub(rest), a]
            remove = [a] if rng.random() < 0.7 else [rng.choice(rest)]
        else:
            k = rng.randint(2, n - 2)
            left, right = names[:k], names[k:]
            shape = [sub(left), sub(right)]
            remove = list(left) if rng.random() < 0.5 else [rng.choice(names)]
    else:
        rootdeg = rng.choice([2, 3, 3, 4])
        shape = g.shape(names, maxdeg=maxdeg, rootdeg=min(rootdeg, n))
        def leafset(sh):
            return [sh] if not isinstance(sh, list) else [x for c in sh for x in leafset(c)]
        inner = []
        def walk(sh, top):
            if isinstance(sh, list):
                if not top:
                    inner.append(sh)
                for c in sh:
                    walk(c, False)
        walk(shape, True)
        if mode == "cherry":
            ch = [x for x in inner if all(not isinstance(c, list) for c in x)]
            inner = ch or inner
        if inner:
            remove = leafset(rng.choice(inner))
        else:
            remove = [rng.choice(names)]
        if len(remove) > n - 2:
            remove = remove[:1]
    t = g.decorate(shape, lenmode=rng.choice(["all", "mixed"]), supmode="mixed", up_random=rng.random() < 0.5)
    revert = False
    if rng.random() < 0.1 and len(remove) >= 3:
        revert = True             # keep only the clade
    c = {"kind": Sym("edit"), "tree": T(t), "op": Sym("removetips"), "seed": 1, "revert": revert,
         "names": list(remove), "reinit": rng.random() < 0.5}
    return {"sx": sx(c), "meta": {"kind": "edit", "op": "removetips:" + mode, "reinit": c["reinit"]}}

def case_handbuilt(g, rng, tier):
    """a tree assembled with NewNode/ConnectNodes (branch directions: none / all / random / one deep branch flipped),
    then Reroot(root) | SetRoot(n)+Reroot(n) | RerootFirst, then ReinitIndexes"""
    n = rng.randint(4, 20)
    t = g.tree(ntips=n, maxdeg=rng.choice([2, 3, 4]), lenmode="all", supmode="mixed", up_random=False,
               rooted=rng.random() < 0.3)
    names = tricky_names(rng, n)
    t = rename(t, {"t%d" % i: names[i] for i in range(n)})
    ne = n_edges(t)
    mode = rng.choice(["none", "all", "random", "random", "deep"])
    if mode == "none":
        flip = [False] * ne
    elif mode == "all":
        flip = [True] * ne
    elif mode == "random":
        flip = [rng.random() < 0.5 for _ in range(ne)]
    else:
        flip = [False] * ne
        flip[rng.randrange(ne // 2, ne)] = True
    nodes = list(preorder(t))
    inner = [i for i, x in enumerate(nodes) if len(x["slots"]) >= 2]
    seq = rng.choice(["reroot_root", "reroot_root", "setroot_reroot", "setroot_reroot", "rerootfirst"])
    c = {"kind": Sym("handbuilt"), "tree": T(t), "flip": [bool(f) for f in flip], "seq": Sym(seq),
         "i": rng.choice(inner)}
    return {"sx": sx(c), "meta": {"kind": "handbuilt", "flip": mode, "seq": seq}}

def bigdeg_tree(g, rng):
    """a node with 8, 9, 16, 17, 18, 32, 33, 64 or 65 neighbours, as root or not, its children all tips or with one heavy
    clade; returns (tree, degree, description)"""
    d = rng.choice([8, 9, 16, 17, 18, 32, 33, 64, 65])
    as_root = rng.random() < 0.4
    heavy = rng.random() < 0.6
    nchild = d if as_root else d - 1
    cnt = [0]
    def nm():
        cnt[0] += 1
        return "t%d" % (cnt[0] - 1)
    def clade(k):
        ns = [nm() for _ in range(k)]
        return g.shape(ns, maxdeg=3)
    kids_ = [nm() for _ in range(nchild - (1 if heavy else 0))]
    if heavy:
        kids_.insert(rng.randrange(len(kids_) + 1), clade(rng.randint(3, 7)))
    if as_root:
        shape = kids_
    else:
        others = [nm()] if rng.random() < 0.5 else [clade(rng.randint(2, 4))]
        if rng.random() < 0.5:
            others.append(nm())
        shape = others[:]
        shape.insert(rng.randrange(len(shape) + 1), kids_)
        if len(shape) == 1:
            shape.append(nm())
    t = g.decorate(shape, lenmode="all", supmode="mixed", up_random=rng.random() < 0.5)
    names = tricky_names(rng, cnt[0])
    t = rename(t, {"t%d" % i: names[i] for i in range(cnt[0])})
    return t, d, ("root" if as_root else "inner") + ("+heavy" if heavy else "+tips")

def reroot_off_hub(t, rng, d):
    """the same tree rooted on an inner node other than the big one (inside the heavy clade when there is one)"""
    nodes, adj = to_graph(t)
    cand = [i for i in sorted(adj) if 2 <= len(adj[i]) < d]
    root = rng.choice(cand) if cand else 0
    return from_graph(nodes, adj, root, rng)

def case_bigdeg_index(g, rng, tier):
    t, d, what = bigdeg_tree(g, rng)
    if rng.random() < 0.5:
        t = reroot_off_hub(t, rng, d)
        what += "+rerooted"
    return {"sx": sx({"kind": Sym("index"), "tree": T(t)}), "meta": {"kind": "index", "bigdeg": d, "shape": what}}

def case_bigdeg_samebip(g, rng, tier):
    t1, d, what = bigdeg_tree(g, rng)
    while tier == "quick" and d > 33:          # all pairs of branches: keep the quick tier light
        t1, d, what = bigdeg_tree(g, rng)
    t2 = reroot_off_hub(t1, rng, d)
    if rng.random() < 0.5:
        t1, t2 = t2, t1
    return {"sx": sx({"kind": Sym("samebip"), "t1": T(t1), "t2": T(t2)}), "meta": {"kind": "samebip", "how": "bigdeg", "bigdeg": d}}

def case_indexseq(g, rng, tier):
    """the indexing step is one of the sequences the public API allows, with or without an earlier indexing"""
    n = rng.randint(3, 18)
    if rng.random() < 0.1:
        n = rng.choice([31, 32, 33, 63, 64, 65])
    t = rand_tree(g, rng, n, lenmode="all")
    nodes = list(preorder(t))
    inner = [i for i, x in enumerate(nodes) if len(x["slots"]) >= 2]
    pre = rng.choice(["none", "none", "reinit", "reinit", "reroot", "hashes", "reinit_reroot",
                      "insert_one", "insert_one", "insert_many", "graft_tip", "graft_tree", "removetips", "rename", "setname", "shuffle"])
    seq = rng.choice(["reinit", "three", "three", "three_hashes", "tipindex", "nothing"])
    c = {"kind": Sym("indexseq"), "tree": T(t), "pre": Sym(pre), "seq": Sym(seq), "i": rng.choice(inner)}
    names = leaves(t)
    def fresh(k):
        # new names that sort before, between and after the existing ones
        out = []
        while len(out) < k:
            base = rng.choice(names)
            base = base if isinstance(base, bytes) else base.encode()
            cand = rng.choice([b"", b"!", base, base[:1], b"~~", b"0"]) + rng.choice([b"n", b"!x", b"~z", b"A"]) + b"%d" % rng.randrange(100)
            if cand not in [x if isinstance(x, bytes) else x.encode() for x in names] and cand not in out:
                out.append(cand)
        return out
    if pre in ("insert_one", "insert_many", "rename", "setname"):
        k = rng.randint(1, min(3, n))
        c["names"] = rng.sample(names, k)
        c["news"] = fresh(k)
    elif pre == "graft_tip":
        c["news"] = fresh(1)
        c["j"] = rng.randrange(n_edges(t))
    elif pre == "graft_tree":
        gn = fresh(rng.randint(2, 4))
        gt = g.tree(ntips=len(gn), maxdeg=3, lenmode="all", supmode="none", up_random=False)
        c["names"] = [rng.choice(names)]
        c["graft"] = T(rename(gt, {"t%d" % i: gn[i] for i in range(len(gn))}))
    elif pre == "removetips":
        c["names"] = rng.sample(names, rng.randint(1, max(1, n - 3)))
    elif pre == "shuffle":
        c["seed"] = rng.randrange(1, 2 ** 31)
    return {"sx": sx(c), "meta": {"kind": "indexseq", "pre": pre, "seq": seq}}

def case_parmap(g, rng, tier):
    """k goroutines on one shared HashMap; every key is owned by one goroutine"""
    k = rng.choice([2, 4, 8])
    nkeys = rng.randint(40, 160)
    keys = [[rng.randrange(0, 2 ** 64), i] for i in range(nkeys)]
    owner = [rng.randrange(k) for _ in range(nkeys)]
    gops = []
    for gi in range(k):
        mine = [i for i in range(nkeys) if owner[i] == gi]
        ops = []
        for i in mine:
            ops.append([Sym("put"), i, rng.randrange(0, 1000)])
        for _ in range(len(mine) // 2):
            i = rng.choice(mine)
            ops.append([Sym("put"), i, rng.randrange(0, 1000)] if rng.random() < 0.5 else [Sym("val"), i])
        rng.shuffle(ops)
        for i in mine:
            ops.append([Sym("val"), i])
        gops.append(ops)
    cap = rng.choice([1, 2, 3, 10])
    lf = rng.choice([Fraction(3, 4), Fraction(3, 4), Fraction(1, 2), Fraction(1)])
    c = {"kind": Sym("parmap"), "cap": cap, "lf": lf, "reps": 3, "keys": keys, "gops": gops}
    return {"sx": sx(c), "meta": {"kind": "parmap", "k": k, "cap": cap}}

def load_factor(rng):
    r = rng.random()
    if r < 0.25:
        return Fraction(96, 128)
    if r < 0.4:
        return Fraction(rng.choice([2, 3, 4, 8]), 128)
    if r < 0.5:
        return Fraction(rng.choice([128, 256, 384, 512]), 128)
    return Fraction(rng.randrange(2, 513), 128)

def capacity(rng):
    r = rng.random()
    if INCLUDE_CAP0 and r < 0.02:
        return 0
    if r < 0.3:
        return rng.choice([1, 2, 4, 8, 16, 32, 64])
    return rng.randint(1, 64)

def case_edgeindex(g, rng, tier):
    n = rng.randint(3, 18)
    t1 = rand_tree(g, rng, n, lenmode="all")
    t2, how = second_tree(g, rng, t1)
    ne = [n_edges(t1), n_edges(t2)]
    ops = []
    for _ in range(rng.randint(5, 120)):
        ti = rng.randrange(2)
        ei = rng.randrange(ne[ti])
        r = rng.random()
        if r < 0.3:
            ops.append([Sym("put"), ti, ei, rng.choice([0, 1, 1, 2, 3, 5, -1, 100]), Fraction(rng.randrange(0, 257), 64)])
        elif r < 0.65:
            ops.append([Sym("add"), ti, ei])
        else:
            ops.append([Sym("val"), ti, ei])
    cap = capacity(rng)
    lf = load_factor(rng)
    mn = rng.choice([0, 0, 1, 2, -1, 3])
    mx = rng.choice([1, 2, 3, 5, 100, 1000, 0])
    return {"sx": sx({"kind": Sym("edgeindex"), "t1": T(t1), "t2": T(t2), "cap": cap, "lf": lf, "min": mn, "max": mx, "ops": ops}),
            "meta": {"kind": "edgeindex", "how": how, "cap": "0" if cap == 0 else ("pow2" if cap & (cap - 1) == 0 else "other"),
                     "lf": "<0.1" if lf < Fraction(1, 10) else ("<1" if lf < 1 else ">=1")}}

def map_ops(rng, nkeys, lo=5, hi=150):
    ops = []
    for _ in range(rng.randint(lo, hi)):
        k = rng.randrange(nkeys)
        if rng.random() < 0.5:
            ops.append([Sym("put"), k, rng.randrange(-5, 1000)])
        else:
            ops.append([Sym("val"), k])
    return ops

def case_hashmap(g, rng, tier):
    nclass = rng.randint(1, 40)
    style = rng.random()
    hashes = []
    for c in range(nclass):
        if style < 0.25:
            h = rng.randrange(0, 2 ** 64)
        elif style < 0.45:
            h = rng.randrange(0, 8)                               # heavy collisions
        elif style < 0.65:
            h = 64 * rng.randrange(0, 2 ** 20)                    # low bits all zero
        elif style < 0.8:
            h = rng.choice([2 ** 64 - 1, 2 ** 63, 2 ** 63 - 1, 2 ** 64 - 64, 0, 1]) - 0
        else:
            h = rng.choice([rng.randrange(0, 2 ** 64), rng.randrange(0, 300), 2 ** 63 + rng.randrange(0, 100)])
        hashes.append(h)
    keys = []
    for c in range(nclass):
        for _ in range(rng.choice([1, 1, 2, 3])):
            keys.append([hashes[c], c])
    rng.shuffle(keys)
    cap = capacity(rng)
    lf = load_factor(rng)
    return {"sx": sx({"kind": Sym("hashmap"), "cap": cap, "lf": lf, "keys": keys, "ops": map_ops(rng, len(keys))}),
            "meta": {"kind": "hashmap", "cap": "0" if cap == 0 else ("pow2" if cap & (cap - 1) == 0 else "other"),
                     "lf": "<0.1" if lf < Fraction(1, 10) else ("<1" if lf < 1 else ">=1")}}

PERMS = list(permutations(range(4)))

def case_qmap(g, rng, tier):
    pool = rng.sample(range(0, 12), rng.randint(4, 6))
    keys = []
    for _ in range(rng.randint(2, 12)):
        q = rng.sample(pool, 4)
        for _ in range(rng.choice([1, 2, 3])):
            p = rng.choice(PERMS)
            keys.append([q[p[0]], q[p[1]], q[p[2]], q[p[3]]])
    rng.shuffle(keys)
    cap = rng.randint(1, 64)
    lf = load_factor(rng)
    return {"sx": sx({"kind": Sym("qmap"), "cap": cap, "lf": lf, "keys": keys, "ops": map_ops(rng, len(keys), 5, 60)}),
            "meta": {"kind": "qmap"}}

def case_quartet(g, rng, tier, small=None):
    r = rng.random()
    if small is not None:
        a, b = small
    elif r < 0.5:
        a = rng.sample(range(0, 10), 4)
        b = list(a)
    elif r < 0.8:
        a = rng.sample(range(0, 8), 4)
        b = rng.sample(range(0, 8), 4)
    elif r < 0.9:
        a = [rng.randrange(0, 4) for _ in range(4)]              # degenerate: repeated taxa (correspondence only)
        b = [rng.randrange(0, 4) for _ in range(4)]
    else:
        big = [2 ** 63, 2 ** 64 - 1, 2 ** 63 - 1, 0, 1, 2 ** 63 + 5]
        a = rng.sample(big, 4)
        b = list(a)
    qs1 = [[a[p[0]], a[p[1]], a[p[2]], a[p[3]]] for p in PERMS]
    qs2 = [[b[p[0]], b[p[1]], b[p[2]], b[p[3]]] for p in PERMS]
    return {"sx": sx({"kind": Sym("quartet"), "qs1": qs1, "qs2": qs2}),
            "meta": {"kind": "quartet", "same": sorted(a) == sorted(b)}}

def gen(rng, tier):
    g = Gen(rng)
    counts = {"quick":    {"index": 80, "edit": 85, "handbuilt": 35, "indexseq": 70, "samebip": 35, "edgeindex": 60, "hashmap": 50, "parmap": 10,
                           "qmap": 20, "quartet": 10},
              "thorough": {"index": 2500, "edit": 2500, "handbuilt": 800, "indexseq": 1500, "samebip": 900, "edgeindex": 1500, "hashmap": 1500,
                           "parmap": 150, "qmap": 300, "quartet": 150},
              "search":   {"index": 100, "edit": 100, "handbuilt": 60, "indexseq": 80, "samebip": 50, "edgeindex": 80, "hashmap": 80, "parmap": 20,
                           "qmap": 20, "quartet": 10}}[tier]
    def edit_any(g, rng, tier):
        return case_edit_removetips(g, rng, tier) if rng.random() < 0.3 else case_edit(g, rng, tier)
    makers = {"index": case_index, "edit": edit_any, "handbuilt": case_handbuilt, "indexseq": case_indexseq, "parmap": case_parmap, "samebip": case_samebip, "edgeindex": case_edgeindex, "hashmap": case_hashmap,
              "qmap": case_qmap, "quartet": case_quartet}
    out = []
    # the smallest quartet pairs first: taxa {0,1,2,3} against itself
    out.append(case_quartet(g, rng, tier, small=([0, 1, 2, 3], [0, 1, 2, 3])))
    # RemoveTips dissolving the root of an unrooted tree whose first remaining neighbour is a tip
    for rm in ("A", "B"):
        for order in (["A", "B", "X"], ["X", "A", "B"], ["A", "X", "B"]):
            for reinit in (False, True):
                clade = [["C", "D"], ["E", ["F", "G"]]]
                t = g.decorate([clade if x == "X" else x for x in order], lenmode="all", supmode="mixed")
                c = {"kind": Sym("edit"), "tree": T(t), "op": Sym("removetips"), "seed": 1, "revert": False,
                     "names": [rm], "reinit": reinit}
                out.append({"sx": sx(c), "meta": {"kind": "edit", "op": "removetips:witness", "reinit": reinit}})
    # degree boundaries, as there are word-size boundaries: big nodes as root and not, re-rooted off them
    nb = {"quick": 12, "thorough": 300, "search": 20}[tier]
    for _ in range(nb):
        out.append(case_bigdeg_index(g, rng, tier))
    for _ in range(nb // 2):
        out.append(case_bigdeg_samebip(g, rng, tier))
    for kind, n in counts.items():
        for _ in range(n):
            out.append(makers[kind](g, rng, tier))
    return out
