"""C15: local edits leave the rest of the tree intact; copies are independent."""
from lib import *
import copy as _copy

TINY = [Fraction(1, 2**27), Fraction(1, 2**30), Fraction(1, 2**40), Fraction(3, 2**35)]

def tinyfy(rng, t, p=0.3):
    """replace some of the present branch lengths by tiny dyadic ones (exact in binary64: the model's rationals still agree exactly)"""
    import copy as _c
    t = _c.deepcopy(t)
    for x in preorder(t):
        for e, _ch in kids(x):
            if e["len"] is not None and rng.random() < p:
                e["len"] = rng.choice(TINY)
    return t

PROP = "C15"
PAR_OK = True
LEVEL = "proof"
RULE = ("random multifurcating trees (3..14 tips, 20 in thorough; rooted/unrooted; parent slot at random positions; lengths "
        "all/mixed/none with zeros and, in 30% of the trees, tiny dyadic lengths 2^-27 2^-30 2^-40 3*2^-35 (in half of the insert cases on "
        "the branches of the model tips); supports; named inner nodes; node and branch comments) x "
        "clone x 12 edits (rename, length, support, comment, clear all / branch / node comments then add new ones, every mutable field "
        "of every node and branch, writes through the existing comment slices, removetip, reroot, graft, ReinitIndexes alone, ShuffleTips, "
        "swap of two tip names + ReinitIndexes, reroot + ReinitIndexes) applied to the copy then, on a "
        "fresh pair, to the original, the source indexed (ReinitIndexes) before the copy in 85% of the cases; besides the dump and the "
        "text, the twin's index state (per branch bitset bits, tip counts, hash code; per tip its id) is re-read after the edit and must "
        "be unchanged and be the index of the twin's own tree (SameBipartition against an independently built and indexed tree); subtree at every node index (inner nodes and tips) x edit; "
        "merge of two rooted trees on disjoint tips, plus unrooted / overlapping / no-index pairs (refusals); graft of a second "
        "tree (rooted or not) on every tip, grafts that re-use the name of the replaced tip (legal) or of another tip of the reference "
        "(correspondence only), plus absent tip / no index / overlapping names; insert identical tips: groups with "
        "one existing member and 1..3 new names on tip branches of length zero / positive / absent, chained groups (a group anchored "
        "on a tip added by an earlier group of the same call, depth 2..3), plus groups with none or two "
        "existing members, empty groups, repeated new names, names inserted by an earlier group, no index; remove single nodes: "
        "1..4 single-child nodes inserted on random branches including chains and branches at the root, every combination of "
        "present/absent length above and below, with and without indexes.  non-trivial = the result differs from the input (for "
        "copies: the edit changed the edited tree); distinct = distinct case text")
TRUSTED = ["tree built through NewNode/NewEdge + verif hooks (exact neighbour order); dump through Neigh()/Edges()/Left()/Right()",
           "the twin's dump and Newick text are re-taken by the worker after the edit of the other tree"]
ASSUMPTIONS = ["tip names are unique inside a tree (UpdateTipIndex refuses duplicates), so addressing tips by name in the model is exact",
               "independence of copies (aliasing) cannot be stated on the functional model: it is decided by the run-time comparison only"]
LEVEL_TEXT = "theorems in coq/Properties/C15.v about Model/LocalEdit.v; correspondence by exact structural equality with the Go result"
LEVEL_NOTE = ("the clone and remove-single clauses were false of the code as first read (CopyEdge did not copy branch comments; "
              "removeSingleNodesRecur added the two lengths only when both were present): fixed in /repo, the model follows the "
              "fixed code.  Clone rebuilds every node with its parent as first neighbour: 'exact copy' is judged up to the position of the parent "
              "in the neighbour arrays (same children in the same order, same data, same text)")

def _msg(case):
    f = case.get("fields") or []
    return f[0] if f else ""

def _tree_of(case, key):
    try:
        return sx_to_tree(alist(parse_sexp(case["sx"]))[key])
    except Exception:
        return None

def _has_branch_comment(t):
    return t is not None and any(e["coms"] for x in preorder(t) for e, _ in kids(x))

# Two defects found by this check are fixed in /repo (cc479d4 Clone dropped branch comments; d289b7c RemoveSingleNodes
# lost the length above a single-child node when the branch below had none): no open finding, no matcher.
MATCHERS = {}

EDITS = ["rename", "length", "support", "comment", "clearcomments", "removetip", "reroot", "graft",
         "clearedgecomments", "clearnodecomments", "allfields", "overwritecomments",
         "reindex", "shuffle", "swapreindex", "rerootreindex"]
INDEX_EDITS = ["reindex", "shuffle", "swapreindex", "rerootreindex", "reroot", "removetip"]
COMMENT_EDITS = ["clearcomments", "clearedgecomments", "clearnodecomments", "allfields", "overwritecomments", "comment"]

def enrich_comments(rng, t):
    """node and branch comments on about half of the nodes and branches (1..3 each)"""
    t = _copy.deepcopy(t)
    pool = ["c", "&x=1", "a b", "k:v", "z,w", "(p)", "q;r", "ec", "&e=2", "x y"]
    for x in preorder(t):
        if rng.random() < 0.5:
            x["coms"] = [rng.choice(pool) for _ in range(rng.randint(1, 3))]
        for e, _c in kids(x):
            if rng.random() < 0.5:
                e["coms"] = [rng.choice(pool) for _ in range(rng.randint(1, 3))]
    return t

def rand_tree(g, rng, tier, prefix="t", lo=3, hi=None, rooted=None, comments=None, inner_names=None, ntips=None):
    t = rand_tree0(g, rng, tier, prefix, lo, hi, rooted, comments, inner_names, ntips)
    return tinyfy(rng, t) if rng.random() < 0.3 else t

def rand_tree0(g, rng, tier, prefix="t", lo=3, hi=None, rooted=None, comments=None, inner_names=None, ntips=None):
    hi = hi or (14 if tier != "thorough" else 20)
    return g.tree(ntips=ntips, lo=lo, hi=hi, maxdeg=5, prefix=prefix, rooted=rooted,
                  lenmode=rng.choice(["all", "all", "mixed", "mixed", "none"]),
                  supmode=rng.choice(["mixed", "mixed", "all", "none"]),
                  inner_names=(rng.random() < 0.25) if inner_names is None else inner_names,
                  comments=(rng.random() < 0.3) if comments is None else comments,
                  up_random=rng.random() < 0.5)

def add_singles(g, rng, t, k):
    """insert k single-child nodes on random branches (chains arise when a branch is chosen again)"""
    t = _copy.deepcopy(t)
    for _ in range(k):
        parents = [x for x in preorder(t) if kids(x)]
        r = rng.random()
        if r < 0.3:
            x = t                                   # next to the root
        elif r < 0.5:
            singles = [y for y in parents if y is not t and len(y["slots"]) == 2]
            x = rng.choice(singles) if singles else rng.choice(parents)   # chain
        else:
            x = rng.choice(parents)
        idxs = [i for i, s in enumerate(x["slots"]) if s is not None]
        i = rng.choice(idxs)
        e, c = x["slots"][i]
        def ln():
            r = rng.random()
            return None if r < 0.35 else (Fraction(0) if r < 0.45 else g.dyadic(256, 64))
        e1 = {"len": ln(), "sup": g.support("mixed") if rng.random() < 0.5 else None, "pv": None,
              "coms": ["up"] if rng.random() < 0.1 else []}
        e2 = {"len": ln(), "sup": e["sup"], "pv": e["pv"], "coms": e["coms"]}
        slots = [None, (e2, c)]
        if rng.random() < 0.5:
            slots.reverse()
        s = {"name": rng.choice(["", "", "S%d" % rng.randrange(1000)]), "coms": ["sc"] if rng.random() < 0.1 else [], "slots": slots}
        x["slots"][i] = (e1, s)
    return t

def degree_one_root(g, rng, t):
    """put a root with a single neighbour above t (outside the oracle's domain: correspondence only)"""
    sub = {"name": t["name"], "coms": t["coms"], "slots": list(t["slots"])}
    sub["slots"].insert(rng.randrange(0, len(sub["slots"]) + 1), None)
    e = {"len": g.length("mixed"), "sup": g.support("mixed"), "pv": None, "coms": []}
    return {"name": rng.choice(["r", "rr"]), "coms": [], "slots": [(e, sub)]}

def gen(rng, tier):
    g = Gen(rng)
    out = []
    def add(d, **meta):
        out.append({"sx": sx(d), "meta": meta})
    # ---- trees whose root has a single neighbour (the root is then a tip for the code)
    for _ in range({"quick": 12, "thorough": 150, "search": 10}[tier]):
        t = degree_one_root(g, rng, rand_tree(g, rng, tier, hi=8))
        ed = rng.choice(EDITS)
        add({"op": Sym("clone"), "tree": T(t), "edit": Sym(ed), "reinit": rng.random() < 0.5}, op="clone", edit=ed, root1=True)
        add({"op": Sym("subtree"), "tree": T(t), "i": rng.randrange(n_nodes(t)), "edit": Sym(ed), "reinit": rng.random() < 0.5},
            op="subtree", edit=ed, root1=True)
        # SubTree at the single-child root itself (a tip for the code), and at single-child inner nodes
        add({"op": Sym("subtree"), "tree": T(t), "i": 0, "edit": Sym(rng.choice(EDITS)), "reinit": rng.random() < 0.5},
            op="subtree", edit="at-root1", root1=True)
        ts = add_singles(g, rng, rand_tree(g, rng, tier, hi=8), rng.randint(1, 3))
        for i, x in enumerate(preorder(ts)):
            if i > 0 and len(x["slots"]) == 2 and len(kids(x)) == 1:
                add({"op": Sym("subtree"), "tree": T(ts), "i": i, "edit": Sym(rng.choice(EDITS)), "reinit": rng.random() < 0.5},
                    op="subtree", edit="at-single-inner")
                # ... and the extracted subtree (its root has a single neighbour) re-extracted at its own root
                sub = {"name": x["name"], "coms": x["coms"], "slots": [s0 for s0 in x["slots"] if s0 is not None]}
                add({"op": Sym("subtree"), "tree": T(sub), "i": 0, "edit": Sym(rng.choice(EDITS)), "reinit": rng.random() < 0.5},
                    op="subtree", edit="re-extracted-root1", root1=True)
        add({"op": Sym("rmsingle"), "tree": T(add_singles(g, rng, t, rng.randint(0, 2))), "idx": rng.random() < 0.5}, op="rmsingle", root1=True)
        gr = rand_tree(g, rng, tier, prefix="g", lo=2, hi=4)
        for tip in [t["name"], rng.choice(leaves(t))]:
            add({"op": Sym("graft"), "tree": T(t), "graft": T(gr), "tip": tip, "idx": True}, op="graft", root1=True)
        for old in [t["name"], rng.choice(leaves(t))]:
            add({"op": Sym("insert"), "tree": T(t), "groups": [[old, "n0"]], "idx": True}, op="insert", root1=True)
    N = {"quick": 60, "thorough": 400, "search": 120}[tier]
    # ---- clone
    for k in range(N):
        t = rand_tree(g, rng, tier, comments=rng.random() < 0.6)
        if rng.random() < 0.2:
            t = add_singles(g, rng, t, rng.randint(1, 2))
        rich = k % 2 == 0
        if rich:
            t = enrich_comments(rng, t)
        hasbc = _has_branch_comment(t)
        eds = rng.sample(EDITS, 3)
        if rich:
            eds = list(dict.fromkeys(eds + COMMENT_EDITS))
        else:
            eds = list(dict.fromkeys(eds + INDEX_EDITS))
        for ed in eds:
            add({"op": Sym("clone"), "tree": T(t), "edit": Sym(ed), "reinit": rng.random() < 0.85},
                op="clone", edit=ed, branch_comments=hasbc, ntips=len(leaves(t)))
    # ---- subtree
    for k in range(N):
        t = rand_tree(g, rng, tier)
        if k % 2 == 0:
            t = enrich_comments(rng, t)
        nn = n_nodes(t)
        nodes = list(preorder(t))
        inner = [i for i, x in enumerate(nodes) if kids(x)]
        tipsi = [i for i, x in enumerate(nodes) if not kids(x)]
        pick = inner if tier != "search" else rng.sample(inner, min(3, len(inner)))
        pick = pick + rng.sample(tipsi, 1)
        for i in pick:
            ed = rng.choice(COMMENT_EDITS if (k % 2 == 0 and rng.random() < 0.7) else (INDEX_EDITS if rng.random() < 0.6 else EDITS))
            add({"op": Sym("subtree"), "tree": T(t), "i": i, "edit": Sym(ed), "reinit": rng.random() < 0.85},
                op="subtree", edit=ed, at=("root" if i == 0 else ("inner" if kids(nodes[i]) else "tip")), ntips=len(leaves(t)))
    # ---- merge
    for _ in range(N * 2):
        r = rng.random()
        kind = "ok"
        t1 = rand_tree(g, rng, tier, prefix="a", lo=2, rooted=True)
        t2 = rand_tree(g, rng, tier, prefix="b", lo=2, rooted=True)
        idx = True
        if r < 0.10:
            t1 = rand_tree(g, rng, tier, prefix="a", rooted=False); kind = "unrooted1"
        elif r < 0.20:
            t2 = rand_tree(g, rng, tier, prefix="b", rooted=False); kind = "unrooted2"
        elif r < 0.30:
            t2 = rand_tree(g, rng, tier, prefix="a", lo=2, rooted=True); kind = "overlap"
        elif r < 0.36:
            idx = False; kind = "noindex"
        add({"op": Sym("merge"), "t1": T(t1), "t2": T(t2), "idx": idx}, op="merge", kind=kind)
    # ---- graft
    for _ in range(N):
        t = rand_tree(g, rng, tier)
        gr = rand_tree(g, rng, tier, prefix="g", lo=2, hi=6)
        tips = leaves(t)
        pick = tips if (tier != "search" and len(tips) <= 8) else rng.sample(tips, min(4, len(tips)))
        for tip in pick:
            add({"op": Sym("graft"), "tree": T(t), "graft": T(gr), "tip": tip, "idx": True}, op="graft", kind="ok",
                graft_rooted=len(gr["slots"]) == 2)
        # the grafted tree legally re-uses the name of the tip it replaces (still in the reference's index at that time)
        for tip in rng.sample(tips, min(2, len(tips))):
            gr3 = _copy.deepcopy(gr)
            rng.choice([x for x in preorder(gr3) if not kids(x)])["name"] = tip
            add({"op": Sym("graft"), "tree": T(t), "graft": T(gr3), "tip": tip, "idx": True}, op="graft", kind="reuse-replaced-name",
                graft_rooted=len(gr3["slots"]) == 2)
        if len(tips) >= 2 and rng.random() < 0.5:
            # ... or the name of ANOTHER tip of the reference: outside the property's quantifier, judged by correspondence
            tip, other = rng.sample(tips, 2)
            gr4 = _copy.deepcopy(gr)
            rng.choice([x for x in preorder(gr4) if not kids(x)])["name"] = other
            add({"op": Sym("graft"), "tree": T(t), "graft": T(gr4), "tip": tip, "idx": True}, op="graft", kind="reuse-other-name")
        r = rng.random()
        if r < 0.2:
            add({"op": Sym("graft"), "tree": T(t), "graft": T(gr), "tip": "nope", "idx": True}, op="graft", kind="absent")
        elif r < 0.35:
            add({"op": Sym("graft"), "tree": T(t), "graft": T(gr), "tip": tips[0], "idx": False}, op="graft", kind="noindex")
        elif r < 0.5:
            gr2 = rand_tree(g, rng, tier, prefix="t", lo=2, hi=4)
            add({"op": Sym("graft"), "tree": T(t), "graft": T(gr2), "tip": rng.choice(tips), "idx": True}, op="graft", kind="overlap")
        elif r < 0.6:
            inner = [x["name"] for x in preorder(t) if kids(x) and x["name"]]
            if inner:
                add({"op": Sym("graft"), "tree": T(t), "graft": T(gr), "tip": inner[0], "idx": True}, op="graft", kind="innername")
    # ---- insert identical tips
    for _ in range(N * 3):
        t = rand_tree(g, rng, tier)
        tips = leaves(t)
        k = rng.randint(1, min(4, len(tips)))
        olds = rng.sample(tips, k)
        if rng.random() < 0.5:
            # the model tips sit on tiny (non-zero) branches: the minimum lengths tree builders print
            t = _copy.deepcopy(t)
            for x in preorder(t):
                for e, c in kids(x):
                    if not kids(c) and c["name"] in olds and rng.random() < 0.7:
                        e["len"] = rng.choice(TINY)
        groups = []
        cnt = 0
        for o in olds:
            news = ["n%d" % (cnt + j) for j in range(rng.choice([1, 1, 2, 3]))]
            cnt += len(news)
            grp = [o] + news
            rng.shuffle(grp)
            groups.append(grp)
        kind = "ok"
        idx = True
        r = rng.random()
        if r < 0.20:
            # chained groups: a later group is anchored on a tip that an earlier group adds (depth 2..3)
            depth = rng.choice([2, 2, 3])
            gi = rng.randrange(len(groups))
            anchor = rng.choice([x for x in groups[gi] if x.startswith("n")])
            pos = gi + 1
            for dpt in range(depth - 1):
                news = ["m%d_%d" % (dpt, j) for j in range(rng.choice([1, 1, 2]))]
                grp = [anchor] + news
                rng.shuffle(grp)
                pos = rng.randrange(pos, len(groups) + 1)
                groups.insert(pos, grp)
                pos += 1
                anchor = rng.choice(news)
            kind = "chained%d" % depth
            r = 1.0
        elif r < 0.50:
            r = (r - 0.20) / 0.30 * 0.36      # the refusal / special kinds below, same mix as before
        else:
            r = 1.0
        if r < 0.05:
            groups[rng.randrange(len(groups))].append(rng.choice([x for x in tips if x not in olds] or tips)); kind = "two-existing"
        elif r < 0.10:
            groups.insert(rng.randrange(len(groups) + 1), ["q1", "q2"]); kind = "no-existing"
        elif r < 0.14:
            groups.insert(rng.randrange(len(groups) + 1), []); kind = "empty-group"
        elif r < 0.19:
            gi = rng.randrange(len(groups)); groups[gi].append([x for x in groups[gi] if x.startswith("n")][0]); kind = "repeated-new"
        elif r < 0.24 and len(groups) >= 2:
            groups[-1].append([x for x in groups[0] if x.startswith("n")][0]); kind = "new-from-earlier-group"
        elif r < 0.28:
            idx = False; kind = "noindex"
        elif r < 0.32:
            groups.append([olds[0]]); kind = "only-existing"
        elif r < 0.36:
            inner = [x["name"] for x in preorder(t) if kids(x) and x["name"]]
            if inner:
                groups[0].append(inner[0]); kind = "new-is-inner-name"
        add({"op": Sym("insert"), "tree": T(t), "groups": groups, "idx": idx}, op="insert", kind=kind, ngroups=len(groups))
    # ---- remove single nodes
    for _ in range(N * 4):
        t = rand_tree(g, rng, tier, lo=2)
        k = rng.choice([0, 1, 1, 2, 2, 3, 4])
        t2 = add_singles(g, rng, t, k)
        add({"op": Sym("rmsingle"), "tree": T(t2), "idx": rng.random() < 0.5}, op="rmsingle", singles=k)
    return out
