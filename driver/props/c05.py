"""C05: re-rooting, unrooting and reordering never change the tree itself."""
from lib import *

PROP = "C05"
PAR_OK = True
LEVEL = "proof"
RULE = ("random multifurcating trees (3..14 tips, rooted/unrooted, parent slot at random positions as after earlier "
        "re-rootings, lengths present/zero), every op of {reroot at each pre-order node index incl. tips and out of range, "
        "unroot, rotate with a recorded rand stream, sort}; "
        "outgroup / midpoint: trees with a length on every branch (3..12 tips, root with >= 2 neighbours, rooted/unrooted/"
        "multifurcating, parent slots anywhere; length styles: random with zeros, half zero, all zero, all equal (ties), "
        "small integers (ties), a few with missing lengths or duplicated node names for the refusals; plus the rooted two-tip "
        "tree with present/zero/missing lengths), midpoint once per tree, "
        "outgroups = clade / complement of a clade / single tip / all but one tip / several-but-not-all children of a "
        "multifurcation / random subset / with absent names, inner-node names and repeated names / only absent names / "
        "all tips / empty list, x remove x strict; plus, with remove, an outgroup containing the node the tree hangs from "
        "(complement of a clade on unrooted trees, first inner root child on rooted trees); the observation includes the "
        "tip-name index, ExistsTip/TipIndex of every tip and the bitset width of every branch after reroot/unroot/outgroup/"
        "midpoint; thorough tier adds every tip subset of trees with <= 6 tips; "
        "(r3) one outgroup list (absent names at every position, repeats) applied in a loop to 2-4 trees, each result "
        "judged on its own and the list required to come back unchanged; outgroup after a public edit that leaves the "
        "tip-name index stale (Node.SetName, GraftTipOnEdge) naming the new tip; midpoint on trees with negative lengths "
        "(outside the quantifier: correspondence only); "
        "(r4) hand-built trees: the tree assembled with NewNode/ConnectNodes only (harness BuildTreeAPI), each branch "
        "connected parent->child or child->parent (flips: none / all / random / one deep branch below correct ones), then "
        "Reroot at the root itself / an inner node / any node, ReinitIndexes, judged as `reroot` (model + audit + index state); "
        "the command line: gotree reroot outgroup -i FILE [-r] [--strict] names... and gotree reroot midpoint -i FILE on "
        "files of 2-4 trees over the same or different tip sets (a name absent from the first tree and present later, absent "
        "names at every position), each printed tree parsed and judged by the oracle against its own input tree (oracle "
        "only: text output carries no neighbour order; a refusal ends the file and the trees printed before it are judged); "
        "(r5) midpoint on small trees (5..9 tips) where most branches are zero: 50-80% zero at random / everything zero but "
        "one or two clades (the root inside the zero region, zero inner branches next to it) / random with whole zero "
        "subtrees and zero inner root branches / zero cherries; thorough tier adds every labelled shape with 4-5 tips x "
        "every {0,1,2} (4 tips) or {0,1} (5 tips) length pattern with at least half of the branches zero; rooted trees "
        "whose two root branches carry support x support in {absent, 0, 1/64, 1, 5} (root children inner/inner, one in "
        "five inner/tip) and lengths in {absent, 0, 1, 5/2}, for unroot, midpoint and outgroups; "
        "UnRoot's merge rule for the two root branches (l1,s1),(l2,s2): length absent when both are absent, else "
        "max(0,l1)+max(0,l2); support absent when a root child is a tip or both are absent, else max(max(0,s1),max(0,s2)) "
        "(absent counts as 0, a negative value is clamped to 0): negative supports are outside the quantifier (a support "
        "is a non-negative number) and are exercised for the correspondence only (supports in {-2,-1/2,-1/64,absent,0,1/2}^2 "
        "on the root branches + one negative inner support; reduced oracle = well-formed, same tips, audit, index); "
        "the shape of the r5 seed deterministically: (((D:a,E:b):c,(F:0,G:0):0):0,A:0,B:0) hung from each inner node of its "
        "zero region and from a two-child root on each zero branch x every child order of every node (336 arrangements, "
        "parent slot random, (a,b,c) cycling over 6 triples; thorough: 12 per arrangement); "
        "a case is non-trivial when the operation changed the structure; distinct = distinct case text")
TRUSTED = ["tree built through NewNode/NewEdge + verif hooks (exact neighbour order); dump through Neigh()/Edges()/Left()/Right()"]
ASSUMPTIONS = ["math/rand: Intn/Int31n transcribed in Model/Rand.v; the recorded Int63 stream is what the code under test consumes"]

# ---------------------------------------------------------------- helpers on node dicts

def all_edges(t):
    for e, c in kids(t):
        yield e, c
        yield from all_edges(c)

def inner_clades(t):
    """leaf sets below every non-root node that is not a tip"""
    out = []
    for e, c in all_edges(t):
        if kids(c):
            out.append(leaves(c))
    return out

def multifurcations(t, top=True):
    """lists of child leaf sets of every node seen as unrooted: a node's neighbours are its children + (the rest)"""
    out = []
    allv = leaves(t)
    def rec(n, is_root):
        ch = [leaves(c) for _, c in kids(n)]
        if not is_root and ch:
            below = [x for l in ch for x in l]
            ch = ch + [[x for x in allv if x not in below]]
        if len(ch) >= 4:
            out.append(ch)
        for _, c in kids(n):
            rec(c, False)
    rec(t, True)
    return out

def restyle(rng, t, style):
    """rewrite the branch lengths of a tree in place"""
    for e, c in all_edges(t):
        if style == "halfzero":
            e["len"] = Fraction(0) if rng.random() < 0.5 else Fraction(rng.randrange(1, 129), 64)
        elif style == "allzero":
            e["len"] = Fraction(0)
        elif style == "equal":
            e["len"] = Fraction(1)
        elif style == "smallint":
            e["len"] = Fraction(rng.randrange(0, 3))
        elif style == "tipszero":
            e["len"] = Fraction(0) if not kids(c) and rng.random() < 0.8 else Fraction(rng.randrange(0, 4), 2)
    if style == "single":
        # a node with a single child (two neighbours) in the middle of a random branch
        par = rng.choice([x for x in preorder(t) if kids(x)])
        i = rng.choice([i for i, s in enumerate(par["slots"]) if s is not None])
        e, c = par["slots"][i]
        e2 = {"len": Fraction(rng.randrange(0, 65), 64), "sup": None, "pv": None, "coms": []}
        mid = {"name": "", "coms": [], "slots": [None, (e2, c)] if rng.random() < 0.5 else [(e2, c), None]}
        par["slots"][i] = (e, mid)
    return t

def outgroups(rng, t, tier):
    """(kind, names) pairs"""
    L = leaves(t)
    n = len(L)
    out = []
    cl = inner_clades(t)
    if cl:
        c = rng.choice(cl)
        out.append(("clade", list(c)))
        c = rng.choice(cl)
        out.append(("coclade", [x for x in L if x not in c]))
    a = rng.choice(L)
    out.append(("tip", [a]))
    a = rng.choice(L)
    out.append(("cotip", [x for x in L if x != a]))
    mf = multifurcations(t)
    if mf:
        ch = rng.choice(mf)
        k = rng.randrange(2, len(ch) - 1)
        sel = rng.sample(ch, k)
        out.append(("multi", [x for l in sel for x in l]))
    k = rng.randrange(2, n) if n > 2 else 1
    out.append(("subset", rng.sample(L, k)))
    # decorated variants
    base = rng.choice(out)[1]
    inner = [x["name"] for x in preorder(t) if x["name"] and kids(x)]
    extra = ["zz%d" % rng.randrange(3)] + ([rng.choice(inner)] if inner and rng.random() < 0.5 else [])
    if rng.random() < 0.5:
        extra.append(rng.choice(base))
    dec = list(base) + extra
    rng.shuffle(dec)
    out.append(("decorated", dec))
    r = rng.random()
    if r < 0.25:
        out.append(("absent", ["zz1", "zz2"] + ([rng.choice(inner)] if inner else [])))
    elif r < 0.5:
        out.append(("all", list(L)))
    elif r < 0.65:
        out.append(("empty", []))
    return out

def root_cases(rng, t, style, tier, exhaustive=False):
    L = leaves(t)
    rooted = len(t["slots"]) == 2
    meta = {"ntips": len(L), "rooted": rooted, "lens": style}
    out = [({"op": Sym("midpoint"), "tree": T(t)}, dict(meta, op="midpoint"))]
    if exhaustive:
        from itertools import combinations
        og = [("exh", list(c)) for k in range(1, len(L) + 1) for c in combinations(L, k)]
        flags = [(r, s) for r in (False, True) for s in (False, True)]
    else:
        og = outgroups(rng, t, tier)
        flags = None
    for kind, names in og:
        for remove, strict in (flags or [(rng.random() < 0.3, rng.random() < 0.4)]):
            out.append(({"op": Sym("outgroup"), "tree": T(t), "names": list(names), "remove": remove, "strict": strict},
                        dict(meta, op="outgroup", og=kind, remove=remove, strict=strict)))
    if not exhaustive:
        # removal of an outgroup that contains the node the tree hangs from (the old root is among the deleted nodes):
        # complement of a clade on an unrooted tree, the first inner root child (and what contains it) on a rooted tree
        forced = []
        cl = inner_clades(t)
        if cl:
            c = rng.choice(cl)
            forced.append(("coclade-rm", [x for x in L if x not in c]))
        if rooted:
            inner = [c for _, c in kids(t) if kids(c)]
            if inner:
                forced.append(("rootchild-rm", leaves(inner[0])))
        for kind, names in forced:
            if 0 < len(names) < len(L):
                strict = rng.random() < 0.5
                out.append(({"op": Sym("outgroup"), "tree": T(t), "names": list(names), "remove": True, "strict": strict},
                            dict(meta, op="outgroup", og=kind, remove=True, strict=strict)))
    return out

STYLES = ["random", "random", "random", "halfzero", "halfzero", "tipszero", "allzero", "equal", "smallint", "smallint", "missing", "dupnames", "single"]

def root_trees(rng, g, n, hi):
    for i in range(n):
        style = STYLES[i % len(STYLES)] if i < 2 * len(STYLES) else rng.choice(STYLES)
        t = g.tree(lo=3, hi=hi, maxdeg=5, lenmode="mixed" if style == "missing" else "all",
                   supmode="mixed", inner_names=rng.random() < 0.3 or style == "dupnames", comments=rng.random() < 0.2,
                   up_random=rng.random() < 0.6)
        if style not in ("random", "missing", "dupnames"):
            restyle(rng, t, style)
        if style == "dupnames":
            inner = [x for x in preorder(t) if kids(x)]
            x = rng.choice(inner)
            r = rng.random()
            if r < 0.5:
                x["name"] = rng.choice(leaves(t))          # an inner node named like a tip
            elif len(inner) > 1:
                y = rng.choice([z for z in inner if z is not x])
                x["name"] = y["name"] = "dup"               # two inner nodes with the same name
        yield t, style

def subtree_edges(c):
    return list(all_edges(c))

def zero_heavy(rng, g, i):
    """small tree, every branch with a length, most of them zero"""
    style = ["pzero", "island", "island", "zsub", "cherry", "island2", "island", "zsub"][i % 8]
    t = g.tree(lo=5, hi=9, maxdeg=4, lenmode="all", supmode="mixed", up_random=rng.random() < 0.6)
    def pos():
        return rng.choice([Fraction(1, 2), Fraction(1), Fraction(1), Fraction(2), Fraction(3), Fraction(rng.randrange(1, 257), 64)])
    E = list(all_edges(t))
    if style == "pzero":
        p = rng.choice([0.5, 0.6, 0.7, 0.8])
        for e, c in E:
            e["len"] = Fraction(0) if rng.random() < p else pos()
    elif style in ("island", "island2"):
        # everything zero but one (two) clades: the root of the structure lies inside the zero region
        for e, c in E:
            e["len"] = Fraction(0)
        cand = [(e, c) for e, c in E if kids(c)] or E
        for e, c in rng.sample(cand, min(len(cand), 1 if style == "island" else 2)):
            if rng.random() < 0.8:
                e["len"] = pos()
            for e2, _ in subtree_edges(c):
                if rng.random() < 0.75:
                    e2["len"] = pos()
        if rng.random() < 0.3:
            e, _ = rng.choice(E)
            e["len"] = pos()
    elif style == "zsub":
        for e, c in E:
            e["len"] = Fraction(0) if rng.random() < 0.3 else pos()
        inner = [(e, c) for e, c in E if kids(c)]
        for e, c in rng.sample(inner, min(len(inner), rng.choice([1, 2]))):
            e["len"] = Fraction(0)
            for e2, _ in subtree_edges(c):
                e2["len"] = Fraction(0)
        for e, c in kids(t):
            if kids(c) and rng.random() < 0.7:
                e["len"] = Fraction(0)
    else:
        for e, c in E:
            e["len"] = Fraction(0) if rng.random() < 0.4 else pos()
        for e, c in E:
            if kids(c) and all(not kids(x) for _, x in kids(c)):
                for e2, _ in kids(c):
                    e2["len"] = Fraction(0)
                if rng.random() < 0.6:
                    e["len"] = Fraction(0)
    return t, "zero-" + style

def zero_exhaustive():
    """every rooted shape with 4..5 tips (nodes with 2 or 3 children) x every pattern of lengths in {0, 1, 2} (4 tips)
    or {0, 1} (5 tips) with at least half of the branches zero"""
    from itertools import product
    def shapes(ns):
        if len(ns) == 1:
            yield ns[0]
            return
        # set partitions of ns into 2 or 3 blocks, first block holds ns[0]
        def parts(ns, k):
            if k == 1:
                yield [ns]
                return
            rest = ns[1:]
            for mask in range(1 << len(rest)):
                a = [ns[0]] + [x for j, x in enumerate(rest) if mask >> j & 1]
                b = [x for j, x in enumerate(rest) if not mask >> j & 1]
                if len(b) >= k - 1:
                    for p in parts(b, k - 1):
                        yield [a] + p
        for k in (2, 3):
            if len(ns) >= k:
                for p in parts(ns, k):
                    for sub in product(*[list(shapes(b)) for b in p]):
                        yield list(sub)
    def mk(sh, is_root):
        if not isinstance(sh, list):
            return {"name": sh, "coms": [], "slots": [] if is_root else [None]}
        slots = [({"len": None, "sup": None, "pv": None, "coms": []}, mk(c, False)) for c in sh]
        return {"name": "", "coms": [], "slots": slots if is_root else [None] + slots}
    import copy
    for n, vals, num, den in ((4, (0, 1, 2), 1, 2), (5, (0, 1), 1, 2)):
        for sh in shapes(["t%d" % j for j in range(n)]):
            base = mk(sh, True)
            ne = len(list(all_edges(base)))
            for pat in product(vals, repeat=ne):
                if den * sum(1 for x in pat if x == 0) < num * ne or not any(pat):
                    continue
                t = copy.deepcopy(base)
                for (e, _), l in zip(all_edges(t), pat):
                    e["len"] = Fraction(l)
                yield t

# (a negative support other than the 'absent' marker is outside the quantifier: UnRoot clamps it to 0 when it merges
# the two root branches, which the oracle reports as a changed support -- seen with -1/2, not generated)
SEED_FAMILY_VALUES = [(2, 1, 3), (1, 2, 3), (1, 1, 1), (1, 0, 2), (3, 1, 0), (Fraction(1, 2), Fraction(5, 2), Fraction(1, 4))]

def seed_family(rng, reps):
    """(((D:a,E:b):c,(F:0,G:0):0):0,A:0,B:0) seen as an unrooted tree, hung from every inner node of its zero-length
    region (R, M, Q) and from a two-child root put on every zero-length branch, x every order of the children of
    every node; the parent slot at a random position; a few (a, b, c), `reps` of them per arrangement"""
    from itertools import permutations, product
    adj = {"R": ["M", "A", "B"], "M": ["P", "Q", "R"], "P": ["D", "E", "M"], "Q": ["F", "G", "M"]}
    def mk(node, parent, orders, lens):
        if node not in adj:
            return {"name": node, "coms": [], "slots": [None]}
        ch = [x for x in adj[node] if x != parent]
        slots = [({"len": lens.get(frozenset((node, x)), Fraction(0)), "sup": None, "pv": None, "coms": []}, mk(x, node, orders, lens))
                 for x in orders[node]]
        if parent is not None:
            slots.insert(rng.randrange(len(slots) + 1), None)
        return {"name": "", "coms": [], "slots": slots}
    rootings = [("R", None), ("M", None), ("Q", None)] + [(u, v) for u, v in
                [("M", "Q"), ("M", "R"), ("Q", "F"), ("Q", "G"), ("R", "A"), ("R", "B")]]
    k = 0
    for u, v in rootings:
        # children lists of every inner node under this rooting
        def kidsof(node, parent):
            return [x for x in adj[node] if x != parent]
        par = {}
        def walk(node, parent):
            par[node] = parent
            for x in adj.get(node, []):
                if x != parent:
                    walk(x, node)
        if v is None:
            walk(u, None)
        else:
            walk(u, v); walk(v, u)
        inner = [n for n in adj]
        for combo in product(*[list(permutations(kidsof(n, par[n]))) for n in inner]):
            orders = dict(zip(inner, combo))
            for flip in ((False,) if v is None else (False, True)):
                for _ in range(reps):
                    a, b, c = SEED_FAMILY_VALUES[k % len(SEED_FAMILY_VALUES)]
                    k += 1
                    lens = {frozenset(("P", "D")): Fraction(a), frozenset(("P", "E")): Fraction(b), frozenset(("P", "M")): Fraction(c)}
                    if v is None:
                        t = mk(u, None, orders, lens)
                    else:
                        e = lambda: {"len": Fraction(0), "sup": None, "pv": None, "coms": []}
                        two = [(e(), mk(u, v, orders, lens)), (e(), mk(v, u, orders, lens))]
                        t = {"name": "", "coms": [], "slots": two[::-1] if flip else two}
                    yield t

ROOT_SUPS = [None, Fraction(0), Fraction(1, 64), Fraction(1), Fraction(5), Fraction(0), None]
ROOT_LENS = [None, Fraction(0), Fraction(1), Fraction(0), Fraction(5, 2)]

def root_branch_tree(rng, g, i):
    n = rng.randint(4, 8)
    names = ["t%d" % j for j in range(n)]
    rng.shuffle(names)
    k = rng.randint(2, n - 2) if i % 5 else 1          # one in five: a tip below the root
    left = g.shape(names[:k], maxdeg=3) if k > 1 else names[0]
    right = g.shape(names[k:], maxdeg=3)
    t = g.decorate([left, right], lenmode="all" if i % 3 else "mixed", supmode="mixed", up_random=rng.random() < 0.5)
    (e1, c1), (e2, c2) = kids(t)
    if i < len(ROOT_SUPS) ** 2:
        s1, s2 = ROOT_SUPS[i % len(ROOT_SUPS)], ROOT_SUPS[i // len(ROOT_SUPS)]
    else:
        s1, s2 = rng.choice(ROOT_SUPS), rng.choice(ROOT_SUPS)
    e1["sup"] = s1 if kids(c1) else None
    e2["sup"] = s2 if kids(c2) else None
    e1["pv"] = e2["pv"] = None
    r = rng.random()
    if r < 0.6:
        e1["len"], e2["len"] = rng.choice(ROOT_LENS), rng.choice(ROOT_LENS)
        if i % 3:
            e1["len"] = e1["len"] if e1["len"] is not None else Fraction(0)
            e2["len"] = e2["len"] if e2["len"] is not None else Fraction(0)
    return t

def gen(rng, tier):
    g = Gen(rng)
    n = {"quick": 150, "thorough": 4000, "search": 400}[tier]
    out = []
    for _ in range(n):
        t = g.tree(lo=3, hi=14 if tier != "thorough" else 40, maxdeg=5, lenmode=rng.choice(["all", "all", "mixed"]),
                   supmode="mixed", inner_names=rng.random() < 0.3, comments=rng.random() < 0.2,
                   up_random=rng.random() < 0.5)
        nn = n_nodes(t)
        rooted = len(t["slots"]) == 2
        ops = []
        for i in rng.sample(range(nn + 1), min(nn + 1, 4)):
            ops.append({"op": Sym("reroot"), "tree": T(t), "i": i})
        ops.append({"op": Sym("unroot"), "tree": T(t)})
        ops.append({"op": Sym("rotate"), "tree": T(t), "seed": rng.randrange(1, 2**31), "nraw": 4 * sum(len(x["slots"]) for x in preorder(t)) + 16})
        ops.append({"op": Sym("sort"), "tree": T(t)})
        for o in ops:
            out.append({"sx": sx(o), "meta": {"op": o["op"].s, "ntips": len(leaves(t)), "rooted": rooted}})
    # rooting on an outgroup / at the midpoint
    m = {"quick": 110, "thorough": 3000, "search": 300}[tier]
    for t, style in root_trees(rng, g, m, 12 if tier != "thorough" else 24):
        for o, meta in root_cases(rng, t, style, tier):
            out.append({"sx": sx(o), "meta": meta})
    # the rooted two-tip tree (the one input that UnRoot leaves hanging from a tip): outgroup is refused (< 3 tips),
    # midpoint gives (a:l/2,b:l/2)
    for i in range({"quick": 8, "thorough": 60, "search": 12}[tier]):
        def tipnode(nm): return {"name": nm, "coms": [], "slots": [None]}
        def edge(l): return {"len": l, "sup": None, "pv": None, "coms": []}
        la = [Fraction(rng.randrange(0, 129), 64), Fraction(0), None][i % 3] if i < 6 else g.length("mixed")
        lb = [Fraction(rng.randrange(0, 129), 64), Fraction(0), None][(i // 3) % 3] if i < 6 else g.length("mixed")
        t = {"name": "", "coms": [], "slots": [(edge(la), tipnode("t0")), (edge(lb), tipnode("t1"))]}
        meta = {"ntips": 2, "rooted": True, "lens": "twotip"}
        out.append({"sx": sx({"op": Sym("midpoint"), "tree": T(t)}), "meta": dict(meta, op="midpoint")})
        out.append({"sx": sx({"op": Sym("outgroup"), "tree": T(t), "names": ["t0"], "remove": i % 2 == 0, "strict": False}),
                    "meta": dict(meta, op="outgroup", og="twotip")})
    # (r3) one outgroup list applied in a loop to several trees, as `gotree reroot outgroup -i multi.nw a b zz` does:
    # absent names at every position, repeated names; every result judged on its own + the list must come back unchanged
    for i in range({"quick": 60, "thorough": 1500, "search": 150}[tier]):
        k = rng.choice([2, 2, 3, 4])
        first = g.tree(lo=3, hi=9, maxdeg=4, lenmode="all", supmode="mixed", up_random=rng.random() < 0.5)
        trees = [first]
        for _ in range(k - 1):
            trees.append(first if rng.random() < 0.4 else
                         g.tree(lo=3, hi=9, maxdeg=4, lenmode="all", supmode="mixed", up_random=rng.random() < 0.5))
        kind, base = rng.choice(outgroups(rng, first, tier)[:6])
        names = list(base)
        for _ in range(rng.choice([1, 1, 2, 3])):
            names.insert(rng.randrange(0, len(names) + 1), "zz%d" % rng.randrange(3))
        if rng.random() < 0.3 and base:
            names.insert(rng.randrange(0, len(names) + 1), rng.choice(base))
        o = {"op": Sym("outgroup_multi"), "trees": [T(x) for x in trees], "names": names,
             "remove": rng.random() < 0.3, "strict": rng.random() < 0.4}
        out.append({"sx": sx(o), "meta": {"op": "outgroup_multi", "ntrees": k, "og": kind, "nnames": len(names)}})
    # (r3) the tip-name index left stale by a public edit before rooting: a tip renamed with Node.SetName, or a tip
    # grafted with GraftTipOnEdge, after the indexes were built; the outgroup names the new tip and old ones
    for i in range({"quick": 80, "thorough": 1500, "search": 200}[tier]):
        t = g.tree(lo=3, hi=9, maxdeg=4, lenmode="all", supmode="mixed", rooted=rng.random() < 0.25,
                   up_random=rng.random() < 0.5)
        L = leaves(t)
        if i % 2 == 0:
            tipn = rng.choice([x for x in preorder(t) if not kids(x)])
            old = tipn["name"]
            tipn["name"] = "nw"
            ogs = [ns for _, ns in outgroups(rng, t, tier) if "nw" in ns and len(ns) >= 2]
            names = rng.choice(ogs) if ogs else ["nw", rng.choice([x for x in leaves(t) if x != "nw"])]
            o = {"op": Sym("outgroup"), "tree": T(t), "pre": [Sym("rename"), old, "nw"], "names": list(names),
                 "remove": rng.random() < 0.25, "strict": rng.random() < 0.5}
            out.append({"sx": sx(o), "meta": {"op": "outgroup", "pre": "rename", "rooted": len(t["slots"]) == 2}})
        else:
            es = list(all_edges(t))
            j = rng.randrange(len(es))
            below = leaves(es[j][1])
            names = below + ["gz"] if rng.random() < 0.7 else [rng.choice(L), "gz"]
            rng.shuffle(names)
            o = {"op": Sym("outgroup"), "tree": T(t), "pre": [Sym("graft"), j, "gz"], "names": names,
                 "remove": rng.random() < 0.25, "strict": rng.random() < 0.5}
            out.append({"sx": sx(o), "meta": {"op": "outgroup", "pre": "graft", "rooted": len(t["slots"]) == 2}})
    # (r3) negative lengths (other than the code -1 of "no length") are outside the property's quantifier ("trees with
    # branch lengths"): correspondence only for midpoint (the judge applies a reduced oracle: well-formed, same tips)
    for i in range({"quick": 40, "thorough": 1000, "search": 150}[tier]):
        t = g.tree(lo=3, hi=9, maxdeg=4, lenmode="all", supmode="none", up_random=rng.random() < 0.5)
        for e, c in all_edges(t):
            v = Fraction(rng.randrange(-5, 11)) if i % 2 == 0 else Fraction(rng.randrange(-128, 257), 64)
            e["len"] = v if v != -1 else Fraction(-2)
        out.append({"sx": sx({"op": Sym("midpoint"), "tree": T(t)}),
                    "meta": {"op": "midpoint", "lens": "negative", "ntips": len(leaves(t))}})
    # (r4) hand-built trees: assembled with NewNode/ConnectNodes in arbitrary branch directions (flip bit per branch, in
    # preorder), then oriented by Reroot on the root itself or on another inner node; model = reroot on the structure
    def edge_depths(t, d=1):
        for e, c in kids(t):
            yield d
            yield from edge_depths(c, d + 1)
    for i in range({"quick": 120, "thorough": 3000, "search": 300}[tier]):
        t = g.tree(lo=4, hi=12, maxdeg=3, lenmode="all", supmode="mixed", inner_names=rng.random() < 0.3,
                   up_random=False, rooted=rng.random() < 0.5)
        ne = n_nodes(t) - 1
        deps = list(edge_depths(t))
        mode = ["none", "all", "random", "deep", "deep", "random"][i % 6]
        if mode == "none":
            flip = [False] * ne
        elif mode == "all":
            flip = [True] * ne
        elif mode == "random":
            flip = [rng.random() < 0.5 for _ in range(ne)]
        else:
            deep = [j for j, d in enumerate(deps) if d >= 3]
            flip = [False] * ne
            if deep:
                flip[rng.choice(deep)] = True
            else:
                flip[rng.randrange(ne)] = True
        inner = [j for j, x in enumerate(preorder(t)) if kids(x)]
        r = rng.random()
        idx = 0 if r < 0.5 else (rng.choice(inner) if r < 0.9 else rng.randrange(ne + 2))
        o = {"op": Sym("handbuilt"), "tree": T(t), "flip": flip, "i": idx}
        out.append({"sx": sx(o), "meta": {"op": "handbuilt", "flip": mode, "atroot": idx == 0, "ntips": len(leaves(t))}})
    # (r5) midpoint on small trees where most branches are zero: the longest path ends in / starts from / crosses whole
    # zero-length regions (zero inner branches next to the root, zero cherries, zero subtrees, the root inside the region)
    for i in range({"quick": 400, "thorough": 8000, "search": 800}[tier]):
        t, style = zero_heavy(rng, g, i)
        out.append({"sx": sx({"op": Sym("midpoint"), "tree": T(t)}),
                    "meta": {"op": "midpoint", "ntips": len(leaves(t)), "rooted": len(t["slots"]) == 2, "lens": style}})
    # the shape of the r5 seed, deterministically: every rooting inside its zero-length region x every child order
    for t in seed_family(rng, {"quick": 1, "thorough": 12, "search": 2}[tier]):
        out.append({"sx": sx({"op": Sym("midpoint"), "tree": T(t)}),
                    "meta": {"op": "midpoint", "ntips": 6, "rooted": len(t["slots"]) == 2, "lens": "zero-family"}})
    if tier == "thorough":
        for t in zero_exhaustive():
            out.append({"sx": sx({"op": Sym("midpoint"), "tree": T(t)}),
                        "meta": {"op": "midpoint", "ntips": len(leaves(t)), "rooted": len(t["slots"]) == 2, "lens": "zero-exh"}})
    # (r5) rooted inputs: support and length of the two root branches in {absent, 0, tiny, 1, > 1, negative} x the same,
    # root children inner/inner (the merged branch keeps a support) or inner/tip; unroot, midpoint, outgroups
    for i in range({"quick": 70, "thorough": 2000, "search": 200}[tier]):
        t = root_branch_tree(rng, g, i)
        meta = {"ntips": len(leaves(t)), "rooted": True, "lens": "rootbranch"}
        out.append({"sx": sx({"op": Sym("unroot"), "tree": T(t)}), "meta": dict(meta, op="unroot")})
        if all(e["len"] is not None for e, _ in all_edges(t)):
            out.append({"sx": sx({"op": Sym("midpoint"), "tree": T(t)}), "meta": dict(meta, op="midpoint")})
        ogs = outgroups(rng, t, tier)
        for kind, names in rng.sample(ogs[:4], min(2, len(ogs[:4]))):
            remove, strict = rng.random() < 0.25, rng.random() < 0.3
            out.append({"sx": sx({"op": Sym("outgroup"), "tree": T(t), "names": list(names), "remove": remove, "strict": strict}),
                        "meta": dict(meta, op="outgroup", og=kind, remove=remove, strict=strict)})
    # (r5) negative supports (outside the quantifier: a support is a non-negative number; the merge of the two root
    # branches writes max(max(0,s1),max(0,s2)), so a negative one is not kept): correspondence only (judge_negsup)
    NEG = [Fraction(-1, 2), Fraction(-2), Fraction(-1, 64), None, Fraction(0), Fraction(1, 2), Fraction(-1, 2)]
    for i in range({"quick": 49, "thorough": 1000, "search": 100}[tier]):
        t = root_branch_tree(rng, g, i + 1000)
        (e1, c1), (e2, c2) = kids(t)
        s1, s2 = NEG[i % 7], NEG[(i // 7) % 7]
        if kids(c1): e1["sup"] = s1
        if kids(c2): e2["sup"] = s2
        innerb = [e for e, c in all_edges(t) if kids(c) and c["name"] == ""]
        if not any(e["sup"] is not None and e["sup"] < 0 for e in innerb):
            rng.choice(innerb)["sup"] = Fraction(-rng.randrange(1, 200), 64)
        meta = {"ntips": len(leaves(t)), "rooted": True, "lens": "negsup"}
        out.append({"sx": sx({"op": Sym("unroot"), "tree": T(t)}), "meta": dict(meta, op="unroot")})
        if all(e["len"] is not None for e, _ in all_edges(t)):
            out.append({"sx": sx({"op": Sym("midpoint"), "tree": T(t)}), "meta": dict(meta, op="midpoint")})
        ogs = outgroups(rng, t, tier)
        kind, names = rng.choice(ogs[:4])
        remove, strict = rng.random() < 0.25, rng.random() < 0.3
        out.append({"sx": sx({"op": Sym("outgroup"), "tree": T(t), "names": list(names), "remove": remove, "strict": strict}),
                    "meta": dict(meta, op="outgroup", og=kind, remove=remove, strict=strict)})
    # every tip subset of small trees, both flags
    m = {"quick": 4, "thorough": 150, "search": 10}[tier]
    for t, style in root_trees(rng, g, m, 5 if tier == "quick" else 6):
        for o, meta in root_cases(rng, t, style, tier, exhaustive=True):
            out.append({"sx": sx(o), "meta": meta})
    return out

# ---------------------------------------------------------------- matchers for known findings
# (none: the three defects found here -- zero-length cut branch losing length and support, midpoint panic on an
# all-zero tree, midpoint misplaced when the longest path ended with zero-length branches -- were fixed in /repo)
MATCHERS = {}

# ---------------------------------------------------------------- the command line on multi-tree files (r4)
# `gotree reroot outgroup -i multi.nw [-r] [--strict] names...` and `gotree reroot midpoint -i multi.nw`: 2-4 trees on
# the same or on different tip sets, outgroup names absent from the first tree and present later, absent names at every
# position; every printed tree is parsed and judged by the oracle of Judge/C05.v against ITS input tree (oracle only:
# neighbour orders are not comparable through Newick text).

def _parse_newick(text):
    pos = [0]
    def node(is_root):
        kidsl = []
        if text[pos[0]] == "(":
            pos[0] += 1
            while True:
                kidsl.append(node(False))
                if text[pos[0]] == ",":
                    pos[0] += 1
                    continue
                if text[pos[0]] == ")":
                    pos[0] += 1
                    break
                raise ValueError("bad newick at %d" % pos[0])
        st = pos[0]
        while pos[0] < len(text) and text[pos[0]] not in ":,();":
            pos[0] += 1
        label = text[st:pos[0]]
        ln = None
        if pos[0] < len(text) and text[pos[0]] == ":":
            pos[0] += 1
            st = pos[0]
            while pos[0] < len(text) and text[pos[0]] not in ",();":
                pos[0] += 1
            ln = Fraction(text[st:pos[0]])
        sup, name = None, label
        if kidsl and label:
            try:
                sup, name = Fraction(label), ""
            except ValueError:
                pass
        n = {"name": name, "coms": [], "slots": ([] if is_root else [None]) + [(e, c) for e, c in kidsl]}
        return ({"len": ln, "sup": sup, "pv": None, "coms": []}, n)
    e, n = node(True)
    return n

def extra(tier, seed, st):
    import cli, random, subprocess
    info = {"cli_runs": 0, "cli_trees_judged": 0, "evaluations": 0, "distinct_nontrivial": 0}
    ok, err = cli.build_gotree()
    if not ok:
        return [("build", "gotree no longer builds: " + err[-500:], None)], info
    rng = random.Random(seed + 505)
    g = Gen(rng)
    d = cli.scratch("c05cli-")
    jobs = []     # (argv, file text, [(case sx, input tree)], op)
    nfiles = {"quick": 60, "thorough": 600}.get(tier, 60)
    for i in range(nfiles):
        k = rng.choice([2, 2, 3, 4])
        universe = ["t%d" % j for j in range(rng.randint(4, 8))]
        trees = []
        for j in range(k):
            if j > 0 and rng.random() < 0.3:
                trees.append(trees[0])
                continue
            sub = universe if rng.random() < 0.4 else rng.sample(universe, rng.randint(3, len(universe)))
            sh = g.shape(sub, maxdeg=4, rootdeg=2 if rng.random() < 0.4 or len(sub) < 3 else min(len(sub), 3))
            trees.append(g.decorate(sh, lenmode="all", supmode="mixed"))
        if i % 2 == 0 and k >= 2 and set(leaves(trees[0])) == set(leaves(trees[1])) and len(universe) > 3:
            # make sure that some name is absent from the first tree only
            sub = rng.sample(universe, len(universe) - 1)
            trees[0] = g.decorate(g.shape(sub, maxdeg=4, rootdeg=min(len(sub), 3)), lenmode="all", supmode="mixed")
        text = "".join(newick(t) + "\n" for t in trees)
        f = os.path.join(d, "m%d.nw" % i)
        open(f, "w").write(text)
        if i % 4 == 3:
            jobs.append((["reroot", "midpoint", "-i", f], text, [({"op": Sym("midpoint"), "tree": T(t), "pre": [Sym("cli"), 0, ""]}, t) for t in trees], "midpoint"))
            continue
        src = trees[rng.randrange(k)]
        ogs = outgroups(rng, src, tier)
        kind, base = rng.choice(ogs[:6])
        names = [x for x in base]
        missing = [x for x in universe if x not in leaves(trees[0])]
        if missing and rng.random() < 0.7:
            names.append(rng.choice(missing))
        for _ in range(rng.choice([0, 1, 2])):
            names.insert(rng.randrange(0, len(names) + 1), "zz%d" % rng.randrange(3))
        if not names:
            names = [rng.choice(universe)]
        remove, strict = rng.random() < 0.25, rng.random() < 0.3
        argv = ["reroot", "outgroup", "-i", f] + (["-r"] if remove else []) + (["--strict"] if strict else []) + names
        jobs.append((argv, text, [({"op": Sym("outgroup"), "tree": T(t), "pre": [Sym("cli"), 0, ""], "names": list(names),
                                    "remove": remove, "strict": strict}, t) for t in trees], "outgroup"))
    fails = []
    lines, back = [], {}
    for ji, (argv, text, cases, op) in enumerate(jobs):
        rc, so, se = cli.run(argv, d)
        info["cli_runs"] += 1
        outs = [l for l in so.decode("utf-8", "replace").split("\n") if l.strip()]
        if rc != 0:
            # a refusal on some tree stops the command (the message is echoed on stdout): the trees printed before it are judged
            k = 0
            while k < len(outs) and outs[k].strip().endswith(";") and outs[k].lstrip().startswith("("):
                k += 1
            outs = outs[:min(k, len(cases) - 1)]
            info["cli_refusals"] = info.get("cli_refusals", 0) + 1
        if rc == 0 and len(outs) != len(cases):
            fails.append(("cli-" + op, "%d trees printed for %d input trees" % (len(outs), len(cases)),
                          {"argv": argv[:3] + ["FILE"] + argv[4:], "input": text, "stdout": so.decode("utf-8", "replace")[:2000]}))
            continue
        for ti, l in enumerate(outs[:len(cases)]):
            try:
                gt = _parse_newick(l.strip())
            except Exception as ex:
                fails.append(("cli-" + op, "output tree not readable: %s" % ex, {"argv": argv, "input": text, "line": l[:500]}))
                continue
            cid = "%d.%d" % (ji, ti)
            obs = "((err \"\") (tree %s) (audit ()))" % tree_sx(gt)
            lines.append("C05\t%s\t%s\t%s\n" % (cid, sx(cases[ti][0]), obs))
            back[cid] = (argv, text, ti, l)
    if lines:
        j = subprocess.run([os.path.join(BUILD, "judge-C05")], input="".join(lines).encode(), stdout=subprocess.PIPE, stderr=subprocess.PIPE, timeout=600)
        seen = set()
        for line in j.stdout.decode("utf-8", "surrogateescape").split("\n"):
            parts = line.split("\t")
            if len(parts) < 2:
                continue
            seen.add(parts[0])
            info["cli_trees_judged"] += 1
            if parts[1] != "OK":
                argv, text, ti, l = back[parts[0]]
                fails.append(("cli-" + argv[1], "tree %d of the file: %s" % (ti + 1, " ".join(parts[1:3])[:300]),
                              {"argv": ["gotree"] + argv[:3] + ["FILE"] + argv[4:], "input": text, "tree_index": ti, "output": l[:1000]}))
        for cid in back:
            if cid not in seen:
                fails.append(("cli-judge", "no verdict for " + cid, None))
    info["evaluations"] = info["cli_trees_judged"]
    fails.sort(key=lambda x: len(json.dumps(x[2])) if x[2] else 0)
    return fails[:5], info
