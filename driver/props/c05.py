"""C05: re-rooting, unrooting and reordering never change the tree itself."""
from lib import *

PROP = "C05"
LEVEL = "proof"
RULE = ("random multifurcating trees (3..14 tips, rooted/unrooted, parent slot at random positions as after earlier "
        "re-rootings, lengths present/zero), every op of {reroot at each pre-order node index incl. tips and out of range, "
        "unroot, rotate with a recorded rand stream, sort}; a case is non-trivial when the operation changed the structure; "
        "distinct = distinct case text")
TRUSTED = ["tree built through NewNode/NewEdge + verif hooks (exact neighbour order); dump through Neigh()/Edges()/Left()/Right()"]
ASSUMPTIONS = ["math/rand: Intn/Int31n transcribed in Model/Rand.v; the recorded Int63 stream is what the code under test consumes"]

def gen(rng, tier):
    g = Gen(rng)
    n = {"quick": 150, "thorough": 4000, "search": 400}[tier]
    out = []
    for _ in range(n):
        t = g.tree(lo=3, hi=14 if tier != "thorough" else 40, maxdeg=5, lenmode=rng.choice(["all", "all", "mixed"]),
                   supmode="mixed", inner_names=rng.random() < 0.3, comments=rng.random() < 0.2,
                   up_random=rng.random() < 0.5)
        nn = n_nodes(t)
        rooted = len(t["slots"]) == 2
        ops = []
        for i in rng.sample(range(nn + 1), min(nn + 1, 4)):
            ops.append({"op": Sym("reroot"), "tree": T(t), "i": i})
        ops.append({"op": Sym("unroot"), "tree": T(t)})
        ops.append({"op": Sym("rotate"), "tree": T(t), "seed": rng.randrange(1, 2**31), "nraw": 4 * sum(len(x["slots"]) for x in preorder(t)) + 16})
        ops.append({"op": Sym("sort"), "tree": T(t)})
        for o in ops:
            out.append({"sx": sx(o), "meta": {"op": o["op"].s, "ntips": len(leaves(t)), "rooted": rooted}})
    return out
