"""C16: tree generators return valid trees of the requested size and shape."""
from lib import *

PROP = "C16"
LEVEL = "proof"
RULE = ("every generator of tree/treegen.go (uniform, yule, caterpillar, balanced, star, star from names, AllTopologies), "
        "rooted and unrooted, sizes from 0 up to 40 (thorough: 150; balanced depth 0..6, thorough 8; enumerator n 0..7 "
        "unrooted / 0..6 rooted, thorough 8 / 7), random seeds; the handler records the raw rand stream of the seed, the "
        "model (Coq) replays the generator on it; a case is non-trivial when a tree (or a list of trees) was returned and "
        "compared; distinct = distinct case text")
TRUSTED = ["dump through Neigh()/Edges()/Left()/Right() (treeio.go), tip index through VerifTipIndexNames/TipIndex, bitsets through Edge.Bitset()",
           "the worker's table exptab[p] = gostats.Exp(1.0/0.1) started at stream position p (computed with gostats.Exp itself)"]
ASSUMPTIONS = ["math/rand (go1.23, v1 API): Intn/Int31n transcribed in Model/Rand.v, Float64 in Model/Rand2.v (cross-checked against "
               "rand.Float64 on every recorded stream); the recorded Int63 stream is what the code under test consumes after rand.Seed(seed) "
               "(the number of values consumed is compared with the model's plan)",
               "gostats.Exp(lambda) = one rand.Float64 draw; its value is opaque to the model (read from the worker's table), only its "
               "sign is judged (oracle: lengths >= 0)"]
LEVEL_TEXT = ("theorems in coq/Properties/C16.v about Model/TreeGen.v for every choice vector within bounds and every size; "
              "correspondence: exact structural equality (neighbour order, names, which Exp draw lands on which branch) with the Go "
              "result, on the recorded random stream; oracle: Spec/GenShape.v on Go's own output")
LEVEL_NOTE = ""

GENS = ["uniform", "yule", "caterpillar"]

def case(gen, n, rooted, seed, nraw, names=None):
    d = {"gen": Sym(gen), "n": n, "rooted": bool(rooted), "seed": seed, "nraw": nraw}
    if names is not None:
        d["names"] = list(names)
    return {"sx": sx(d), "meta": {"gen": gen, "n": n, "rooted": bool(rooted)}}

def gen(rng, tier):
    out = []
    hi = {"quick": 40, "thorough": 150, "search": 30}[tier]
    reps = {"quick": 2, "thorough": 6, "search": 2}[tier]
    sizes = list(range(0, 14)) + [rng.randint(14, hi) for _ in range({"quick": 6, "thorough": 40, "search": 6}[tier])]
    for g in GENS:
        for n in sizes:
            for rooted in (False, True):
                for _ in range(reps if n >= 3 else 1):
                    out.append(case(g, n, rooted, rng.randrange(1, 2**31), 4 * n + 40))
    dmax = {"quick": 6, "thorough": 8, "search": 5}[tier]
    for d in range(0, dmax + 1):
        for rooted in (False, True):
            for _ in range(reps if d >= 1 else 1):
                out.append(case("balanced", d, rooted, rng.randrange(1, 2**31), 2 ** (d + 1) + 40))
    for n in list(range(0, 12)) + [rng.randint(12, hi) for _ in range(4)]:
        out.append(case("star", n, False, 1, 4))
        names = ["n%d_%d" % (rng.randrange(1000), i) for i in range(n)]
        rng.shuffle(names)
        out.append(case("starnames", n, False, 1, 4, names))
    umax, rmax = {"quick": (7, 6), "thorough": (8, 7), "search": (6, 5)}[tier]
    for n in range(0, umax + 1):
        out.append(case("topologies", n, False, 1, 0))
    for n in range(0, rmax + 1):
        out.append(case("topologies", n, True, 1, 0))
    # enumerator with given names (and a wrong number of names)
    out.append(case("topologies", 5, False, 1, 0, ["e", "b", "a", "d", "c"]))
    out.append(case("topologies", 4, True, 1, 0, ["z", "y", "x", "w"]))
    out.append(case("topologies", 4, False, 1, 0, ["a", "b", "c"]))
    return out

def _f(case, k):
    try:
        return alist(parse_sexp(case["sx"])).get(k)
    except Exception:
        return None

def _is(case, gens, n, rooted):
    if not case.get("sx"):
        return False
    return _f(case, "gen") in gens and _f(case, "n") == str(n) and _f(case, "rooted") == ("T" if rooted else "F")

MATCHERS = {
    # RandomUniform/Yule/CaterpillarBinaryTree(2, false): the documented minimum ("less than 2 tips" is what is
    # rejected) returns the error of RerootFirst ("No nodes with 3 neighors ...") together with the tree
    "C16-unrooted-2tips-rejected": lambda c: _is(c, ("uniform", "yule", "caterpillar"), 2, False),
}
