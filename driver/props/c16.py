"""C16: tree generators return valid trees of the requested size and shape."""
from lib import *
import os, re, shutil
import cli

PROP = "C16"
PAR_OK = lambda c: '(gen concurrent)' not in c['sx']
LEVEL = "proof"
RULE = ("every generator of tree/treegen.go (uniform, yule, caterpillar, balanced, star, star from names, AllTopologies), "
        "rooted and unrooted, sizes from 0 up to 40 (thorough: 150; balanced depth 0..6, thorough 8; enumerator n 0..7 "
        "unrooted / 0..6 rooted, thorough 8 / 7), random seeds; the handler records the raw rand stream of the seed, the "
        "model (Coq) replays the generator on it; a case is non-trivial when a tree (or a list of trees) was returned and "
        "compared; distinct = distinct case text; round 8: BipartitionTree on every pair of side sizes 0..4, names common to both "
        "sides / repeated inside one side, random sides of 2..12 names, and EdgeTree on branches of random source trees "
        "(families bipartition / edgetree, model Model/C16Extra8.v)")
TRUSTED = ["dump through Neigh()/Edges()/Left()/Right() (treeio.go), tip index through VerifTipIndexNames/TipIndex, bitsets through Edge.Bitset()",
           "the worker's table exptab[p] = gostats.Exp(1.0/0.1) started at stream position p (computed with gostats.Exp itself)"]
ASSUMPTIONS = ["math/rand (go1.23, v1 API): Intn/Int31n transcribed in Model/Rand.v, Float64 in Model/Rand2.v (cross-checked against "
               "rand.Float64 on every recorded stream); the recorded Int63 stream is what the code under test consumes after rand.Seed(seed) "
               "(the number of values consumed is compared with the model's plan)",
               "gostats.Exp(lambda) = one rand.Float64 draw; its value is opaque to the model (read from the worker's table), only its "
               "sign is judged (oracle: lengths >= 0)"]
LEVEL_TEXT = ("theorems in coq/Properties/C16.v about Model/TreeGen.v for every choice vector within bounds and every size "
              "(Properties/C16Extra8.v: BipartitionTree / EdgeTree for all name lists, exact success domain; 2n-3 / 2n-2 branches); "
              "correspondence: exact structural equality (neighbour order, names, which Exp draw lands on which branch) with the Go "
              "result, on the recorded random stream; oracle: Spec/GenShape.v on Go's own output")
LEVEL_NOTE = ("2 tips unrooted (and depth 1 unrooted) crashed, then returned an error with the tree / an unreadable Newick text; "
              "fixed in /repo (79eaf44, 475e9fd) by raising the minimum to 3 tips / depth 2; tip index and bitsets are judged by the oracle only")

GENS = ["uniform", "yule", "caterpillar"]

def case(gen, n, rooted, seed, nraw, names=None):
    d = {"gen": Sym(gen), "n": n, "rooted": bool(rooted), "seed": seed, "nraw": nraw}
    if names is not None:
        d["names"] = list(names)
    return {"sx": sx(d), "meta": {"gen": gen, "n": n, "rooted": bool(rooted)}}

def gen(rng, tier):
    out = []
    hi = {"quick": 40, "thorough": 150, "search": 30}[tier]
    reps = {"quick": 2, "thorough": 6, "search": 2}[tier]
    sizes = list(range(0, 14)) + [rng.randint(14, hi) for _ in range({"quick": 6, "thorough": 40, "search": 6}[tier])]
    for g in GENS:
        for n in sizes:
            for rooted in (False, True):
                for _ in range(reps if n >= 3 else 1):
                    out.append(case(g, n, rooted, rng.randrange(1, 2**31), 4 * n + 40))
    dmax = {"quick": 6, "thorough": 8, "search": 5}[tier]
    for d in range(0, dmax + 1):
        for rooted in (False, True):
            for _ in range(reps if d >= 1 else 1):
                out.append(case("balanced", d, rooted, rng.randrange(1, 2**31), 2 ** (d + 1) + 40))
    for n in list(range(0, 12)) + [rng.randint(12, hi) for _ in range(4)]:
        out.append(case("star", n, False, 1, 4))
        names = ["n%d_%d" % (rng.randrange(1000), i) for i in range(n)]
        rng.shuffle(names)
        out.append(case("starnames", n, False, 1, 4, names))
    umax, rmax = {"quick": (7, 6), "thorough": (8, 7), "search": (6, 5)}[tier]
    for n in range(0, umax + 1):
        out.append(case("topologies", n, False, 1, 0))
    for n in range(0, rmax + 1):
        out.append(case("topologies", n, True, 1, 0))
    # out-of-domain sizes: negative tip counts / depths (an error, never a panic); duplicated names for StarTreeFromName
    for n in (-1, -5, -(2 ** 63)):
        for gname in GENS + ["balanced", "topologies"]:
            for rooted in (False, True):
                out.append(case(gname, n, rooted, rng.randrange(1, 2**31), 8))
        out.append(case("star", n, False, 1, 4))
    for names in (["a", "a"], ["x", "y", "x", "z"], ["", ""], ["b", "b", "b"]):
        out.append(case("starnames", len(names), False, 1, 4, names))
    # AllTopologies: number of names different from the requested number of tips (fewer, more, below the minimum)
    for n, rooted, names in [(4, False, ["a", "b"]), (4, True, ["a"]), (4, False, ["a", "b", "c", "d", "e"]), (3, False, ["a"]),
                             (5, True, ["a", "b", "c"]), (2, True, ["a", "b", "c"]), (6, False, ["a", "b", "c"]), (3, True, ["a", "b"]),
                             (5, False, ["a", "b", "c", "d"]), (4, True, ["a", "b", "c", "d", "e", "f"])]:
        out.append(case("topologies", n, rooted, 1, 0, names))
    # StarTreeFromTree: source trees whose tips are not met in alphabetical order, more than 10 tips, names like the
    # placeholders Tip<i>
    gg = Gen(rng)
    for i in range({"quick": 16, "thorough": 200, "search": 12}[tier]):
        nt = rng.choice([3, 5, 8, 11, 12, 15, 25])
        style = i % 4
        if style == 0:
            names = ["Tip%d" % j for j in rng.sample(range(nt), nt)]
        elif style == 1:
            names = ["Tip%d" % j for j in rng.sample(range(3 * nt), nt)]
        else:
            names = ["%s%d" % (rng.choice("zyxabc"), j) for j in range(nt)]
        rng.shuffle(names)
        t = gg.decorate(gg.shape(names, maxdeg=4, rootdeg=rng.choice([2, 3])), lenmode="all", supmode="none")
        d0 = case("starfromtree", nt, False, 1, 4)
        out.append({"sx": sx({"gen": Sym("starfromtree"), "n": nt, "rooted": False, "seed": 1, "nraw": 4, "tree": T(t)}),
                    "meta": {"gen": "starfromtree", "n": nt, "rooted": False}})
    # several goroutines generating at once (shared state between calls shows up as corrupted trees)
    for which, n in [("uniform", 30), ("uniform", 200), ("yule", 40), ("caterpillar", 40), ("balanced", 5), ("star", 30), ("topologies", 5)]:
        for rooted in (False, True):
            out.append({"sx": sx({"gen": Sym("concurrent"), "which": Sym(which), "n": n, "rooted": rooted, "k": 8,
                                  "per": 6 if which == "topologies" else 40}),
                        "meta": {"gen": "concurrent:" + which, "n": n, "rooted": rooted}})
    # math/rand itself on crafted streams: Int31n rejection loop, Float64 retry (x >= 2^63-512)
    top = 2 ** 63
    for _ in range({"quick": 40, "thorough": 400, "search": 20}[tier]):
        plan, raw = [], []
        for _ in range(rng.randint(1, 8)):
            if rng.random() < 0.4:
                plan.append(0)
                while rng.random() < 0.5:
                    raw.append(top - 1 - rng.randrange(0, 512))          # rounds to 1.0: retry
                raw.append(rng.choice([top - 513, top - 513 - rng.randrange(0, 2048), rng.randrange(0, top),
                                       rng.randrange(0, 2 ** 53), 2 ** 53 + rng.randrange(0, 8), 0]))
            else:
                b = rng.choice([1, 2, 3, 5, 6, 7, 10, 12, 100, 1000, 1023, 1024, 1500])   # the judge's bounds are unary nats
                plan.append(b)
                if b & (b - 1):
                    mx = 2 ** 31 - 1 - (2 ** 31 % b)
                    while rng.random() < 0.5 and mx < 2 ** 31 - 1:
                        raw.append((rng.randrange(mx + 1, 2 ** 31) << 32) | rng.randrange(0, 2 ** 32))   # rejected
                    raw.append((rng.randrange(0, mx + 1) << 32) | rng.randrange(0, 2 ** 32))
                else:
                    raw.append(rng.randrange(0, top))
        out.append({"sx": sx({"gen": Sym("randlib"), "n": 0, "rooted": False, "rawin": raw, "plan": plan}),
                    "meta": {"gen": "randlib", "n": len(plan), "rooted": False}})
    # BipartitionTree / EdgeTree (round 8, Model/C16Extra8.v): every pair of side sizes 0..4, common names,
    # a name repeated inside one side, random sizes; EdgeTree on branches of random source trees
    def bip(lefts, rights):
        return {"sx": sx({"gen": Sym("bipartition"), "n": len(lefts) + len(rights), "rooted": False, "seed": 1, "nraw": 0,
                          "lefts": list(lefts), "rights": list(rights)}),
                "meta": {"gen": "bipartition", "n": len(lefts) + len(rights), "rooted": False}}
    for a in range(0, 5):
        for b in range(0, 5):
            out.append(bip(["L%d" % i for i in range(a)], ["R%d" % i for i in range(b)]))
    out.append(bip(["a", "b"], ["b", "c"]))
    out.append(bip(["a", "b", "c"], ["d", "e", "a"]))
    out.append(bip(["a", "a"], ["c", "d"]))
    out.append(bip(["a", "b"], ["c", "d", "c"]))
    out.append(bip(["a", "a"], ["a", "d"]))
    out.append(bip(["a"], ["a"]))
    out.append(bip(["", "x"], ["y", "z"]))
    for _ in range({"quick": 12, "thorough": 80, "search": 8}[tier]):
        a, b = rng.randint(2, 12), rng.randint(2, 12)
        names = ["%s%d" % (rng.choice("zyxabc"), j) for j in range(a + b)]
        rng.shuffle(names)
        if rng.random() < 0.2:
            names[rng.randrange(a + b)] = names[rng.randrange(a + b)]
        out.append(bip(names[:a], names[a:]))
    for _ in range({"quick": 8, "thorough": 40, "search": 4}[tier]):
        nt = rng.randint(3, 12)
        names = ["%s%d" % (rng.choice("zyxabc"), j) for j in range(nt)]
        rng.shuffle(names)
        t = gg.decorate(gg.shape(names, maxdeg=rng.choice([3, 4]), rootdeg=rng.choice([2, 3])), lenmode="all", supmode="none")
        for k in sorted(set(rng.randrange(nt) for _ in range(3))):
            out.append({"sx": sx({"gen": Sym("edgetree"), "n": nt, "rooted": False, "seed": 1, "nraw": 0, "tree": T(t), "k": k}),
                        "meta": {"gen": "edgetree", "n": nt, "rooted": False}})
    # enumerator with given names (and a wrong number of names)
    out.append(case("topologies", 5, False, 1, 0, ["e", "b", "a", "d", "c"]))
    out.append(case("topologies", 4, True, 1, 0, ["z", "y", "x", "w"]))
    out.append(case("topologies", 4, False, 1, 0, ["a", "b", "c"]))
    for n in range(2, 7):
        for rooted in (False, True):
            names = ["s%d_%d" % (rng.randrange(100), i) for i in range(n)]
            rng.shuffle(names)
            out.append(case("topologies", n, rooted, 1, 0, names))
    return out

def _f(case, k):
    try:
        return alist(parse_sexp(case["sx"])).get(k)
    except Exception:
        return None

def _is(case, gens, n, rooted):
    if not case.get("sx"):
        return False
    return _f(case, "gen") in gens and _f(case, "n") == str(n) and _f(case, "rooted") == ("T" if rooted else "F")

MATCHERS = {}

# ---------------------------------------------------------------- the commands (extra)

def _parse_newick(s):
    """minimal strict Newick reader: nested lists of names; raises on malformed text"""
    pos = [0]
    def node():
        if pos[0] < len(s) and s[pos[0]] == "(":
            pos[0] += 1
            ch = [node()]
            while s[pos[0]] == ",":
                pos[0] += 1
                ch.append(node())
            if s[pos[0]] != ")":
                raise ValueError("expected )")
            pos[0] += 1
            label()
            return ch
        return label()
    def label():
        st = pos[0]
        while pos[0] < len(s) and s[pos[0]] not in ",();":
            pos[0] += 1
        lab = s[st:pos[0]]
        if lab.count(":") > 1:
            raise ValueError("two lengths on one node")
        if ":" in lab:
            float(lab.split(":")[1])
            if float(lab.split(":")[1]) < 0:
                raise ValueError("negative length")
        return lab.split(":")[0]
    t = node()
    if s[pos[0]:].strip() != ";":
        raise ValueError("trailing text")
    return t

def _tips(t):
    return [t] if isinstance(t, str) else [x for c in t for x in _tips(c)]

def _shape_ok(t, rooted, top=True):
    if isinstance(t, str):
        return True
    want = (2 if rooted else 3) if top else 2
    return len(t) == want and all(_shape_ok(c, rooted, False) for c in t)

def extra(tier, seed, st):
    """the generate commands at and around the documented minimum: no crash, an error message below the
    minimum, a parsable binary tree with the requested tips from the minimum on"""
    fails = []
    info = {"evaluations": 0, "distinct_nontrivial": 0, "commands": {}}
    ok, err = cli.build_gotree()
    if not ok:
        return [("build", "gotree no longer builds: " + err[-500:], None)], info
    d = cli.scratch("c16x-")
    try:
        runs = []
        for cmd, flag, minu, minr in [("uniformtree", "-l", 3, 3), ("yuletree", "-l", 3, 3), ("caterpillartree", "-l", 3, 3),
                                      ("balancedtree", "-d", 2, 1), ("startree", "-l", 2, None)]:
            for rooted in ([False, True] if minr is not None else [False]):
                for n in range(0, 7):
                    runs.append((cmd, flag, n, rooted, n >= (minr if rooted else minu)))
        for cmd, flag, n, rooted, valid in runs:
            argv = ["generate", cmd, flag, str(n), "--seed", str(seed % 100000 + n)] + (["-r"] if rooted else [])
            rc, so, se = cli.run(argv, d)
            so, se = so.decode("utf-8", "replace"), se.decode("utf-8", "replace")
            info["evaluations"] += 1
            name = "%s %s %d %s" % (cmd, flag, n, "rooted" if rooted else "unrooted")
            body = {"argv": argv, "rc": rc, "stdout": so[:500], "stderr": se[:500]}
            if "panic:" in se or "goroutine " in se or rc < 0 or rc == 2:
                fails.append((name, "`gotree %s` crashed: %s" % (" ".join(argv), se[:200]), body))
                continue
            if not valid:
                if "(" in so and ";" in so and "Error" not in so:
                    fails.append((name, "`gotree %s`: a size below the documented minimum yields a tree" % " ".join(argv), body))
                elif "rror" not in se:
                    fails.append((name, "`gotree %s`: no error message for a size below the documented minimum" % " ".join(argv), body))
                continue
            ntips = 2 ** n if cmd == "balancedtree" else n
            try:
                if rc != 0:
                    raise ValueError("exit status %d: %s" % (rc, se[:120]))
                t = _parse_newick(so.strip())
                tips = _tips(t)
                if sorted(tips) != sorted("Tip%d" % i for i in range(ntips)):
                    raise ValueError("tips %s" % tips[:8])
                if cmd != "startree" and ntips > 2 and not _shape_ok(t, rooted):
                    raise ValueError("not binary / wrong root degree")
                info["distinct_nontrivial"] += 1
            except Exception as e:
                fails.append((name, "`gotree %s`: a valid size does not yield a tree with the requested tips (%s); output %r" %
                              (" ".join(argv), e, so[:80]), body))
        _cli_outputs(d, seed, tier, fails, info)
    finally:
        shutil.rmtree(d, ignore_errors=True)
    return fails, info

def _cli_outputs(d, seed, tier, fails, info):
    """every `gotree generate <kind>`: output to stdout, to a fresh file, to an existing longer file and to an existing
    shorter file must be byte-identical; the trees read back are judged (number of trees, tips, binary, distinct
    topologies for `topologies`); output sizes below 4096, above 4096 and above 65536 bytes"""
    def dfact(k):
        r = 1
        while k > 1:
            r *= k
            k -= 2
        return r
    jobs = []
    for kind, flag, size, ntips in [("uniformtree", "-l", 20, 20), ("yuletree", "-l", 20, 20), ("caterpillartree", "-l", 20, 20),
                                    ("balancedtree", "-d", 4, 16), ("startree", "-l", 20, 20)]:
        for nb in (1, 12, 160):
            for rooted in ([False, True] if kind != "startree" else [False]):
                if nb == 160 and rooted:
                    continue
                jobs.append((kind, [flag, str(size), "-n", str(nb)] + (["-r"] if rooted else []), nb, ntips, rooted))
    for l, rooted in [(5, False), (7, False), (8, False), (4, True), (6, True)]:
        jobs.append(("topologies", ["-l", str(l)] + (["-r"] if rooted else []), dfact(2 * l - 3) if rooted else dfact(2 * l - 5), l, rooted))
    sizes = {"small": 0, "over4096": 0, "over65536": 0}
    for i, (kind, args, ntrees, ntips, rooted) in enumerate(jobs):
        base = ["generate", kind] + args + ["--seed", str(seed % 100000 + i)]
        name = "cli-output %s %s" % (kind, " ".join(args))
        rc, so, se = cli.run(base, d, timeout=120)
        body = {"argv": base, "rc": rc, "stderr": se.decode("utf-8", "replace")[:300]}
        info["evaluations"] += 4
        if rc != 0 or not so:
            fails.append((name, "`gotree %s` failed or printed nothing (rc %d)" % (" ".join(base), rc), body))
            continue
        sizes["small" if len(so) < 4096 else "over4096" if len(so) < 65536 else "over65536"] += 1
        bad = None
        for variant, prefill in [("a fresh file", None), ("an existing longer file", b"x" * (len(so) + 5000)), ("an existing shorter file", b"y" * 10)]:
            f = os.path.join(d, "out-%d-%s.nw" % (i, variant.split()[-2]))
            if os.path.exists(f):
                os.remove(f)
            if prefill is not None:
                open(f, "wb").write(prefill)
            rc2, so2, se2 = cli.run(base + ["-o", f], d, timeout=120)
            got = open(f, "rb").read() if os.path.exists(f) else b"<no file>"
            if rc2 != 0 or got != so:
                k = 0
                while k < min(len(got), len(so)) and got[k] == so[k]:
                    k += 1
                bad = "written to %s the output differs from the one on stdout (rc %d, %d bytes instead of %d, first difference at byte %d)" % (
                    variant, rc2, len(got), len(so), k)
                break
        if bad:
            fails.append((name, "`gotree %s -o FILE`: %s" % (" ".join(base), bad), body))
            continue
        # the trees
        try:
            lines = [l for l in so.decode("utf-8", "replace").split("\n") if l.strip()]
            if len(lines) != ntrees:
                raise ValueError("%d trees instead of %d" % (len(lines), ntrees))
            if kind == "topologies":
                keys = set()
                names = sorted("Tip%d" % (j + 1) for j in range(ntips))
                for l in lines:
                    t = _parse_newick(l.strip())
                    if sorted(_tips(t)) != names or not _shape_ok(t, rooted):
                        raise ValueError("not a binary tree on Tip1..Tip%d: %s" % (ntips, l[:60]))
                    keys.add(_clade_key(t, rooted))
                if len(keys) != ntrees:
                    raise ValueError("%d distinct topologies among %d trees" % (len(keys), ntrees))
            else:
                names = sorted("Tip%d" % j for j in range(ntips))
                for l in (lines if len(lines) <= 20 else lines[:10] + lines[-10:]):
                    t = _parse_newick(l.strip())
                    if sorted(_tips(t)) != names:
                        raise ValueError("tips %s" % _tips(t)[:6])
                    if kind != "startree" and not _shape_ok(t, rooted):
                        raise ValueError("not binary / wrong root degree")
            info["distinct_nontrivial"] += 1
        except Exception as e:
            fails.append((name, "`gotree %s`: %s" % (" ".join(base), e), body))
    info["cli_output_sizes"] = sizes

def _leafset(t):
    return frozenset([t]) if isinstance(t, str) else frozenset().union(*[_leafset(c) for c in t])

def _clade_key(t, rooted):
    allt = _leafset(t)
    acc = set()
    def walk(x):
        if isinstance(x, str):
            return
        for c in x:
            acc.add(_leafset(c))
            walk(c)
    walk(t)
    if rooted:
        return frozenset(c for c in acc if c != allt)
    least = min(allt)
    return frozenset((allt - c) if least in c else c for c in acc)
